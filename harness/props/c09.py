"""C09 -- the feasibility heuristic returns a genuinely feasible solution or fails loudly.

Proof: coq/props/C09.v (models coq/theories/Heur.v, lemmas Heur_facts.v).
Oracle (on the implementation only, this file): whenever make_feasible returns normally the stored
  feasible_solution is a 0/1 vector of length get_num_variables() with A x = b and x'Rx = 0 for the constraint
  data the object then reports, get_qubo(feasibility=True) evaluates to 0 on it and get_qubo(feasibility=False)
  evaluates to its objective (exact arithmetic on integer data); the path-based heuristic (demands within
  capacity, initial load in [0, cap], depot demand 0, depot window end inf, window ends >= 0)
  and the sequence-based heuristic (L >= 3, depot window (a0, inf), a0 <= every customer's window end) never
  raise; the arc-based heuristic may raise but never returns a non-solution.
Inputs: (i) formulation-harness instances and targeted families, every high cost in {0, 1, 10, 10**6}, two
  invocations; (ii) the G1 MIRP example for a sweep of horizons, strict and non-strict; (iii) random MIRPs.
Tie: the same instances through the Gallina models (outcome class, solution vector, graph delta), inside Coq.
"""
import collections
import dataclasses
import math
import os
from fractions import Fraction

import numpy as np
from scipy import sparse

from vq import lit
from vq.core import exc_cls, COQ
from props import formulation_harness as fh

INF = float("inf")
HIGHS = fh.HIGH_COSTS
LIMIT = 2 ** 53
WORKERS = max(1, min(8, (os.cpu_count() or 2) - 1))


def pmap(fn, jobs):
    """Order-preserving map over independent, deterministic jobs in worker processes."""
    if WORKERS <= 1 or len(jobs) < 8:
        return [fn(j) for j in jobs]
    from concurrent.futures import ProcessPoolExecutor
    with ProcessPoolExecutor(max_workers=WORKERS) as ex:
        return list(ex.map(fn, jobs, chunksize=max(1, len(jobs) // (WORKERS * 8))))


# ----------------------------------------------------------------------------------------------------------
# the property's predicate on a real object whose make_feasible has just returned normally
# ----------------------------------------------------------------------------------------------------------
def _fr(v):
    return Fraction(float(v)) if not isinstance(v, (int, Fraction)) else Fraction(v)


def _csr(M):
    return sparse.csr_array(M) if sparse.issparse(M) else sparse.csr_array(np.atleast_2d(np.asarray(M, dtype=float)))


def _quad_exact(M, idx):
    """sum_{i,j in idx} M[i,j] exactly (M sparse or dense, idx the positions of the ones of x)."""
    if len(idx) == 0:
        return Fraction(0), True
    if M.shape[0] <= 400:
        dense = M.toarray() if sparse.issparse(M) else np.atleast_2d(np.asarray(M, dtype=float))
        data = dense[np.ix_(idx, idx)].ravel()
        data = data[data != 0].tolist()
    else:
        data = _csr(M)[idx][:, idx].tocoo().data.tolist()
    tot = Fraction(0)
    integral = True
    for v in data:
        f = Fraction(v)
        integral = integral and f.denominator == 1 and abs(f.numerator) < LIMIT
        tot += f
    return tot, integral


def post_check(rp, opt=True):
    """None if the stored vector is what the property demands, else (clause, message, extra)."""
    fs = rp.feasible_solution
    if fs is None:
        return ("no-vector", "make_feasible returned normally but feasible_solution is None", {})
    x = np.asarray(fs)
    try:
        n = int(rp.get_num_variables())
    except Exception as e:  # noqa
        return ("count-raises", f"get_num_variables raised {type(e).__name__}: {e}", {})
    if x.ndim != 1 or len(x) != n:
        return ("length", f"feasible_solution has shape {x.shape}, the object reports {n} variables", {})
    vals = x.tolist()
    if any(v not in (0, 1) for v in vals):
        return ("binary", f"feasible_solution is not 0/1: {sorted(set(vals))[:5]}", {})
    idx = np.flatnonzero(x)
    ones = [int(i) for i in idx]
    try:
        A, b, R, r = rp.get_constraint_data()
    except Exception as e:  # noqa
        return ("constraint-data-raises", f"get_constraint_data raised {type(e).__name__}: {e}", {"ones": ones})
    b = np.asarray(b)
    if tuple(A.shape) != (len(b), n) or tuple(R.shape) != (n, n) or r != 0:
        return ("shapes", f"A{tuple(A.shape)} b[{len(b)}] R{tuple(R.shape)} r={r} with n={n}", {"ones": ones})
    xf = x.astype(float)
    res = (np.atleast_1d(_csr(A).dot(xf)) if len(b) else np.zeros(0)) - b
    bad = np.flatnonzero(res != 0)
    if len(bad):
        return ("linear", f"A x != b in {len(bad)} of {len(b)} rows (first: row {int(bad[0])}, residual {res[bad[0]]}); "
                f"{len(ones)} ones of {n}", {"ones": ones[:60], "rows": [int(k) for k in bad[:20]]})
    xrx, _ = _quad_exact(R, idx)
    if xrx != 0:
        return ("quadratic", f"x'Rx = {xrx} != 0", {"ones": ones[:60]})
    if n == 0:
        return None
    # QUBO values
    try:
        Qf, kf = rp.get_qubo(feasibility=True)
    except Exception as e:  # noqa
        return ("qubo-raises", f"get_qubo(feasibility=True) raised {type(e).__name__}: {e}", {"ones": ones[:60]})
    vf, _ = _quad_exact(Qf, idx)
    vf += _fr(kf)
    if vf != 0:
        return ("feas-value", f"feasibility-mode QUBO value is {vf}, not 0", {"ones": ones[:60]})
    if opt:
        try:
            Qo, ko = rp.get_qubo(feasibility=False)
            c, Qobj = rp.get_objective_data()
        except Exception as e:  # noqa
            return ("qubo-raises", f"get_qubo(feasibility=False) raised {type(e).__name__}: {e}", {"ones": ones[:60]})
        vo, int1 = _quad_exact(Qo, idx)
        vo += _fr(ko)
        c = np.asarray(c)
        obj, int2 = _quad_exact(Qobj, idx)
        cs = [Fraction(float(v)) for v in c[idx].tolist()]
        obj += sum(cs, Fraction(0))
        integral = int1 and int2 and _fr(ko).denominator == 1 and all(v.denominator == 1 for v in cs)
        if not integral:
            return ("inexact", "non-integral data: optimisation-mode value not compared", {})
        if vo != obj:
            return ("opt-value", f"optimisation-mode QUBO value {vo} != objective {obj}", {"ones": ones[:60]})
    return None


# ----------------------------------------------------------------------------------------------------------
# the hypotheses under which path / sequence must not raise
# ----------------------------------------------------------------------------------------------------------
def path_hyp(rp):
    """Sufficient conditions (see notes/C09.md): depot present with demand 0 and window end inf, initial load in
    [0, cap], every customer: |demand| <= cap and window end >= 0."""
    if not rp.nodes or rp.vehicle_cap is None or rp.initial_loading is None:
        return False
    cap, init = rp.vehicle_cap, rp.initial_loading
    d = rp.nodes[0]
    if d.get_demand() != 0 or d.get_window()[1] != INF or not 0 <= init <= cap:
        return False
    return all(abs(nd.get_demand()) <= cap and nd.get_window()[1] >= 0 for nd in rp.nodes[1:])


def seq_hyp(rp):
    """L >= 3, depot present with window (a0, inf), every customer's window end >= a0."""
    if not rp.nodes or rp.max_sequence_length < 3:
        return False
    a0, b0 = rp.nodes[0].get_window()
    if b0 != INF:
        return False
    return all(nd.get_window()[1] >= a0 for nd in rp.nodes[1:])


HYP = {"path": path_hyp, "seq": seq_hyp, "arc": lambda rp: False}


def snapshot(rp):
    g = rp.vrptw
    d = {"nodes": len(g.nodes), "arcs": len(g.arcs)}
    if hasattr(rp, "max_vehicles"):
        d["V"] = rp.max_vehicles
    if hasattr(rp, "routes"):
        d["routes"] = len(rp.routes)
    return d


def run_heuristic(rp, kind, highs, np_seed, opt=True):
    """Invoke make_feasible once per entry of `highs` on the same object.  Returns (failure or None, trace);
    failure = (clause, message, extra); trace = list of per-invocation outcome strings."""
    trace = []
    for k, high in enumerate(highs):
        inside = HYP[kind](rp)
        np.random.seed(np_seed + k)
        before = snapshot(rp)
        try:
            rp.make_feasible(high)
        except Exception as e:  # noqa: the heuristic may fail loudly
            cls = type(e).__name__
            trace.append("raised:" + cls)
            if inside:
                clause = "raises" if k == 0 else "raises-again"
                return (clause, f"{kind}: make_feasible({high}) raised {cls}: {e} although the hypotheses hold "
                        f"(invocation {k + 1})", {"invocation": k + 1, "exception": f"{cls}: {e}"}), trace
            return None, trace           # loud failure outside the hypotheses: allowed; later invocations undefined
        after = snapshot(rp)
        grew = any(after[key] != before[key] for key in after if key != "routes")
        trace.append("ok+repair" if grew else "ok")
        f = post_check(rp, opt)
        if f is not None and f[0] == "inexact":
            trace[-1] += "(opt skipped)"
            f = None
        if f is not None:
            return (f[0], f"{kind}: after make_feasible({high}) (invocation {k + 1}): {f[1]}",
                    dict(f[2], invocation=k + 1)), trace
    return None, trace


# ----------------------------------------------------------------------------------------------------------
# reporting
# ----------------------------------------------------------------------------------------------------------
# Signatures of the two defects this check found (both repaired in /repo: dd659d9, 7087536; known_findings.json
# lists them as fixed, which suppresses nothing):
#   oracle/seq/quadratic      sequence heuristic ignored a refused exit arc and returned a vector with x'Rx = 1
#   oracle/path/raises-again  second invocation of the path heuristic re-used a dummy node name and raised ValueError
def signature(kind, clause, rp=None):
    return f"oracle/{kind}/{clause}"


def report(ctx, sig, msg, replay_dict):
    if replay_dict is not None:
        ctx.violation(sig, msg, replay_dict, True)


# ----------------------------------------------------------------------------------------------------------
# (i) small instances
# ----------------------------------------------------------------------------------------------------------
def build(kind, desc):
    d = dict(desc)
    d["make_feasible"] = None
    return fh.BUILDERS[kind](d, mf=False)


def instance_oracle(kind, desc, highs, want_rp=False):
    rp = build(kind, desc)
    if desc.get("query_first"):
        # the model is inspected BEFORE the heuristic runs (sizes, constraints, objective): the postcondition and the
        # totality claims do not depend on that
        for q in (rp.get_num_variables, rp.get_constraint_data, rp.get_objective_data):
            try:
                q()
            except Exception:  # noqa: a degenerate model may refuse a query; the heuristic is judged on its own
                pass
    out = run_heuristic(rp, kind, highs, desc["np_seed"])
    return (out[0], out[1], rp) if want_rp else out


def base_desc(rng, nodes, arcs, **kw):
    d = {"nodes": nodes, "depot_first": True, "arcs": arcs, "time_points": [0], "V": 1, "L": 4, "strict": False,
         "routes": [], "vehicle_cap": 5, "initial_loading": 5, "make_feasible": None, "mf_mode": "fresh",
         "np_seed": rng.randint(0, 2 ** 31 - 1), "cost_scale": 1}
    d.update(kw)
    return d


def targeted(rng):
    """One description from the targeted families, with the kinds it is meant for."""
    fam = rng.choice(["load", "load", "chain", "chain", "grid", "shift", "pool"])
    if fam == "load":
        # path: customers that no pool route serves, pick-ups and deliveries around the capacity boundaries
        cap = rng.choice([1, 3, 5, 10])
        init = rng.choice([0, cap, rng.randint(0, cap), rng.randint(0, cap)])
        ncust = rng.randint(1, 3)
        nodes = [("D", 0, 0, INF)]
        for k in range(1, ncust + 1):
            dem = rng.choice([-cap, cap, -rng.randint(0, cap), rng.randint(0, cap), init - cap - 1 if init >= 1 else -cap,
                              init + 1 if init < cap else cap])
            dem = max(-cap, min(cap, dem))
            lo = rng.randint(0, 3)
            nodes.append((f"c{k}", dem, lo, rng.choice([lo, lo + 2, INF])))
        names = [x[0] for x in nodes]
        arcs = []
        for c in names[1:]:
            r = rng.random()
            if r < 0.35:
                arcs.append((c, "D", rng.randint(0, 2), rng.randint(0, 5)))       # exit arc only
            elif r < 0.55:
                arcs.append(("D", c, rng.randint(0, 2), rng.randint(0, 5)))       # entry arc only
            elif r < 0.7:
                arcs += [("D", c, rng.randint(0, 2), rng.randint(0, 5)), (c, "D", rng.randint(0, 2), rng.randint(0, 5))]
        if ncust >= 2 and rng.random() < 0.5:
            arcs.append((names[1], names[2], rng.randint(0, 2), rng.randint(0, 5)))
        if ncust >= 2 and rng.random() < 0.3:
            arcs.append((names[2], names[1], rng.randint(0, 2), rng.randint(0, 5)))
        if rng.random() < 0.2:
            arcs.append(("D", "D", 0, rng.randint(0, 3)))
        rng.shuffle(arcs)
        routes = [["D", c, "D"] for c in names[1:] if rng.random() < 0.3]
        return ["path", "seq", "arc"], base_desc(rng, nodes, arcs, vehicle_cap=cap, initial_loading=init, routes=routes,
                                               V=rng.choice([0, 1, 2]), L=rng.choice([3, 4]),
                                               time_points=rng.sample(range(0, 6), rng.randint(1, 4)))
    if fam == "chain":
        # sequence: a chain that fills every free position, last node with or without exit arc; extra customers need dummies
        L = rng.choice([3, 4, 5])
        extra = rng.choice([0, 0, 1, 2])
        ncust = (L - 2) + extra
        a0 = rng.choice([0, 0, 0, 1, 2])
        nodes = [("D", 0, a0, INF)]
        for k in range(1, ncust + 1):
            lo = rng.randint(0, 4)
            nodes.append((f"c{k}", rng.randint(-2, 2), lo, max(a0, lo) + rng.randint(0, 4)))
        names = [x[0] for x in nodes]
        chain = names[1:L - 1]
        arcs = [("D", chain[0], rng.randint(0, 2), rng.randint(0, 5))]
        for a, b2 in zip(chain, chain[1:]):
            arcs.append((a, b2, rng.randint(0, 1), rng.randint(0, 5)))
        if rng.random() < 0.4:
            arcs.append((chain[-1], "D", rng.randint(0, 2), rng.randint(0, 5)))
        for c in names[L - 1:]:
            r = rng.random()
            if r < 0.3:
                arcs.append((c, "D", 0, 1))
            elif r < 0.5:
                arcs.append(("D", c, 0, 1))
            elif r < 0.6:
                arcs.append((chain[-1], c, 0, 1))
        if rng.random() < 0.5:
            rng.shuffle(arcs)
        return ["seq", "path", "arc"], base_desc(rng, nodes, arcs, V=rng.choice([0, 1, 1, 2]), L=L, strict=rng.random() < 0.5,
                                               vehicle_cap=10, initial_loading=rng.choice([0, 5, 10]),
                                               time_points=rng.sample(range(0, 9), rng.randint(1, 4)))
    if fam == "grid":
        # arc: grids that miss a window, grid points equal to window ends, customers without exit arc
        ncust = rng.randint(1, 3)
        nodes = [("D", 0, rng.choice([0, 0, 1]), rng.choice([INF, INF, 6]))]
        for k in range(1, ncust + 1):
            lo = rng.randint(0, 5)
            nodes.append((f"c{k}", 1, lo, lo + rng.randint(0, 3)))
        names = [x[0] for x in nodes]
        arcs = []
        for c in names[1:]:
            if rng.random() < 0.7:
                arcs.append(("D", c, rng.randint(0, 3), rng.randint(0, 5)))
            if rng.random() < 0.7:
                arcs.append((c, "D", rng.randint(0, 3), rng.randint(0, 5)))
        for a in names[1:]:
            for b2 in names[1:]:
                if a != b2 and rng.random() < 0.4:
                    arcs.append((a, b2, rng.randint(0, 2), rng.randint(0, 5)))
        rng.shuffle(arcs)
        v = rng.choice(nodes[1:])
        r = rng.random()
        if r < 0.4:
            pts = [t for t in range(0, 9) if not v[2] <= t <= v[3]]
            pts = rng.sample(pts, min(len(pts), rng.randint(1, 4)))
        elif r < 0.7:
            pts = sorted({x[2] for x in nodes} | {x[3] for x in nodes if x[3] != INF})
        else:
            pts = rng.sample(range(0, 9), rng.randint(1, 5))
        return ["arc", "seq"], base_desc(rng, nodes, arcs, time_points=pts or [0], V=rng.choice([0, 1, 2]), L=rng.choice([3, 4, 5]),
                                        strict=rng.random() < 0.5)
    if fam == "shift":
        # sequence / path boundaries of the hypotheses: depot window start a0 > 0, customer window end == a0 (inside) or < a0 (outside)
        a0 = rng.randint(1, 4)
        ncust = rng.randint(1, 2)
        nodes = [("D", 0, a0, INF)]
        for k in range(1, ncust + 1):
            hi = rng.choice([a0, a0, a0 + 2, a0 - 1])
            nodes.append((f"c{k}", rng.randint(0, 2), rng.randint(0, max(0, hi)), hi))
        names = [x[0] for x in nodes]
        arcs = [(c, "D", 0, 1) for c in names[1:] if rng.random() < 0.5]
        return ["seq", "path"], base_desc(rng, nodes, arcs, V=rng.choice([0, 1]), L=rng.choice([3, 4]), strict=rng.random() < 0.5)
    # pool: path with a rich pool whose greedy choice leaves customers behind
    ncust = rng.randint(2, 4)
    nodes = [("D", 0, 0, INF)] + [(f"c{k}", rng.randint(-2, 3), rng.randint(0, 3), rng.choice([4, 6, INF])) for k in range(1, ncust + 1)]
    names = [x[0] for x in nodes]
    arcs = []
    for a in names:
        for b2 in names:
            if a != b2 and rng.random() < 0.55:
                arcs.append((a, b2, rng.randint(0, 3), rng.choice([0, 1, 1, 2, 5])))
    rng.shuffle(arcs)
    routes = []
    for _ in range(rng.randint(0, 5)):
        routes.append(["D"] + rng.sample(names[1:], rng.randint(1, ncust)) + ["D"])
    cap = rng.choice([3, 5])
    return ["path", "seq", "arc"], base_desc(rng, nodes, arcs, routes=routes, vehicle_cap=cap, initial_loading=rng.randint(0, cap),
                                           V=rng.choice([0, 1, 2]), L=rng.choice([3, 4, 5]), time_points=rng.sample(range(0, 7), 3))


def json_desc(kind, desc, highs):
    d = fh.describe({"kind": kind, "desc": desc, "rp": None})
    d["highs"] = list(highs)
    d["python"] = "props.c09.instance_oracle(kind, desc, highs)"
    return d


def half_times(desc):
    """The same instance on a half-step clock: every window bound, travel time and grid point divided by two (exact in
    floats).  The combinatorics are unchanged, but times are no longer integers."""
    d = dict(desc)
    d["nodes"] = [(nm, dem, lo / 2, hi if hi == INF else hi / 2) for (nm, dem, lo, hi) in desc["nodes"]]
    d["arcs"] = [(o, dd, t / 2, c) for (o, dd, t, c) in desc["arcs"]]
    d["time_points"] = [t / 2 for t in desc["time_points"]]
    d["half_step_clock"] = True
    return d


def _instance_job(job):
    kind, desc, highs = job
    import logging
    logging.disable(logging.CRITICAL)
    fail, trace = instance_oracle(kind, desc, highs)
    return fail, trace


def sweep_instances(ctx, dist, reported):
    rng = ctx.rng
    n_random = 200 if ctx.quick else 5000
    n_target = 240 if ctx.quick else 6000
    seen = set()
    work = []
    for _ in range(n_random):
        work.append((list(fh.KINDS), fh.random_instance(rng), "random"))
    for _ in range(n_target):
        kinds, desc = targeted(rng)
        work.append((kinds, desc, "targeted"))
    for kind, desc in fh.corner_cases():
        work.append(([kind], desc, "corner"))
    rot = 0
    jobs, fams = [], []
    for w, (kinds, desc, fam) in enumerate(work):
        if w % 3 == 1:
            desc = dict(desc, query_first=True)
        if w % 4 == 2:
            desc = half_times(desc)
        for kind in kinds:
            # every high cost is used as first value in rotation; one instance in five runs all four
            firsts = HIGHS if w % 5 == 0 else [HIGHS[rot % 4]]
            rot += 1
            for high in firsts:
                jobs.append((kind, desc, (high, rng.choice(HIGHS))))
                fams.append(fam)
    results = pmap(_instance_job, jobs)
    for (kind, desc, highs), fam, (fail, trace) in zip(jobs, fams, results):
        ctx.count(evaluations=len(trace), traces=1)
        for k, t in enumerate(trace):
            dist[f"{kind}/call{k + 1}/{t}"] += 1
        dist[f"high={highs[0]}"] += 1
        key = repr((kind, desc["nodes"], desc["arcs"], desc["routes"], desc["time_points"], desc["V"], desc["L"],
                    desc["strict"], desc["vehicle_cap"], desc["initial_loading"]))
        if trace and trace[0].startswith("ok+repair") and key not in seen:
            seen.add(key)
            ctx.count(nontrivial=1)
            ctx.sample({"family": fam, "kind": kind, "highs": list(highs), "trace": trace,
                        "instance": fh.describe({"kind": kind, "desc": desc, "rp": None})["instance"]}, limit=4)
        if fail is None:
            continue
        sig = signature(kind, fail[0])
        if sig in reported:
            continue
        reported.add(sig)

        def fails(c, kind=kind, highs=highs, sig=sig):
            f, _ = instance_oracle(kind, c, highs)
            return f is not None and signature(kind, f[0]) == sig
        small = fh.shrink_desc(desc, fails)
        f2, tr2 = instance_oracle(kind, small, highs)
        f2 = f2 or fail
        report(ctx, sig, f2[1], dict(json_desc(kind, small, highs), trace=tr2, **f2[2]))


# ----------------------------------------------------------------------------------------------------------
# (ii), (iii) MIRP instances through the wrappers of applications/mirp.py
# ----------------------------------------------------------------------------------------------------------
def integerise(m):
    """Make every cost of a MIRP instance an integer (so that the optimisation-mode QUBO value can be compared
    exactly): arc costs rounded, estimate_high_cost rounded up.  Windows and travel times are untouched."""
    for a in m.vrptw.arcs.values():
        a.cost = int(round(a.cost))
    orig = m.estimate_high_cost
    m.estimate_high_cost = lambda: int(math.ceil(orig()))
    return m


FORMS = (("arc", None), ("path", None), ("seq", True), ("seq", False))


def mirp_oracle(make, integer):
    """Run the four wrappers on fresh MIRP objects.  Yields (kind, strict, outcome, failure)."""
    for kind, strict in FORMS:
        m = make()
        if integer:
            integerise(m)
        np.random.seed(0)
        try:
            if kind == "arc":
                rp = m.get_arc_based()
            elif kind == "path":
                rp = m.get_path_based()
            else:
                rp = m.get_sequence_based(strict=strict)
        except Exception as e:  # noqa
            cls = type(e).__name__
            wrapper = kind == "seq" and isinstance(e, ValueError) and "min()" in str(e)
            inside = False
            if kind == "path":
                inside = True            # MIRP graphs: initial load 0, demands = +-cargo size, depot (0, inf)
            if kind == "seq" and not wrapper:
                inside = True
            yield kind, strict, ("raised:" + cls + ("(wrapper: no positive travel time)" if wrapper else "")), \
                (("raises", f"{kind}: the MIRP wrapper's make_feasible raised {cls}: {e}", {"exception": f"{cls}: {e}"}) if inside else None)
            continue
        f = post_check(rp, opt=integer)
        if f is not None and f[0] == "inexact":
            f = ("inexact-integerised", "integerised MIRP instance still has non-integral data: " + f[1], {})
        yield kind, strict, "ok", (None if f is None else (f[0], f"{kind}{'' if strict is None else ('/strict' if strict else '/non-strict')}: {f[1]}", f[2]))


def g1_maker(h):
    from vrpqubo.examples.mirp_g1 import get_mirp
    return lambda: get_mirp(h)


def random_maker(ns, nd, horizon, seed):
    from vrpqubo.examples.mirp_random import get_generator

    def make():
        gen = dataclasses.replace(get_generator(ns, nd, horizon), seed=seed)
        return gen.get_random_mirp(reset_seed=True)
    return make


def _mirp_job(job):
    src, params, integer = job
    import logging
    logging.disable(logging.CRITICAL)
    make = g1_maker(params["horizon"]) if src == "g1" else random_maker(params["ns"], params["nd"], params["horizon"], params["seed"])
    return list(mirp_oracle(make, integer))


def sweep_mirp(ctx, dist, reported):
    if ctx.quick:
        horizons = [14.5 + 1.5 * k for k in range(18)]             # 14.5 .. 40
        seeds = range(20)
    else:
        horizons = [10 + 0.25 * k for k in range(201)]             # 10 .. 60
        seeds = range(300)
    shapes = [(1, 1, 40), (2, 2, 50), (1, 2, 30), (2, 3, 60), (2, 1, 45)]
    jobs = []
    for h in horizons:
        for integer in (False, True):
            jobs.append(("g1", {"horizon": h}, integer))
    for s_ in seeds:
        ns, nd, hz = shapes[s_ % len(shapes)]
        for integer in (False, True):
            jobs.append(("random_mirp", {"ns": ns, "nd": nd, "horizon": hz, "seed": s_}, integer))
    results = pmap(_mirp_job, jobs)
    for (src, params, integer), res in zip(jobs, results):
        for kind, strict, outcome, fail in res:
            ctx.count(evaluations=1, traces=1)
            dist[f"{src}/{kind}{'' if strict is None else ('/strict' if strict else '/non-strict')}/{outcome}"] += 1
            if outcome == "ok" and integer:
                ctx.count(nontrivial=1)
            if fail is None:
                continue
            sig = f"oracle/{kind}/{fail[0]}"
            if sig in reported:
                continue
            reported.add(sig)
            ctx.violation(sig, f"{src} {params}: {fail[1]}",
                          dict({"source": src, "params": params, "kind": kind, "strict": strict, "integer_costs": integer,
                                "python": "props.c09.mirp_oracle(maker, integer)"}, **fail[2]), True)


# ----------------------------------------------------------------------------------------------------------
# correspondence: the same instances through the Gallina models (coq/theories/Heur.v), compared inside Coq
# ----------------------------------------------------------------------------------------------------------
HEADER = ("From Coq Require Import ZArith List.\nFrom VQ Require Import Base Vrptw Path Seq Heur.\nImport ListNotations.\n"
          "Open Scope Z_scope.")


def name_code(desc, nm):
    """Node names as the model's nats: the instance's own names by position, dummy names 100 + 16 u + k."""
    own = [x[0] for x in desc["nodes"]]
    if nm in own:
        return own.index(nm)
    parts = nm.split("_")
    assert parts[:2] == ["mf", "Dum"] and len(parts) in (3, 4), nm
    u = int(parts[2])
    k = int(parts[3]) if len(parts) == 4 else 0
    assert k < 16 and u < 12, nm
    return 100 + 16 * u + k


def gops_lit(desc):
    nodes = desc["nodes"]
    order = nodes if desc["depot_first"] else nodes[1:] + nodes[:1]
    ops = [f"OpAddNode {lit.nat(name_code(desc, nm))} {lit.z(dem)} {lit.z(lo)} {lit.ext(hi)}" for nm, dem, lo, hi in order]
    ops.append(f"OpSetDepot {lit.nat(0)}")
    for o, d, tt, cost in desc["arcs"]:
        ops.append(f"OpAddArc {lit.nat(name_code(desc, o))} {lit.nat(name_code(desc, d))} {lit.z(tt)} {lit.z(cost)}")
    return lit.lst(ops)


def graph_obs_lit(desc, rp):
    g = rp.vrptw
    names = lit.lst([lit.nat(name_code(desc, nm)) for nm in g.node_names])
    nodes = lit.lst([lit.tup(lit.nat(name_code(desc, nd.name)), lit.z(lit.exact_int(nd.demand)), lit.z(lit.exact_int(nd.time_window[0])),
                             lit.ext(nd.time_window[1] if nd.time_window[1] == INF else lit.exact_int(nd.time_window[1])))
                     for nd in g.nodes])
    arcs = lit.lst([lit.pair(lit.pair(lit.nat(i), lit.nat(j)),
                             lit.tup(lit.nat(name_code(desc, a.origin.name)), lit.nat(name_code(desc, a.destination.name)),
                                     lit.z(lit.exact_int(a.travel_time)), lit.z(lit.exact_int(a.cost))))
                    for (i, j), a in g.arcs.items()])
    return names, nodes, arcs


class patched_choice:
    """np.random.choice replaced by a deterministic draw: 0 the first key, 1 the last key, 2 the mode of the
    distribution it is given (the first key of maximal probability = the first key of minimal value)."""
    def __init__(self, code):
        self.code = code

    def __enter__(self):
        self.orig = np.random.choice
        np.random.choice = [lambda keys, p=None: keys[0], lambda keys, p=None: keys[-1],
                            lambda keys, p=None: keys[int(np.argmax(p))]][self.code]

    def __exit__(self, *a):
        np.random.choice = self.orig


def path_case(desc, first, highs):
    """Run the real path heuristic with the deterministic draw; returns (Gallina case literal, outcome strings)."""
    rp = build("path", desc)
    hyp = path_hyp(rp)
    obs, outs = [], []
    with patched_choice(first):
        for high in highs:
            try:
                rp.make_feasible(high)
            except Exception as e:  # noqa
                obs.append(lit.err(exc_cls(e)))
                outs.append("raised:" + type(e).__name__)
                break
            names, nodes, arcs = graph_obs_lit(desc, rp)
            x = lit.lst([lit.z(lit.exact_int(v)) for v in np.asarray(rp.feasible_solution).tolist()])
            routes = lit.lst([lit.lst([lit.nat(int(k)) for k in r]) for r in rp.routes])
            costs = lit.lst([lit.z(lit.exact_int(c)) for c in rp.route_costs])
            obs.append(lit.ok(lit.tup(x, names, nodes, arcs, routes, costs)))
            outs.append("ok")
    rs = lit.lst([lit.lst([f"inl {lit.nat(name_code(desc, nm))}" for nm in r]) for r in desc["routes"]])
    term = lit.tup(gops_lit(desc), lit.z(desc["vehicle_cap"]), lit.z(desc["initial_loading"]), rs, lit.nat(first),
                   lit.lst([lit.z(h) for h in highs]), lit.boolean(hyp), lit.lst(obs))
    outs.append("inside the hypotheses" if hyp else "outside the hypotheses")
    return term, outs


def correspondence_path(ctx, dist, descs):
    rng = ctx.rng
    terms, meta = [], []
    for desc in descs:
        first = rng.choice([0, 1, 2, 2])
        highs = [rng.choice(HIGHS), rng.choice(HIGHS)]
        try:
            term, outs = path_case(desc, first, highs)
        except AssertionError:
            dist["corr/path/skipped (name outside the coding)"] += 1
            continue
        terms.append(term)
        meta.append((desc, first, highs, outs))
        for k, o in enumerate(outs[:-1]):
            dist[f"corr/path/call{k + 1}/{o}"] += 1
        dist[f"corr/path/{outs[-1]}"] += 1
    mism, err = ctx.coq_mismatches("path", HEADER, "pcase9", "check_pcase9", terms, shard=40)
    ctx.count(evaluations=sum(len(m[3]) for m in meta), traces=len(terms))
    if ctx.has_concrete():
        mism = []
    for idx, tags in mism[:2]:
        desc, first, highs, outs = meta[idx]
        fail, trace = instance_oracle("path", desc, tuple(highs))
        if fail is not None:
            report(ctx, signature("path", fail[0]), fail[1], dict(json_desc("path", desc, highs), trace=trace, **fail[2]))
            continue
        model = ctx.coq_eval(HEADER, "match " + terms[idx] + " with (ops, cap, init, rs, fst_, highs, _, _) => map observe9 (mf_path_iter "
                             "(oracle_of fst_) harness_dum (pstate_of ops cap init rs) highs) end")
        ctx.violation("correspondence/path/invocation" + "+".join(str(t) for t in tags),
                      f"model mf_path and PathBasedRoutingProblem.make_feasible disagree (tags {tags}: k = observation after invocation k, "
                      "9 = number of invocations, 8 = the harness and the model disagree on whether the hypotheses of C09_total_path hold); the property oracle found no failing input on this instance",
                      dict(json_desc("path", desc, highs), correspondence="Heur.check_pcase9", draw=["first key", "last key", "first key of minimal value"][first],
                           implementation_outcomes=outs, model=model[-3000:]), False)


def seq_case(desc, highs):
    """Run the real sequence heuristic; returns (Gallina case literal, outcome strings)."""
    rp = build("seq", desc)
    hyp = seq_hyp(rp) and (0, 0) in rp.arcs
    obs, outs = [], []
    for high in highs:
        try:
            rp.make_feasible(high)
        except Exception as e:  # noqa
            obs.append(lit.err(exc_cls(e)))
            outs.append("raised:" + type(e).__name__)
            break
        x = lit.lst([lit.z(lit.exact_int(v)) for v in np.asarray(rp.feasible_solution).tolist()])
        arcs = lit.lst([lit.pair(lit.pair(lit.nat(i), lit.nat(j)), lit.pair(lit.z(lit.exact_int(a.travel_time)), lit.z(lit.exact_int(a.cost))))
                        for (i, j), a in rp.arcs.items()])
        vc = lit.lst([lit.z(lit.exact_int(c)) for c in rp.vehicle_cost])
        obs.append(lit.ok(lit.tup(x, arcs, lit.nat(rp.max_vehicles), vc)))
        outs.append("ok")
    term = lit.tup(lit.boolean(desc["strict"]), gops_lit(desc), lit.nat(desc["V"]), lit.nat(desc["L"]),
                   lit.lst([lit.z(h) for h in highs]), lit.boolean(hyp), lit.lst(obs))
    outs.append("inside the hypotheses" if hyp else "outside the hypotheses")
    return term, outs


def correspondence_seq(ctx, dist, descs):
    rng = ctx.rng
    terms, meta = [], []
    for desc in descs:
        highs = [rng.choice(HIGHS), rng.choice(HIGHS)]
        term, outs = seq_case(desc, highs)
        terms.append(term)
        meta.append((desc, highs, outs))
        for k, o in enumerate(outs[:-1]):
            dist[f"corr/seq/call{k + 1}/{o}"] += 1
        dist[f"corr/seq/{outs[-1]}"] += 1
    mism, err = ctx.coq_mismatches("seq", HEADER, "scase9", "check_scase9", terms, shard=40)
    ctx.count(evaluations=sum(len(m[2]) for m in meta), traces=len(terms))
    if ctx.has_concrete():
        mism = []
    for idx, tags in mism[:2]:
        desc, highs, outs = meta[idx]
        fail, trace = instance_oracle("seq", desc, tuple(highs))
        if fail is not None:
            report(ctx, signature("seq", fail[0]), fail[1], dict(json_desc("seq", desc, highs), trace=trace, **fail[2]))
            continue
        model = ctx.coq_eval(HEADER, "match " + terms[idx] + " with (st, ops, V, L, highs, _, _) => match sinst_of st ops V L with "
                             "Ok J => map observe_s9 (mf_seq_iter st J highs) | Err e => [Err e] end end")
        ctx.violation("correspondence/seq/invocation" + "+".join(str(t) for t in tags),
                      f"model mf_seq and SequenceBasedRoutingProblem.make_feasible disagree (tags {tags}: k = observation after "
                      "invocation k, 9 = number of invocations, 8 = harness and model disagree on the hypotheses of C09_total_seq); the property "
                      "oracle found no failing input on this instance",
                      dict(json_desc("seq", desc, highs), correspondence="Heur.check_scase9",
                           implementation_outcomes=outs, model=model[-3000:]), False)


HEADER_ARC = ("From Coq Require Import ZArith List.\nFrom VQ Require Import Base Vrptw Arc Heur_arc.\nImport ListNotations.\n"
              "Open Scope Z_scope.")


def arc_case(desc, highs):
    """Run the real arc heuristic; returns (Gallina case literal, outcome strings)."""
    rp = build("arc", desc)
    obs, outs = [], []
    for high in highs:
        try:
            rp.make_feasible(high)
        except Exception as e:  # noqa
            obs.append(lit.err(exc_cls(e)))
            outs.append("raised:" + type(e).__name__)
            break
        x = lit.lst([lit.z(lit.exact_int(v)) for v in np.asarray(rp.feasible_solution).tolist()])
        arcs = lit.lst([lit.pair(lit.pair(lit.nat(i), lit.nat(j)), lit.pair(lit.z(lit.exact_int(a.travel_time)), lit.z(lit.exact_int(a.cost))))
                        for (i, j), a in rp.arcs.items()])
        obs.append(lit.ok(lit.pair(x, arcs)))
        outs.append("ok")
    term = lit.tup(gops_lit(desc), lit.lst([lit.z(t) for t in desc["time_points"]]), lit.lst([lit.z(h) for h in highs]), lit.lst(obs))
    return term, outs


def arc_friendly(rng):
    """Instances on which the arc heuristic mostly succeeds: wide windows, a dense grid, most customers with
    entry and exit arcs (the others get dummy routes), depot window open."""
    ncust = rng.randint(1, 4)
    nodes = [("D", 0, 0, INF)]
    for k in range(1, ncust + 1):
        lo = rng.randint(0, 3)
        nodes.append((f"c{k}", 1, lo, lo + rng.randint(2, 5)))
    names = [x[0] for x in nodes]
    arcs = []
    for c in names[1:]:
        r = rng.random()
        if r < 0.7:
            arcs.append(("D", c, rng.randint(0, 2), rng.randint(0, 5)))
        arcs.append((c, "D", rng.randint(0, 2), rng.randint(0, 5)))
    for a in names[1:]:
        for b2 in names[1:]:
            if a != b2 and rng.random() < 0.4:
                arcs.append((a, b2, rng.randint(0, 2), rng.randint(0, 5)))
    rng.shuffle(arcs)
    pts = list(range(0, 10)) if rng.random() < 0.6 else rng.sample(range(0, 10), rng.randint(4, 8)) + [0]
    pts = list(dict.fromkeys(pts))
    rng.shuffle(pts)
    return base_desc(rng, nodes, arcs, time_points=pts, V=rng.choice([0, 1, 2]), L=rng.choice([3, 4, 5]))


def correspondence_arc(ctx, dist, descs):
    rng = ctx.rng
    terms, meta = [], []
    descs = list(descs) + [arc_friendly(rng) for _ in range(max(20, len(descs) // 2))]
    for desc in descs:
        highs = [rng.choice(HIGHS), rng.choice(HIGHS)]
        term, outs = arc_case(desc, highs)
        terms.append(term)
        meta.append((desc, highs, outs))
        for k, o in enumerate(outs):
            dist[f"corr/arc/call{k + 1}/{o}"] += 1
    mism, err = ctx.coq_mismatches("arc", HEADER_ARC, "acase9", "check_acase9", terms, shard=40)
    ctx.count(evaluations=sum(len(m[2]) for m in meta), traces=len(terms))
    if ctx.has_concrete():
        mism = []
    for idx, tags in mism[:2]:
        desc, highs, outs = meta[idx]
        fail, trace = instance_oracle("arc", desc, tuple(highs))
        if fail is not None:
            report(ctx, signature("arc", fail[0]), fail[1], dict(json_desc("arc", desc, highs), trace=trace, **fail[2]))
            continue
        model = ctx.coq_eval(HEADER_ARC, "match " + terms[idx] + " with (ops, grid, highs, _) => map observe_a9 (mf_arc_iter "
                             "(mkInst (run Base ops empty_graph) grid) highs) end")
        ctx.violation("correspondence/arc/invocation" + "+".join(str(t) for t in tags),
                      f"model mf_arc and ArcBasedRoutingProblem.make_feasible disagree (tags {tags}: k = observation after "
                      "invocation k, 9 = number of invocations); the property oracle found no failing input on this instance",
                      dict(json_desc("arc", desc, highs), correspondence="Heur_arc.check_acase9",
                           implementation_outcomes=outs, model=model[-3000:]), False)


# ----------------------------------------------------------------------------------------------------------
def run(ctx):
    ctx.prove(props=["C09", "C09_arc", "C09_wrappers"])
    # make_feasible of the sequence / arc formulation regenerated from the source and proved equal to Heur.v / Heur_arc.v
    import translate_heursa as T
    ctx.gen_step("heursa", T.translate, "C09_gen",
                 "harness/translate_heursa.py + translate_enumcore.py (ast -> Gallina printer in the exception monad for "
                 "SequenceBasedRoutingProblem.make_feasible / reset_build_flags; combinators: coq/theories/PyHeur.v, PyHeurSeq.v; "
                 "callees: the seqenum / vrptw models regenerated as Hs*Gen.v with their equality proofs re-checked)")
    ctx.gen_step("heursa_arc", T.translate_arc, "C09_arc_gen",
                 "harness/translate_heursa.py + translate_enumcore.py (the same printer for ArcBasedRoutingProblem.make_feasible / "
                 "check_and_add_exit_arc, `while` with fuel; combinators: coq/theories/PyHeur.v, PyHeurArc.v; callees: the arcenum / "
                 "vrptw models regenerated as Ha*Gen.v with their equality proofs re-checked)")
    # make_feasible of the path formulation (generate_route, add_routes_better, get_sampled_key, get_routes) regenerated
    # from the source and proved equal to Heur.v (path part)
    import translate_heurpath as THP
    ctx.gen_step("heurpath", THP.translate, "C09_path_gen",
                 "harness/translate_heurpath.py (ast -> Gallina printer for the path heuristic: generate_route, add_routes_better, "
                 "make_feasible, get_sampled_key, get_route_names, get_routes; state-passing loops with break / continue / try, "
                 "np.random.choice and f-strings as oracles; meaning of the emitted combinators: coq/theories/PyHeurPath.v) + "
                 "harness/translate_path.py (check_arc, add_route: coq/gen/PathGen.v)")
    from props import pysem; pysem.run(ctx, pysem.GROUPS_FOR.get(ctx.pid, ()))
    dist = collections.Counter()
    reported = set()
    sweep_instances(ctx, dist, reported)
    sweep_mirp(ctx, dist, reported)
    rng = ctx.rng
    n_corr = 150 if ctx.quick else 3000
    descs = []
    for k in range(n_corr):
        descs.append(targeted(rng)[1] if k % 2 else fh.random_instance(rng))
    correspondence_path(ctx, dist, descs)
    correspondence_seq(ctx, dist, descs)
    correspondence_arc(ctx, dist, descs)
    ctx.cov["input_distribution"] = dict(sorted(dist.items()))
    # the MIRP wrappers (grid, vehicle count, sequence length, high cost): exact correspondence + oracle
    from props import c09_wrap
    c09_wrap.run_part(ctx)
    ctx.cov["rule"] = ("evaluations = make_feasible invocations on the real objects whose outcome was checked against the property's "
                       "predicate; non-trivial = distinct small instance on which the heuristic had to repair the problem (nodes / arcs / "
                       "vehicles added) or MIRP instance (integer costs) on which it returned normally")
    ctx.assumptions.append("numpy/scipy float arithmetic is exact on the integer data used (magnitudes below 2^53); on the raw G1 / "
                           "random MIRP data (non-dyadic costs) only the integer-valued clauses are compared, the optimisation-mode "
                           "value is compared on the same instances with costs rounded to integers")
    if ctx.tier == "thorough":
        ctx.coqchk("VQP.C09")
        ctx.coqchk("VQP.C09_arc")
        ctx.coqchk("VQP.C09_wrappers")


def replay(ctx, data):
    r = data["replay"]
    if r.get("source") == "g1":
        print(list(mirp_oracle(g1_maker(r["params"]["horizon"]), r["integer_costs"])))
    elif r.get("source") == "random_mirp":
        p = r["params"]
        print(list(mirp_oracle(random_maker(p["ns"], p["nd"], p["horizon"], p["seed"]), r["integer_costs"])))
    else:
        kind, desc = fh.undescribe(r)
        print(instance_oracle(kind, desc, tuple(r["highs"])))
