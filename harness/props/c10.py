"""C10 -- Exported problem files represent the in-memory problem.

Proof: coq/props/C10.v (records of the written file = non-zero coefficients, exactly once, rounded
half-even to hundredths; load_matrix on them gives back the rounded problem, hence equal energies;
exact on multiples of 1/100; J/h split; text level: printing/parsing of the lines).
Generated model: harness/translate_export.py prints the body of QUBOContainer.export of the tree under test as
coq/gen/ExportGen.v and load_tools.load_matrix as coq/gen/LoadGen.v on every run; coq/genprops/C10_gen.v proves the
text the generated export writes equal, byte for byte, to Export.export_bytes, the generated loader equal to
Export.load_text (values and exception classes), and the byte-level round trip for the two generated functions
(obligations of this property).
Tie (i): real QUBOContainer.export / load_ising_matrix / load_qubo_matrix / get_Ising_J_h on random
containers vs Export.v inside Coq (records, bytes of the lines, loader result, J/h split).
Oracle (i): the property's own predicate on the written file and the reloaded problem, Fractions.
Tie (ii), not proved (np.savez / np.load are library I/O): generate_test_set.gen into a scratch
directory: file names, reloaded _f.rudy energy of the stored feasible solution, convenience()."""
import contextlib
import io
import itertools
import os
import shutil
import tempfile
from decimal import Decimal
from fractions import Fraction as F

from vq import lit
from vq.core import exc_cls

HEADER = "From Coq Require Import QArith String.\nFrom VQ Require Import Base LinAlg Export.\nOpen Scope string_scope."
PATTERNS = ["upper-triangular", "symmetric", "general"]


# ---------------- exact helpers ----------------
def fr(x):
    return F(float(x))


def round2(q):
    """Hundredths of q, round-half-even on the exact value."""
    t = F(q) * 100
    fl = t.numerator // t.denominator
    r = t - fl
    if r < F(1, 2):
        return fl
    if r > F(1, 2):
        return fl + 1
    return fl if fl % 2 == 0 else fl + 1


def hundredths(x):
    """The integer z with float(x) == z/100 (the double nearest to z/100); ValueError otherwise."""
    z = int(round(float(x) * 100))
    if float(x) != z / 100:
        raise ValueError(f"{x!r} is not the double of a two-decimal number")
    return z


# ---------------- the implementation ----------------
def build(case):
    import numpy as np
    import scipy.sparse as sp
    from vrpqubo.tools.qubo_tools import QUBOContainer
    M, c, pat, kind = case
    n = len(M)
    dense = np.array([[float(v) for v in row] for row in M], dtype=float).reshape(n, n)
    if kind == "ndarray":
        inp = dense
    elif kind == "csr_zeros":
        # a sparse matrix assembled with explicitly stored 0.0 coefficients (every zero position is stored)
        rows = [i for i in range(n) for j in range(n)]
        cols = [j for i in range(n) for j in range(n)]
        inp = sp.csr_array((dense.ravel().copy(), (rows, cols)), shape=(n, n))
    else:
        inp = sp.csr_array(dense)
    return QUBOContainer(inp, float(c), pat)


def memory_of(qc, ising):
    """The in-memory problem export() works from, exact: (n, Mat, h, const)."""
    n = qc.n_vars
    if ising:
        Jd = qc.J.toarray()
        return (n, [[fr(Jd[i][j]) for j in range(n)] for i in range(n)], [fr(v) for v in qc.h], fr(qc.const_ising))
    Qd = qc.Q.toarray()
    return (n, [[fr(Qd[i][j]) for j in range(n)] for i in range(n)], [], fr(qc.const_qubo))


def parse_file(text):
    """Independent reader of the written bytes: (constant fields, records, body lines).
    records: (row, col, hundredths, text of the value field)."""
    lines = text.split("\n")
    if not lines[0].startswith("# Generated "):
        raise ValueError("first line is not the timestamp comment")
    consts, recs = [], []
    for ln in lines[1:]:
        if ln.startswith("#"):
            if "=" in ln:
                consts.append(ln.split("=", 1)[1])
            continue
        f = ln.split(" ")
        f = [x for x in f if x != ""]
        if len(f) != 3:
            raise ValueError(f"record line with {len(f)} fields: {ln!r}")
        try:
            v = Decimal(f[2]) * 100
            ok = v == v.to_integral_value() and len(f[2].split(".")[-1]) == 2 and "." in f[2]
        except ArithmeticError:
            raise ValueError(f"unreadable value: {ln!r}")
        if not ok:
            raise ValueError(f"value not printed with two decimals: {ln!r}")
        recs.append((int(f[0]), int(f[1]), int(v), f[2]))
    return consts, recs, lines[1:]


def observe(case, ising, tmpdir):
    """Run export + loader + get_Ising_J_h on the real code; everything exact."""
    from vrpqubo.tools.load_tools import load_ising_matrix, load_qubo_matrix
    from vrpqubo.tools.qubo_tools import get_Ising_J_h
    qc = build(case)
    mem = memory_of(qc, ising)
    path = os.path.join(tmpdir, "p.rudy" if ising else "p.qubo")
    both_before = (memory_of(qc, True), memory_of(qc, False))
    qc.export(path, as_ising=ising)
    with open(path, "rb") as fh:
        raw = fh.read()
    text = raw.decode("utf-8")
    out = {"mem": mem, "text": text, "jdiag_zero": True}
    out["container_changed"] = (memory_of(qc, True), memory_of(qc, False)) != both_before
    qc.export(path, as_ising=ising)
    with open(path, "rb") as fh:
        text2 = fh.read().decode("utf-8")
    out["second_export_differs"] = text2.split("\n")[1:] != text.split("\n")[1:]
    if ising:
        out["jdiag_zero"] = all(mem[1][i][i] == 0 for i in range(mem[0]))
    try:
        M, c = (load_ising_matrix if ising else load_qubo_matrix)(path)
        m0, m1 = M.shape
        d = M.toarray()
        out["load"] = ("ok", (m0, m1), [[hundredths(d[i][j]) for j in range(m1)] for i in range(m0)], hundredths(c))
        J, h = get_Ising_J_h(M)
        Jd = J.toarray()
        out["split"] = ([[hundredths(Jd[i][j]) for j in range(m1)] for i in range(m0)], [hundredths(v) for v in h])
    except Exception as e:  # noqa
        out["load"] = ("err", exc_cls(e), f"{type(e).__name__}: {e}")
        out["split"] = None
    os.remove(path)
    return out


# ---------------- direct oracle: the property's predicate on the implementation ----------------
def coefficient(mem, ising, i, j):
    n, Mat, h, c = mem
    if i == j:
        return h[i] if ising else Mat[i][i]
    return Mat[i][j]


def energy(ising, n, Mat, d, c, v):
    """Exact energy: Ising  s'Js + h's + c  (d = h)  or QUBO  x'Qx + c  (d unused)."""
    e = c
    for i in range(n):
        for j in range(n):
            if Mat[i][j] != 0:
                e += Mat[i][j] * v[i] * v[j]
        if ising:
            e += d[i] * v[i]
    return e


def oracle(obs, ising):
    """None if the written file and the reloaded problem satisfy C10 for this container."""
    mem = obs["mem"]
    n, Mat, h, c = mem
    if not obs["jdiag_zero"]:
        return "in-memory J has a non-zero diagonal entry"
    if obs.get("container_changed"):
        return "export: writing the file changed the in-memory problem (Q, J, h or a constant differs afterwards)"
    if obs.get("second_export_differs"):
        return "export: a second export of the same container writes different coefficient lines"
    try:
        consts, recs, _ = parse_file(obs["text"])
    except ValueError as e:
        return f"file: {e}"
    if len(consts) != 1:
        return f"file: {len(consts)} constant lines"
    if Decimal(consts[0]) * 100 != round2(c):
        return f"file: constant {consts[0].strip()} is not {c} rounded to two decimals"
    seen = {}
    for (i, j, z, _) in recs:
        if (i, j) in seen:
            return f"file: coefficient ({i},{j}) listed twice"
        seen[(i, j)] = z
        if not (0 <= i < n and 0 <= j < n):
            return f"file: record ({i},{j}) outside the {n} variables"
        q = coefficient(mem, ising, i, j)
        if q == 0:
            return f"file: record ({i},{j}) for a zero coefficient"
        if z != round2(q):
            return f"file: record ({i},{j}) has {z}/100, coefficient {q} rounds to {round2(q)}/100"
    for i in range(n):
        for j in range(n):
            if coefficient(mem, ising, i, j) != 0 and (i, j) not in seen:
                return f"file: non-zero coefficient ({i},{j}) = {coefficient(mem, ising, i, j)} is missing"
    ld = obs["load"]
    if ld[0] == "err":
        return f"load: the package's loader rejects the package's own file: {ld[2]}"
    _, shape, dense, lc = ld
    if shape[0] != shape[1]:
        return f"load: matrix of shape {shape}"
    m = shape[0]
    if m > max(n, 1):
        return f"load: {m} variables loaded from a problem with {n}"
    if lc != round2(c):
        return f"load: constant {lc}/100, expected {round2(c)}/100"
    for i in range(n):
        for j in range(n):
            want = round2(coefficient(mem, ising, i, j))
            got = dense[i][j] if (i < m and j < m) else 0
            if got != want:
                return f"load: entry ({i},{j}) is {got}/100, coefficient rounds to {want}/100"
    sJ, sh = obs["split"]
    for i in range(m):
        if sh[i] != dense[i][i]:
            return f"split: h[{i}] = {sh[i]}/100 but loaded diagonal is {dense[i][i]}/100"
        for j in range(m):
            if sJ[i][j] != (0 if i == j else dense[i][j]):
                return f"split: J[{i}][{j}] = {sJ[i][j]}/100"
    # energies at every assignment: reloaded (restricted to its m variables) vs in-memory
    nnz = sum(1 for i in range(n) for j in range(n) if coefficient(mem, ising, i, j) != 0)
    exact = all((coefficient(mem, ising, i, j) * 100).denominator == 1 for i in range(n) for j in range(n)) \
        and (c * 100).denominator == 1
    if ising:
        LM = [[F(sJ[i][j], 100) for j in range(m)] for i in range(m)]
        Ld = [F(v, 100) for v in sh]
        dom = (1, -1)
    else:
        LM = [[F(dense[i][j], 100) for j in range(m)] for i in range(m)]
        Ld = []
        dom = (0, 1)
    for v in itertools.product(dom, repeat=n):
        e_mem = energy(ising, n, Mat, h, c, v)
        e_load = energy(ising, m, LM, Ld, F(lc, 100), v[:m])
        if abs(e_load - e_mem) > F(nnz + 1, 200):
            return f"energy: reloaded {e_load} vs in-memory {e_mem} at {v}: more than rounding"
        if exact and e_load != e_mem:
            return f"energy: all coefficients are multiples of 0.01 but reloaded {e_load} != in-memory {e_mem} at {v}"
    return None


# ---------------- generators ----------------
TIES = [F(1, 8), F(3, 8), F(5, 8), F(7, 8), F(1, 2), F(3, 2), F(5, 2), F(-1, 2), F(-3, 2), F(-1, 8), F(-3, 8)]
TINY = [F(1, 256), F(-1, 256), F(1, 512), F(-1, 512), F(1, 64), F(-1, 64)]


def fixed_cases():
    Z = F(0)
    out = []
    out.append(([[F(1), F(4), Z], [Z, F(1), F(4)], [Z, Z, F(-2)]], Z))        # Ising: last variable only as a column
    out.append(([[F(1), F(4)], [Z, F(-2)]], F(1, 8)))
    out.append(([[Z]], Z))                                                    # empty file
    out.append(([[Z]], F(-1, 512)))                                           # constant -0.00
    out.append(([[F(1, 256)]], F(1, 512)))                                    # value 0.00
    out.append(([[F(-1, 256), F(-1, 64)], [F(1, 64), Z]], F(3, 8)))           # -0.00 entries
    out.append(([[F(1, 2), F(3, 2)], [F(5, 2), F(1, 8)]], F(1, 8)))           # exact ties
    out.append(([[F(2), F(1), Z], [F(1), F(-3), Z], [Z, Z, Z]], F(5, 4)))     # zero trailing row and column
    out.append(([[Z, Z, F(3)], [Z, Z, Z], [Z, Z, Z]], Z))                     # QUBO: last variable only as a column
    out.append(([[Z, Z, Z], [Z, Z, Z], [F(3), Z, Z]], Z))                     # only as a row
    out.append(([[F(4), F(-8)], [F(12), F(16)]], F(3, 4)))                    # multiples of 1/100 throughout
    return out


def gen_matrix(rng):
    n = rng.choice([1, 2, 2, 3, 3, 4, 4, 5])
    p_zero = rng.choice([0.2, 0.5, 0.8])
    flavour = rng.random()

    def entry():
        if rng.random() < p_zero:
            return F(0)
        r = rng.random()
        if flavour < 0.2:                      # integers: every Ising coefficient a multiple of 1/4
            return F(rng.randint(-6, 6))
        if r < 0.2:
            return rng.choice(TIES)
        if r < 0.3:
            return rng.choice(TINY)
        return F(rng.randint(-40, 40), 8)

    M = [[entry() for _ in range(n)] for _ in range(n)]
    shape = rng.random()
    if shape < 0.15 and n > 1:               # zero trailing row and column
        for i in range(n):
            M[i][n - 1] = F(0)
            M[n - 1][i] = F(0)
    elif shape < 0.4 and n > 1:              # last variable only in column n-1, its Ising field h is zero
        for j in range(n):
            M[n - 1][j] = F(0)
        M[n - 1][n - 1] = -sum(M[i][n - 1] for i in range(n - 1)) / 2
    if flavour < 0.2:
        c = F(rng.randint(-20, 20), 4)
    else:
        c = rng.choice([F(rng.randint(-40, 40), 8), F(rng.randint(-40, 40), 16), rng.choice(TINY), F(0)])
    return M, c


def gen_cases(rng, n_random):
    cases = []
    for M, c in fixed_cases():
        for pat in PATTERNS:
            cases.append((M, c, pat, "ndarray"))
    for _ in range(n_random):
        M, c = gen_matrix(rng)
        cases.append((M, c, rng.choice(PATTERNS), rng.choice(["ndarray", "csr", "csr_zeros"])))
    return cases


# ---------------- Coq literals ----------------
def coq_string(s):
    return '"' + s.replace('"', '""') + '"'


def case_lit(obs, ising):
    n, Mat, h, c = obs["mem"]
    consts, recs, body = parse_file(obs["text"])
    fk = int(Decimal(consts[0]) * 100)
    fes = lit.lst([lit.tup(lit.nat(i), lit.nat(j), lit.z(z)) for (i, j, z, _) in recs])
    _, shape, dense, lc = obs["load"]
    sJ, sh = obs["split"]
    zrows = lambda rows: lit.lst([lit.lst([lit.z(v) for v in row]) for row in rows])  # noqa
    o = lit.tup(lit.z(fk), fes, lit.tup(lit.nat(shape[0]), zrows(dense), lit.z(lc)),
                lit.pair(zrows(sJ), lit.lst([lit.z(v) for v in sh])))
    return lit.tup(lit.boolean(ising), lit.nat(n), lit.lst([lit.lst([lit.q(v) for v in row]) for row in Mat]),
                   lit.lst([lit.q(v) for v in h]), lit.q(c), o)


def text_case_lit(obs, ising):
    n, Mat, h, c = obs["mem"]
    _, _, body = parse_file(obs["text"])
    _, shape, dense, lc = obs["load"]
    zrows = lambda rows: lit.lst([lit.lst([lit.z(v) for v in row]) for row in rows])  # noqa
    first = obs["text"].split("\n")[0]
    assert first.startswith("#")
    return lit.tup(lit.boolean(ising), lit.nat(n), lit.lst([lit.lst([lit.q(v) for v in row]) for row in Mat]),
                   lit.lst([lit.q(v) for v in h]), lit.q(c), coq_string(first[1:]), coq_string(obs["text"]),
                   lit.lst([coq_string(s) for s in body]),
                   lit.tup(lit.nat(shape[0]), zrows(dense), lit.z(lc)))


def model_problem(obs, ising):
    n, Mat, h, c = obs["mem"]
    return (f"(problem_of {lit.boolean(ising)} {lit.nat(n)} {lit.lst([lit.lst([lit.q(v) for v in row]) for row in Mat])} "
            f"{lit.lst([lit.q(v) for v in h])} {lit.q(c)})")


def case_json(case, ising):
    M, c, pat, kind = case
    return {"matrix": [[str(v) for v in row] for row in M], "constant": str(c), "pattern": pat, "input_kind": kind,
            "as_ising": ising}


def case_from_json(d):
    return ([[F(v) for v in row] for row in d["matrix"]], F(d["constant"]), d["pattern"], d["input_kind"]), d["as_ising"]


def check_impl(case, ising, tmpdir):
    try:
        obs = observe(case, ising, tmpdir)
    except Exception as e:  # noqa
        return None, f"export/load raised {type(e).__name__}: {e}"
    return obs, oracle(obs, ising)


def shrink(case, ising, tmpdir):
    def fails(cs):
        return check_impl(cs, ising, tmpdir)[1] is not None
    M, c, pat, kind = case
    changed = True
    while changed:
        changed = False
        n = len(M)
        if n > 1:
            for drop in range(n):
                sub = [[M[i][j] for j in range(n) if j != drop] for i in range(n) if i != drop]
                if fails((sub, c, pat, kind)):
                    M, changed = sub, True
                    break
            if changed:
                continue
        for i in range(n):
            for j in range(n):
                if M[i][j] != 0:
                    for new in (F(0), F(1)):
                        if new != M[i][j]:
                            M2 = [row[:] for row in M]
                            M2[i][j] = new
                            if fails((M2, c, pat, kind)):
                                M, changed = M2, True
                                break
        if c != 0 and fails((M, F(0), pat, kind)):
            c, changed = F(0), True
        if kind != "ndarray" and fails((M, c, pat, "ndarray")):
            kind, changed = "ndarray", True
    return (M, c, pat, kind)


# ---------------- (ii) the test-set generator ----------------
def sparse_items(A):
    """Non-zero entries of a scipy sparse / dense matrix as exact {(i, j): Fraction}, duplicates summed."""
    import scipy.sparse as sp
    A = sp.coo_array(A)
    out = {}
    for i, j, v in zip(A.row, A.col, A.data):
        out[(int(i), int(j))] = out.get((int(i), int(j)), F(0)) + fr(v)
    return {k: v for k, v in out.items() if v != 0}


def generator_half(ctx, tmpdir, horizons):
    """gen(prefix, horizons) into tmpdir with the routing problems captured on the way."""
    import numpy as np
    import vrpqubo.generate_test_set as gts
    from vrpqubo.test_feasibility import convenience, test_feasibility
    from vrpqubo.tools.load_tools import load_ising_matrix
    from vrpqubo.tools.qubo_tools import QUBOContainer, evaluate_Ising, get_Ising_J_h, x_to_s
    captured = []
    orig = gts.get_mirp

    class Proxy:
        def __init__(self, mirp, t_h):
            self.mirp, self.t_h = mirp, t_h

        def _wrap(self, name, abbr, **kw):
            r = getattr(self.mirp, name)(**kw)
            captured.append((self.t_h, abbr, r))
            return r

        def get_arc_based(self, **kw):
            return self._wrap("get_arc_based", "ab", **kw)

        def get_path_based(self, **kw):
            return self._wrap("get_path_based", "pb", **kw)

        def get_sequence_based(self, **kw):
            return self._wrap("get_sequence_based", "sb", **kw)

    gts.get_mirp = lambda t_h: Proxy(orig(t_h), t_h)
    try:
        with contextlib.redirect_stdout(io.StringIO()):
            gts.gen(tmpdir, horizons)
    finally:
        gts.get_mirp = orig
    stats = {"horizons": list(horizons), "instances": []}
    expected = set()

    def bad(sig, msg, extra):
        ctx.violation(f"generator/{sig}", msg, dict({"horizons": list(horizons), "python": "props.c10.generator_half"}, **extra), True)

    for t_h, abbr, r_p in captured:
        n = int(r_p.get_num_variables())
        x = np.asarray(r_p.feasible_solution)
        Qo, co = r_p.get_qubo(feasibility=False)
        Qf, cf = r_p.get_qubo(feasibility=True)
        base = f"test_{abbr}_{n}_"
        expected |= {base + "o.rudy", base + "f.rudy", base + ".npz"}
        info = {"horizon": t_h, "formulation": abbr, "n_vars": n}
        if not (Qo.shape == (n, n) and Qf.shape == (n, n) and len(x) == n):
            bad("variable-count", f"{abbr} horizon {t_h}: get_num_variables() = {n} but QUBO shape {Qo.shape}, solution length {len(x)}", info)
            continue
        for suffix, Qm, cm in (("o", Qo, co), ("f", Qf, cf)):
            path = os.path.join(tmpdir, base + suffix + ".rudy")
            if not os.path.isfile(path):
                bad("file-name", f"{abbr} horizon {t_h}: no file {base + suffix}.rudy for the model with {n} variables", info)
                continue
            # the file against the in-memory container (record level, sparse)
            qc = QUBOContainer(Qm, cm)
            J, h, c = sparse_items(qc.J), [fr(v) for v in qc.h], fr(qc.const_ising)
            try:
                with open(path, encoding="utf-8") as fh:
                    consts, recs, _ = parse_file(fh.read())
            except ValueError as e:
                bad("file-content", f"{base + suffix}.rudy: {e}", info)
                continue
            want = {(i, i): round2(h[i]) for i in range(n) if h[i] != 0}
            want.update({k: round2(v) for k, v in J.items() if k[0] != k[1]})
            got = {}
            dup = False
            for (i, j, z, _) in recs:
                dup = dup or (i, j) in got
                got[(i, j)] = z
            if dup or got != want or len(consts) != 1 or Decimal(consts[0]) * 100 != round2(c):
                bad("file-content", f"{base + suffix}.rudy does not list the in-memory Ising coefficients exactly once, rounded", info)
                continue
            try:
                M, lc = load_ising_matrix(path)
            except Exception as e:  # noqa
                bad("load-error", f"{base + suffix}.rudy: the package's loader rejects the generated file: {type(e).__name__}: {e}", info)
                continue
            m = M.shape[0]
            if M.shape[0] != M.shape[1] or m > n:
                bad("load-shape", f"{base + suffix}.rudy loads with shape {M.shape} for {n} variables", info)
                continue
            items = sparse_items(M)              # before get_Ising_J_h, which zeroes M's diagonal in place
            Jl, hl = get_Ising_J_h(M)
            s = x_to_s(x)
            e_load = evaluate_Ising(Jl, hl, lc, s[:m])
            if suffix == "f":
                # integer feasibility QUBO: all Ising coefficients are multiples of 1/4, float arithmetic is exact
                e_mem = qc.evaluate_Ising(s)
                info["f_energy_reloaded"] = str(fr(e_load))
                if fr(e_load) != 0 or fr(e_mem) != 0:
                    bad("f-energy", f"{base}f.rudy: energy of the stored feasible solution is {e_load} reloaded, {e_mem} in memory (expected 0)", info)
            else:
                # objective version: exact energy of the two-decimal file vs in-memory, up to the rounding
                e_file = F(hundredths(lc), 100)
                for (i, j), v in items.items():
                    z = F(hundredths(float(v)), 100)
                    e_file += z * int(s[i]) * (int(s[j]) if i != j else 1)
                e_mem = c + sum(v * int(s[i]) * int(s[j]) for (i, j), v in J.items()) + sum(h[i] * int(s[i]) for i in range(n))
                nn = len(want) + 1
                info["o_energy_diff"] = str(e_file - e_mem)
                if abs(e_file - e_mem) > F(nn, 200):
                    bad("o-energy", f"{base}o.rudy: reloaded energy {e_file} vs in-memory {e_mem} differ by more than rounding", info)
        # constraint data: convenience() on a spins file written from the in-memory solution
        npz = os.path.join(tmpdir, base + ".npz")
        if not os.path.isfile(npz):
            bad("file-name", f"{abbr} horizon {t_h}: no file {base}.npz", info)
            continue
        spath = os.path.join(tmpdir, base + ".spins")
        with open(spath, "w", encoding="utf-8") as fh:
            for spin in x_to_s(x):
                fh.write(f"{int(spin)}\n")
        vl, vq, nnz = convenience(npz, spath)
        ml, mq, mnnz = test_feasibility(x, *r_p.get_constraint_data())
        same = (list(map(bool, vl)) == list(map(bool, ml))) and fr(vq) == fr(mq) and int(nnz) == int(mnnz)
        info.update({"linear_constraints": len(ml), "linear_violations": int(sum(map(bool, vl))), "quadratic_violation": str(fr(vq)), "Q_nnz": int(nnz)})
        if not same:
            bad("npz-measures", f"{base}.npz: convenience() gives ({int(sum(vl))}, {vq}, {nnz}), in-memory test_feasibility ({int(sum(ml))}, {mq}, {mnnz})", info)
        elif any(map(bool, vl)) or fr(vq) != 0:
            bad("npz-feasible", f"{base}.npz: the stored feasible solution violates the reloaded constraints", info)
        os.remove(spath)
        stats["instances"].append(info)
    present = set(os.listdir(tmpdir))
    if present != expected:
        bad("file-name", f"files written {sorted(present)} != expected from get_num_variables() {sorted(expected)}", {})
    return stats


# ---------------- driver ----------------
def run(ctx):
    ctx.prove(props=["C10", "C10_testset"])
    import translate_export as T
    ctx.gen_step("export", T.translate, "C10_gen",
                 "harness/translate_export.py + the statement printer of harness/translate_report.py (ast -> Gallina printer for "
                 "QUBOContainer.export: choice by as_ising, f-string lines, the two loops with generated bodies, the written text; "
                 "and for load_tools.load_matrix in the exception monad: the line loop with its four branches, IndexError / ValueError "
                 "of subscripts and int()/float(), the assertion, the shape; combinators in coq/theories/PyReport.v, PyExport.v)")
    from props import pysem; pysem.run(ctx, pysem.GROUPS_FOR.get(ctx.pid, ()))
    rng = ctx.rng
    n_random = 170 if ctx.quick else 3000
    cases = gen_cases(rng, n_random)
    tmpdir = tempfile.mkdtemp(prefix="vq_c10_")
    assert not os.path.abspath(tmpdir).startswith(("/repo", "/verif/coq"))
    dist = {"n": {}, "pattern": {}, "ising": 0, "qubo": 0, "loaded_smaller": 0, "empty_file": 0, "tie": 0,
            "rounds_to_zero": 0, "minus_zero": 0, "exact_hundredths": 0, "last_only_as_column": 0}
    kept, terms, tterms = [], [], []
    reported = 0
    seen = set()
    try:
        for case in cases:
            for ising in (True, False):
                obs, msg = check_impl(case, ising, tmpdir)
                if msg is not None:
                    if reported < 3:
                        small = shrink(case, ising, tmpdir)
                        obs2, msg2 = check_impl(small, ising, tmpdir)
                        ctx.violation("oracle/" + (msg2 or msg).split(":")[0], msg2 or msg,
                                      {"input": case_json(small, ising), "file": None if obs2 is None else obs2["text"].split("\n")[1:],
                                       "python": "props.c10.check_impl(*props.c10.case_from_json(input), tmpdir)"}, True)
                        reported += 1
                    if obs is None:
                        continue
                n, Mat, h, c = obs["mem"]
                rows_used = {i for i in range(n) for j in range(n) if coefficient(obs["mem"], ising, i, j) != 0}
                cols_used = {j for i in range(n) for j in range(n) if coefficient(obs["mem"], ising, i, j) != 0}
                dist["last_only_as_column"] += bool(cols_used) and (not rows_used or max(cols_used) > max(rows_used))
                if msg is not None:
                    if obs["load"][0] == "err":
                        continue
                    try:
                        parse_file(obs["text"])
                    except Exception:  # noqa
                        continue
                kept.append((case, ising, obs))
                terms.append(case_lit(obs, ising))
                tterms.append(text_case_lit(obs, ising))
                dist["n"][n] = dist["n"].get(n, 0) + 1
                dist["pattern"][case[2]] = dist["pattern"].get(case[2], 0) + 1
                dist["ising" if ising else "qubo"] += 1
                coefs = [coefficient(obs["mem"], ising, i, j) for i in range(n) for j in range(n)]
                nzc = [q for q in coefs if q != 0]
                m = obs["load"][1][0]
                tie = any((q * 200).denominator == 1 and (q * 100).denominator != 1 for q in nzc + [c])
                dist["loaded_smaller"] += m < n
                dist["empty_file"] += not nzc
                dist["tie"] += tie
                dist["rounds_to_zero"] += any(round2(q) == 0 for q in nzc)
                dist["minus_zero"] += "-0.00" in obs["text"]
                dist["exact_hundredths"] += all((q * 100).denominator == 1 for q in nzc + [c]) and bool(nzc)
                key = repr((case, ising))
                if key not in seen:
                    seen.add(key)
                    if nzc and (tie or m < n or any(round2(q) == 0 for q in nzc)):
                        ctx.count(nontrivial=1)
        ctx.count(evaluations=len(kept), traces=len(kept))
        for k in ("loaded_smaller", "empty_file", "tie", "rounds_to_zero", "minus_zero", "exact_hundredths", "last_only_as_column"):
            if dist[k] == 0:
                ctx.tooling_failure("coverage", f"generator produced no case of kind {k}")
        # (ii) generator half
        gdir = os.path.join(tmpdir, "gen")
        os.mkdir(gdir)
        gstats = generator_half(ctx, gdir, [16] if ctx.quick else [16, 18, 20])
        ctx.count(evaluations=len(gstats["instances"]))
        dist["generator"] = gstats
    finally:
        shutil.rmtree(tmpdir, ignore_errors=True)
    ctx.cov["input_distribution"] = dist
    ctx.cov["rule"] = ("QUBOContainer(M, c, pattern) for n = 1..5, entries k/8 with exact ties, tiny values that print as 0.00 / -0.00, "
                       "integers; zero last field, zero trailing row/column, empty problems; Ising and QUBO export of each into a scratch "
                       "directory, reloaded with the package's loaders; non-trivial = distinct (container, mode) with a tie, a value "
                       "rounding to zero or a loaded size below n; plus gen(prefix, horizons) with the routing problems captured")
    ctx.assumptions.append("coefficients are dyadic so floats are exact; a loaded float x is identified with the integer z such that "
                           "x == z/100 as doubles; float rounding inside evaluate_Ising on reloaded data is not part of the claim")
    ctx.assumptions.append("np.savez/np.load are library I/O (oracle load (save d) = d in C10_testset.v); the rest of the generator half is modelled in TestFeas.v")
    for case, ising, obs in kept[20:23]:
        ctx.sample({"input": case_json(case, ising), "file": obs["text"].split("\n")[1:], "loaded": repr(obs["load"][1:])})
    mism, err = ctx.coq_mismatches("rec", HEADER, "ccase", "check_ccase", terms, shard=120)
    tags_doc = "1 constant 2 records (file order) 3 loaded size 4 loaded matrix 5 loaded constant 6 split J 7 split h"
    for idx, tags in mism[:3]:
        case, ising, obs = kept[idx]
        model = ctx.coq_eval(HEADER, f"export_entries {model_problem(obs, ising)}")
        ctx.violation(f"correspondence/records/tags{tags}", "model and implementation disagree on export/load; "
                      "the property oracle did not fail on this input",
                      {"correspondence": "Export.check_ccase", "fields": tags_doc, "tags": tags, "input": case_json(case, ising),
                       "file": obs["text"].split("\n")[1:], "loaded": repr(obs["load"]), "model_export_entries": model}, False)
    mism, err = ctx.coq_mismatches("txt", HEADER, "tcase", "check_tcase", tterms, shard=120)
    for idx, tags in mism[:3]:
        case, ising, obs = kept[idx]
        model = ctx.coq_eval(HEADER, f"export_text {model_problem(obs, ising)}")
        ctx.violation(f"correspondence/text/tags{tags}", "model and implementation disagree on the bytes of the file or on parsing them; "
                      "the property oracle did not fail on this input",
                      {"correspondence": "Export.check_tcase", "fields": "1 lines of the file 2 load_text on the lines 3 bytes of the file 4 load_bytes on the bytes", "tags": tags,
                       "input": case_json(case, ising), "file": obs["text"].split("\n")[1:], "loaded": repr(obs["load"]),
                       "model_export_text": model}, False)
    # the generator half: test_feasibility / convenience / load_spins / file names (model + tie)
    from props import c10_testset
    c10_testset.run_part(ctx)
    if ctx.tier == "thorough":
        ctx.coqchk("VQP.C10")
        ctx.coqchk("VQP.C10_testset")


def replay(ctx, data):
    r = data["replay"]
    tmpdir = tempfile.mkdtemp(prefix="vq_c10_")
    try:
        if "input" in r:
            case, ising = case_from_json(r["input"])
            print(check_impl(case, ising, tmpdir)[1])
        else:
            print(generator_half(ctx, tmpdir, r.get("horizons", [16])))
    finally:
        shutil.rmtree(tmpdir, ignore_errors=True)
