"""C07 -- sequence-based constraints describe per-vehicle walks with an absorbing depot.

Proof: coq/props/C07.v.
Tie: random construction histories are run through the REAL SequenceBasedRoutingProblem and through the
Gallina model (coq/theories/Seq.v); Coq compares arcs, fixed_values, var_mapping, the index maps, dense
A, b, R (or the AssertionError), c, Q, all shapes, and get_routes(x) for feasible and arbitrary x.
Oracle (on the implementation only): for every binary x (n <= 14 quick / 16 thorough) `A x = b and x'Rx = 0`
must hold exactly for the indicator vectors of the walk assignments enumerated independently from the arc
set; the objective must equal the summed move costs plus surcharges; get_routes must return the walks; in
strict mode every walk must meet every time window at its earliest arrival times."""
import collections

import numpy as np

from props import seqlib as S

INF = float("inf")


def in_hypotheses(case, out):
    """The property's quantifier: L >= 3 and the depot was set through the class ((0,0) is an arc)."""
    return case["L"] >= 3 and any(k == (0, 0) for k, _ in out["arcs"]) and out["N"] >= 1


def indicator(W, probe, L):
    """x_W over the free variables; None if W occupies a tuple that is neither a variable nor a
    start/end depot tuple (then W is not representable)."""
    ones = []
    for v, w in enumerate(W):
        for s, n in enumerate(w):
            k = probe.get((v, s, n))
            if k is None:
                if not (n == 0 and s in (0, L - 1)):
                    return None, (v, s, n)
            else:
                ones.append(k)
    return ones, None


def oracle(case, limit_n):
    """Returns (failure or None, info). failure = (clause, message, witness dict)."""
    obj, out = S.observe(case)
    info = {"applicable": False, "n": out["n"], "walks": 0, "exhaustive": False}
    if out["con"][0] == "err":
        return ("asserts", f"get_constraint_data raised {out['con'][1]}", {}), info
    if not (case["L"] >= 3 and out["N"] >= 1):
        return None, info
    # the walk oracle also runs when set_depot was never called (no depot self-arc: a vehicle then cannot stay at the depot);
    # the theorems' hypothesis seq_ok requires the self-arc, so only instances with it are handed to the Coq hypothesis check
    info["applicable"] = in_hypotheses(case, out)
    V, L, N, n = case["V"], case["L"], out["N"], out["n"]
    arcd = dict(out["arcs"])
    arcset = set(arcd)
    (sa, A, b, sr, R) = out["con"][1]
    (nc, c, sq, Q) = out["obj"]
    if tuple(sa) != (len(b), n) or tuple(sr) != (n, n) or nc != n or tuple(sq) != (n, n):
        return ("shape", f"shapes A{sa} b[{len(b)}] R{sr} c[{nc}] Q{sq} with n = {n}", {}), info
    if any(v < 0 for row in R for v in row):
        return ("R-negative", "quadratic constraint matrix has a negative entry", {}), info
    probe = dict(out["probe"])
    Ws = S.walk_assignments(arcset, V, L, N)
    info["walks"] = len(Ws)
    ref = {}
    for W in Ws:
        ones, bad = indicator(W, probe, L)
        if ones is None:
            return ("represent", f"walk assignment {W} occupies {bad}, which is fixed to 0 / not a variable",
                    {"walks": [list(w) for w in W]}), info
        x = [0] * n
        for k in ones:
            x[k] = 1
        ref[tuple(x)] = W
    # --- A x = b and x'Rx = 0  <=>  x is the indicator of a walk assignment
    if n <= limit_n:
        info["exhaustive"] = True
        Xall = S.all_binary(n)
        mask = S.feasible_mask(A, b, R, Xall)
        feas = {tuple(int(z) for z in row) for row in Xall[mask]}
        extra = sorted(feas - set(ref))
        missing = sorted(set(ref) - feas)
        # second, independent reference: the direct walk checker on the real object
        for x in sorted(feas)[:200]:
            ok, why = S.walk_valid(obj, x)
            if not ok:
                return ("iff/accepts-non-walk", "a binary vector satisfies A x = b, x'Rx = 0 but the walk checker rejects it: " + why,
                        {"x": list(x), "ones": [out["vars"][k] for k, z in enumerate(x) if z]}), info
        for x in sorted(ref)[:40]:
            for k in range(n):
                y = list(x)
                y[k] ^= 1
                if S.walk_valid(obj, y)[0] != (tuple(y) in feas):
                    return ("iff/accepts-non-walk" if tuple(y) in feas else "iff/rejects-walk",
                            "constraints and walk checker disagree on a vector one bit away from a walk assignment",
                            {"x": y, "ones": [out["vars"][k2] for k2, z in enumerate(y) if z]}), info
        if extra:
            return ("iff/accepts-non-walk", "a binary vector satisfies A x = b, x'Rx = 0 but is not the indicator of a walk "
                    "assignment", {"x": list(extra[0]), "ones": [out["vars"][k] for k, z in enumerate(extra[0]) if z]}), info
        if missing:
            return ("iff/rejects-walk", f"walk assignment {ref[missing[0]]} violates A x = b or x'Rx = 0",
                    {"x": list(missing[0]), "walks": [list(w) for w in ref[missing[0]]]}), info
    else:
        if ref:
            Xr = np.array(sorted(ref), dtype=np.int64)
            mask = S.feasible_mask(A, b, R, Xr)
            if not mask.all():
                x = tuple(int(z) for z in Xr[int(np.argmin(mask))])
                return ("iff/rejects-walk", f"walk assignment {ref[x]} violates A x = b or x'Rx = 0",
                        {"x": list(x), "walks": [list(w) for w in ref[x]]}), info
        rs = np.random.RandomState(n * 7919 + len(Ws))         # deterministic local perturbations of reference vectors
        cand = []
        base = sorted(ref)[:40] or [tuple([0] * n)]
        for x in base:
            for _ in range(25):
                y = np.array(x)
                for k in rs.randint(0, n, size=rs.randint(1, 3)):
                    y[k] ^= 1
                cand.append(y)
        Xc = np.array(cand, dtype=np.int64)
        mask = S.feasible_mask(A, b, R, Xc)
        for row in Xc[mask]:
            x = tuple(int(z) for z in row)
            if x not in ref:
                return ("iff/accepts-non-walk", "a binary vector satisfies A x = b, x'Rx = 0 but is not the indicator of a walk "
                        "assignment", {"x": list(x), "ones": [out["vars"][k] for k, z in enumerate(x) if z]}), info
    # --- objective, decoding, strict timing on every walk assignment
    cv = np.array(c, dtype=np.int64)
    Qm = np.array(Q, dtype=np.int64).reshape(n, n)
    nodes = [(nd.get_window()[0], nd.get_window()[1]) for nd in obj.nodes]
    # strict-timing claim (C07_strict_time_all_histories): EVERY strict history -- the depot chosen or moved at any
    # time -- whose arc currently stored under (0,0) keeps a waiting vehicle inside the depot window
    self_ok = (0, 0) in arcd and (nodes[0][1] == INF or arcd[(0, 0)][0] <= 0)
    strict_applies = case["strict"] and self_ok
    info["strict_applies"] = strict_applies
    info["depot_moved_after_arcs"] = case["strict"] and not S.depot_first(case)
    for x, W in sorted(ref.items()):
        xv = np.array(x, dtype=np.int64)
        val = int(cv @ xv + xv @ Qm @ xv)
        want = sum(arcd[(w[s], w[s + 1])][1] + case["vc"][v] for v, w in enumerate(W) for s in range(L - 1))
        if val != want:
            return ("objective", f"objective {val} != summed move costs + surcharges {want} for walks {W}",
                    {"x": list(x), "walks": [list(w) for w in W]}), info
        try:
            routes = [[int(k) for k in r] for r in obj.get_routes(np.array(x, dtype=float))]
        except Exception as e:  # noqa
            routes = f"raised {type(e).__name__}"
        if routes != [list(w) for w in W]:
            return ("decode", f"get_routes returned {routes} for walks {W}", {"x": list(x), "walks": [list(w) for w in W]}), info
        if case["strict"]:
            # whole walk when the (0,0) arc is harmless (C07_strict_time_all_histories); otherwise the route of the walk:
            # up to and including the return to the depot (C07_strict_time_route_all_histories, no hypothesis on (0,0))
            for w in W:
                t = nodes[0][0]
                for s in range(L):
                    if not strict_applies and (w[1] == 0 or any(w[k] == 0 for k in range(1, s))):
                        break
                    if s > 0:
                        t = max(nodes[w[s]][0], t + arcd[(w[s - 1], w[s])][0])
                    if t > nodes[w[s]][1]:
                        return ("strict-time", f"strict mode: walk {w} reaches node {w[s]} at position {s} at time {t} > window end "
                                f"{nodes[w[s]][1]}", {"x": list(x), "walk": list(w)}), info
    info["ref"] = ref
    return None, info


def shrink(case, clause, limit_n):
    def fails(c):
        try:
            f, _ = oracle(c, limit_n)
        except Exception:  # noqa
            return False
        return f is not None and f[0] == clause
    cur = dict(case)
    changed = True
    while changed:
        changed = False
        for key in ("ops1", "ops0"):
            for i in range(len(cur[key])):
                if cur[key][i][0] != "arc":
                    continue
                cand = dict(cur)
                cand[key] = cur[key][:i] + cur[key][i + 1:]
                if fails(cand):
                    cur, changed = cand, True
                    break
            if changed:
                break
        if changed:
            continue
        for key, lo in (("V", 1), ("L", 3)):
            if cur[key] > lo:
                cand = dict(cur)
                cand[key] = cur[key] - 1
                cand["vc"] = cur["vc"][:cand["V"]]
                if fails(cand):
                    cur, changed = cand, True
                    break
    return cur


# regression input of the repaired defect strict/depot-moved-after-arcs (fix a305445): an arc stored while its origin
# was node 0 (lenient rule) becomes a customer-origin arc when set_depot moves another node to the front.  Before
# the repair the walk D-A-B-D satisfied the constraints and reached B at 11 > 5; now set_depot re-adds the stored
# arcs with the rule for their new positions and A->B is dropped.  An ordinary input of the stream: the
# strict-timing oracle applies to it.
MOVED_DEPOT = {"kind": "moved", "strict": True, "ops0": [],
               "ops1": [("node", "A", 1, 0, 10), ("node", "B", 1, 0, 5), ("node", "D", 0, 0, INF),
                        ("arc", "A", "B", 3, 1), ("depot", "D"),
                        ("arc", "D", "A", 8, 1), ("arc", "B", "D", 0, 1)],
               "V": 1, "L": 4, "vc": [0]}
# same situation with a walk left after the repair: A->B (10 + 1 > 5) is dropped, B->A (5 + 2 <= 10) is kept when D
# moves to the front; D-B-A-D arrives at 0, 3, 5, 5
MOVED_DEPOT_WALK = {"kind": "moved", "strict": True, "ops0": [],
                    "ops1": [("node", "A", 1, 0, 10), ("node", "B", 1, 0, 5), ("node", "D", 0, 0, INF),
                             ("arc", "A", "B", 1, 1), ("arc", "B", "A", 2, 1), ("depot", "D"),
                             ("arc", "D", "B", 3, 1), ("arc", "A", "D", 0, 1)],
                    "V": 1, "L": 4, "vc": [0]}
# the depot moved twice, arcs stored in between, the old depot's self-arc re-checked as a customer self-arc
MOVED_DEPOT_TWICE = {"kind": "moved", "strict": True, "ops0": [],
                     "ops1": [("node", "A", 1, 0, 6), ("node", "B", 1, 2, 4), ("node", "D", 0, 0, 9), ("depot", "A"),
                              ("arc", "A", "B", 4, 1), ("arc", "A", "D", 2, 0), ("depot", "B"), ("arc", "B", "A", 3, 2),
                              ("arc", "B", "D", 5, 1), ("arc", "D", "A", 0, 1), ("depot", "D"),
                              ("arc", "D", "A", 1, 1), ("arc", "D", "B", 2, 1), ("arc", "A", "D", 3, 1), ("arc", "B", "D", 5, 1),
                              ("arc", "A", "B", 0, 1)],
                     "V": 2, "L": 4, "vc": [0, 1]}
REGRESSION = [MOVED_DEPOT, MOVED_DEPOT_WALK, MOVED_DEPOT_TWICE]


# input class outside the strict-timing hypothesis: the depot self-arc overwritten with a positive travel
# time while the depot window is finite (every depot stay then costs time)
SLOW_SELF_ARC = {"kind": "api", "strict": True, "ops0": [],
                 "ops1": [("node", "D", 0, 0, 4), ("node", "A", 1, 0, 4), ("depot", "D"), ("arc", "D", "D", 3, 0),
                          ("arc", "D", "A", 0, 1), ("arc", "A", "D", 0, 1)],
                 "V": 1, "L": 5, "vc": [0]}


def late_walk(case):
    obj, out = S.observe(case)
    arcd = dict(out["arcs"])
    nodes = [(nd.get_window()[0], nd.get_window()[1]) for nd in obj.nodes]
    L = case["L"]
    for W in S.walk_assignments(set(arcd), case["V"], L, out["N"]):
        for w in W:
            t = nodes[0][0]
            for s in range(1, L):
                t = max(nodes[w[s]][0], t + arcd[(w[s - 1], w[s])][0])
                if t > nodes[w[s]][1]:
                    return (list(w), s, t, nodes[w[s]][1])
    return None


def documented_probes(ctx):
    """Evidence only: what the regression inputs of the repaired defect look like now (no late walk), and the one
    input class that stays outside the strict-timing hypothesis (depot self-arc overwritten with a positive time)."""
    obj, out = S.observe(MOVED_DEPOT)
    ctx.cov["strict_after_moved_depot"] = {"history": MOVED_DEPOT["ops1"], "arcs_kept": [list(k) for k, _ in out["arcs"]],
                                           "late_walk": late_walk(MOVED_DEPOT),
                                           "late_walk_second_input": late_walk(MOVED_DEPOT_WALK),
                                           "meaning": "repaired in a305445: late_walk must be null (walk, position, arrival time, "
                                                      "window end otherwise); the oracle treats these histories as ordinary inputs"}
    ctx.cov["strict_with_slow_depot_self_arc"] = {"history": SLOW_SELF_ARC["ops1"], "late_walk": late_walk(SLOW_SELF_ARC),
                                                  "meaning": "walk, position, arrival time, window end"}


def run(ctx):
    ctx.prove()
    from props import genreg
    genreg.steps(ctx, ("seqenum",))      # fixing rules / enumeration regenerated from the source (C18_seq_gen)
    import translate_seqcons as T        # constraint / objective builders regenerated from the source (C07_gen)
    ctx.gen_step("seqcons", T.translate, "C07_gen",
                 "harness/translate_seqcons.py + translate_enumcore.py + translate_seqenum.py (ast -> Gallina printer for "
                 "build_objective, build_quadratic_constraints, quadratic_constraint_logic, build_linear_constraints, "
                 "reset_build_flags, get_objective_data, get_constraint_data of SequenceBasedRoutingProblem; meaning of the "
                 "emitted combinators: coq/theories/PySeqCons.v, PySeq.v, PyEnumCore.v)")
    import translate_seqroutes as TR     # get_routes regenerated from the source (C07_routes_gen)
    ctx.gen_step("seqroutes", TR.translate, "C07_routes_gen",
                 "harness/translate_seqroutes.py + translate_routes.py (on translate_seqcons.py / translate_enumcore.py: "
                 "ast -> Gallina printer for get_routes of SequenceBasedRoutingProblem; meaning of the emitted combinators -- "
                 "list pop / item update, comprehensions, int-or-None truthiness, np.flatnonzero / np.array of "
                 "tuples-or-None / np.flip / .T / np.lexsort as a stable sort: coq/theories/PyRoutes.v; vocabulary "
                 "PySeqRoutes.v)")
    from props import pysem; pysem.run(ctx, pysem.GROUPS_FOR.get(ctx.pid, ()))
    rng = ctx.rng
    n_cases = 220 if ctx.quick else 2500
    limit_n = 14 if ctx.quick else 16
    cases, terms, passed = [], [], []
    hyp_terms, strict_terms = [], []
    dist = collections.Counter()
    reported = set()
    seen = set()
    for k in range(n_cases):
        case = REGRESSION[k] if k < len(REGRESSION) else S.gen_case(rng)
        fail, info = oracle(case, limit_n)
        if fail and fail[0] not in reported:
            reported.add(fail[0])
            small = shrink(case, fail[0], limit_n)
            f2, _ = oracle(small, limit_n)
            f2 = f2 or fail
            ctx.violation(f"oracle/seq/{f2[0]}", f2[1], dict({"case": small, "python": "props.c07.oracle(case, 16)"}, **f2[2]), True)
        ref = info.get("ref", {})
        n = info["n"]
        xs = [list(x) for x in sorted(ref)[:4]]
        xs += [[0] * n, [1] * n] + [[rng.randint(0, 1) for _ in range(n)] for _ in range(2)]
        for x in sorted(ref)[:2]:                                 # feasible vectors with one bit flipped
            y = list(x)
            if n:
                y[rng.randrange(n)] ^= 1
                xs.append(y)
        obj, out = S.observe(case, xs)
        cases.append((case, out))
        passed.append(fail is None)
        terms.append(S.case_lit(case, out))
        if info["applicable"]:
            hyp_terms.append((len(cases) - 1, terms[-1]))
            if info.get("strict_applies"):
                strict_terms.append((len(cases) - 1, terms[-1]))
                dist["strict-timing claim applies (strict, harmless depot self-arc)"] += 1
                if info.get("depot_moved_after_arcs"):
                    dist["strict-timing claim applied after set_depot moved the depot over stored arcs"] += 1
                    if info["walks"]:
                        dist["... of which with at least one walk assignment"] += 1
        dist[f"kind={case['kind']}"] += 1
        dist[f"V={case['V']}"] += 1
        dist[f"L={case['L']}"] += 1
        dist[f"N={out['N']}"] += 1
        dist["strict" if case["strict"] else "non-strict"] += 1
        dist["inside the hypotheses (L>=3, depot self-arc)" if info["applicable"] else "outside the hypotheses (correspondence only)"] += 1
        if info["applicable"]:
            dist["all 2^n vectors enumerated" if info["exhaustive"] else "n too large: walk vectors + perturbations"] += 1
            dist["instances with at least one walk assignment" if info["walks"] else "infeasible instances"] += 1
            dist["non-zero vehicle cost"] += int(any(case["vc"]))
        for x, r in out["dec"]:
            dist["get_routes: " + (r[1] if r[0] == "err" else "returned")] += 1
        ctx.count(evaluations=(2 ** n if info["exhaustive"] else 0) + info["walks"] + len(xs), traces=1)
        key = repr((case["strict"], case["ops0"], case["ops1"], case["V"], case["L"], case["vc"]))
        if key not in seen and info["applicable"] and info["walks"] > 0:
            seen.add(key)
            ctx.count(nontrivial=1)
            one = [list(w) for w in sorted(ref.values())[0]] if ref else None
            ctx.sample({"case": case, "n": n, "walk_assignments": info["walks"], "one": one}, limit=3)
    ctx.cov["input_distribution"] = dict(sorted(dist.items()))
    ctx.cov["rule"] = ("random construction histories of the sequence formulation (graph handed to the constructor, arcs added through "
                       "the object, everything through the object, no depot call, depot moved after arcs), 1-4 customers, windows in 0..8, "
                       "arc density 0.2-1, costs -3..6, V in 0..3, L in 2..5, vehicle costs partly non-zero, strict and non-strict; "
                       "the stream starts with three fixed regression histories of the repaired defect strict/depot-moved-after-arcs; "
                       "non-trivial = distinct instance inside the hypotheses that has at least one walk assignment")
    ctx.assumptions.append("vehicle_cost has max_vehicles entries (set_max_vehicles / make_feasible keep it so); arc keys lie inside the node list (C15)")
    ctx.assumptions.append("strict-timing oracle and theorem: every strict history (depot chosen or moved at any time) whose arc stored under "
                           "(0,0) keeps a waiting vehicle inside the depot window (not: add_arc(depot, depot, t > 0) under a finite depot window)")
    documented_probes(ctx)
    mism, err = ctx.coq_mismatches("seq", S.HEADER, "scase", "check_scase", terms, shard=28)
    if ctx.has_concrete():
        mism = []                 # the breakage is already reported with a concrete failing input
    for idx, tags in mism[:1]:
        case, out = cases[idx]
        model = ctx.coq_eval(S.HEADER, "match " + S.inst_term(case) +
                             " with Ok J => (vars J, constraint_data J, objective_data J) | Err _ => ([], Err OtherError, (0%nat, [], (0%nat, 0%nat), [])) end")
        ctx.violation("correspondence/seq/" + "+".join(S.TAGS.get(t, str(t)).split(" ")[0] for t in tags),
                      "model and implementation disagree on " + ", ".join(S.TAGS.get(t, str(t)) for t in tags) +
                      ("; the property oracle found no failing input on this case" if passed[idx] else ""),
                      {"correspondence": "Seq.check_scase", "case": case, "failing_fields": tags,
                       "implementation": {"var_mapping": out["vars"], "constraint_data": out["con"], "objective_data": out["obj"],
                                          "get_routes": out["dec"]},
                       "model(vars, constraint_data, objective_data)": model}, False)
    # the theorems' hypotheses, evaluated by the model on the instances the oracle treated as inside them
    for tag, checker, sub in (("hyp", "check_hyp_case", hyp_terms), ("strict", "check_strict_case", strict_terms)):
        mm, err = ctx.coq_mismatches(tag, S.HEADER, "scase", checker, [t for _, t in sub], shard=60)
        if ctx.has_concrete() or mism:
            mm = []
        for j, tags in mm[:1]:
            case, out = cases[sub[j][0]]
            ctx.violation(f"hypothesis/seq/{checker}", "an instance the harness treats as inside the theorems' hypotheses fails the model's "
                          f"boolean test of them (tags {tags}: 13 seq_ok, 11 strict_graph, 12 windows_ok)",
                          {"case": case, "checker": "Seq." + checker, "tags": tags}, False)
    if ctx.tier == "thorough":
        ctx.coqchk("VQP.C07")


def replay(ctx, data):
    r = data["replay"]
    case = r["case"]
    for key in ("ops0", "ops1"):
        case[key] = [tuple(o) for o in case[key]]
    print(oracle(case, 16)[0])
