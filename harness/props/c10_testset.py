"""C10 (generator half) -- file names carry the variable count; saved constraint data reproduce the
in-memory violation measures when reloaded.

Proof: coq/props/C10_testset.v (model theories/TestFeas.v): test_feasibility measures (zero iff the
constraints hold, sum(vio_l) = number of violated rows, vio_q = values of the violated stored product
constraints, nnz of a canonical container), spins file written by gen / read by load_spins (text level),
convenience() on written files = in-memory test_feasibility for every save/load pair with load(save d) = d,
file-name fields, composition with C02 / C03 / C09.

Tie (every run; `run_part(ctx)` is called by c10.py, and by c10t.py for stand-alone testing):
 (a) real constraint data (A_eq, b_eq, Q_eq, r_eq) of random arc / path / sequence objects
     (formulation_harness), plus hand-made variants (r_eq != 0, an explicitly stored zero in Q_eq, extra unit
     entries in Q_eq, dense A_eq, a sparse A_eq without rows); feasible vectors (the stored solution of
     make_feasible, brute force), vectors violating only rows / only the quadratic constraint / both.
     For each: test_feasibility in memory; then the STATEMENTS OF gen() THEMSELVES (taken from the source
     of generate_test_set.gen with `ast`: the `name` and `bname` expressions, the export file names, the
     np.savez call and the `with open(sol_path ...)` block that writes the spins -- dead code without CPLEX)
     are executed to write the .npz and .sol files into a scratch directory; load_spins, s_to_x, convenience,
     do_all and print_summary run on those files.  Everything observed is compared inside Coq with the
     model (TestFeas.check_mcase).
 (b) spins texts: known int vectors printed in varying token forms ("1", "1.0", "+1", "-1.", "1.50") and
     layouts (several per line, blank lines, tabs, CRLF), bad tokens, values outside int16:
     real load_spins / s_to_x vs model (TestFeas.check_scase).
 (c) names: gen's `name` / `bname` / file-name expressions evaluated for formulation strings and variable
     counts, do_all's pairing on real files: vs model (TestFeas.check_ncase).
Oracle (no model): measures recomputed with Python ints from the dense data and the stored csr entries;
convenience(files) == in-memory measures; spins read back == 1 - 2x and s_to_x == x; stored feasible
solutions have no violation; int(name.split('_')[2]) == n_vars; do_all finds exactly the written pair."""
import ast
import contextlib
import inspect
import io
import os
import shutil
import tempfile
import textwrap
from fractions import Fraction

import numpy as np

from vq import lit
from vq.core import exc_cls

from props import formulation_harness as fh

HEADER = ("From Coq Require Import ZArith NArith List String Ascii.\n"
          "From VQ Require Import Base LinAlg Penalty Export TestFeas.\nImport ListNotations.\nOpen Scope Z_scope.\n"
          "Definition str (l : list N) : string := fold_right (fun k s => String (ascii_of_N k) s) EmptyString l.")
MAX_N = 10


# --------------------------------------------------------------------------- gen()'s own statements
class GenFragments:
    """Expressions / statements of generate_test_set.gen, compiled from its source."""

    def __init__(self):
        import vrpqubo.generate_test_set as gts
        self.G = dict(vars(gts))
        tree = ast.parse(textwrap.dedent(inspect.getsource(gts.gen)))
        fn = tree.body[0]
        assigns, exports, savez, withs = {}, [], [], []
        for node in ast.walk(fn):
            if isinstance(node, ast.Assign) and len(node.targets) == 1 and isinstance(node.targets[0], ast.Name):
                assigns.setdefault(node.targets[0].id, []).append(node)
            if isinstance(node, ast.Call) and isinstance(node.func, ast.Attribute):
                if node.func.attr == "export" and node.args:
                    exports.append(node)
                if node.func.attr == "savez":
                    savez.append(node)
            if isinstance(node, ast.With):
                withs.append(node)
        missing = [k for k in ("formulations", "name", "bname", "sol_path") if k not in assigns]
        if missing or len(exports) != 2 or len(savez) != 1 or len(withs) != 1:
            raise RuntimeError(f"generate_test_set.gen no longer has the expected statements: missing {missing}, "
                               f"{len(exports)} export calls, {len(savez)} savez calls, {len(withs)} with blocks")
        by_line = lambda nodes: sorted(nodes, key=lambda n: n.lineno)  # noqa
        ev = lambda node: compile(ast.Expression(body=node), "<gen>", "eval")  # noqa
        self.formulations = ast.literal_eval(assigns["formulations"][0].value)
        self.name = ev(assigns["name"][0].value)
        self.bname = [ev(n.value) for n in by_line(assigns["bname"])]
        self.sol_path = ev(assigns["sol_path"][0].value)
        self.exports = [ev(n.args[0]) for n in by_line(exports)]
        self.savez = ev(savez[0])
        self.spins_block = compile(ast.Module(body=[withs[0]], type_ignores=[]), "<gen>", "exec")
        self.src = {"name": ast.unparse(assigns["name"][0]), "bname": [ast.unparse(n) for n in by_line(assigns["bname"])],
                    "spins": ast.unparse(withs[0])}

    def names(self, prefix, form, n_vars):
        """gen's `name`, `bname` (before and after os.path.join) and export file names."""
        env = {"form": form, "prefix": prefix, "n_vars": n_vars}
        env["name"] = eval(self.name, self.G, env)
        steps = []
        for code in self.bname:
            env["bname"] = eval(code, self.G, env)
            steps.append(env["bname"])
        env["rudy"] = [eval(code, self.G, env) for code in self.exports]
        env["bname_steps"] = steps
        return env

    def write(self, prefix, form, n_vars, data, xstar):
        """Run gen's np.savez call and (if xstar is given) its spins-file block."""
        env = self.names(prefix, form, n_vars)
        env.update(A_eq=data[0], b_eq=data[1], Q_eq=data[2], r_eq=data[3])
        eval(self.savez, self.G, env)
        env["npz"] = env["bname"] + ".npz"                 # np.savez appends the extension (library behaviour)
        if xstar is not None:
            env["xstar"] = xstar
            env["sol_path"] = eval(self.sol_path, self.G, env)
            exec(self.spins_block, self.G, env)
        return env


# --------------------------------------------------------------------------- exact views
def fint(v):
    return lit.exact_int(v)


def csr_entries(Q):
    """Stored entries (row, col, value) of a csr container, in storage order (no use of .nnz)."""
    out = []
    for i in range(Q.shape[0]):
        for p in range(int(Q.indptr[i]), int(Q.indptr[i + 1])):
            out.append((i, int(Q.indices[p]), fint(Q.data[p])))
    return out


def dense_int(A):
    arr = A.toarray() if hasattr(A, "toarray") else np.asarray(A)
    return [[fint(v) for v in row] for row in np.asarray(arr).reshape(A.shape).tolist()]


def exact_view(data):
    import scipy.sparse as sp
    A, b, Q, r = data
    return {"A": dense_int(A), "sparse": bool(sp.issparse(A)), "b": [fint(v) for v in np.asarray(b).tolist()],
            "Q": csr_entries(Q), "r": fint(r), "shape": tuple(int(s) for s in A.shape), "qshape": tuple(int(s) for s in Q.shape)}


def expected_measures(x, ev):
    """The property's own meaning of the measures, Python ints only."""
    vl = [sum(a * xi for a, xi in zip(row, x)) != bk for row, bk in zip(ev["A"], ev["b"])]
    vq = sum(v * x[i] * x[j] for (i, j, v) in ev["Q"]) - ev["r"]
    return vl, vq, len(ev["Q"])


def measures_exact(res, scale=1):
    vl, vq, nnz = res
    q = Fraction(float(vq)) * scale
    if q.denominator != 1:
        raise ValueError(f"vio_q = {vq!r} is not a multiple of 1/{scale}")
    return [bool(v) for v in np.asarray(vl).tolist()], int(q), int(nnz)


def summary_of(res):
    from vrpqubo.test_feasibility import print_summary
    buf = io.StringIO()
    with contextlib.redirect_stdout(buf):
        print_summary(*res)
    return buf.getvalue().split("\n")[:-1]


# --------------------------------------------------------------------------- (a) measures
def classify(ev, n):
    """All 2^n vectors by kind: 0 feasible, 1 rows only, 2 quadratic only, 3 both."""
    X = fh.all_binary(n)
    A = np.array(ev["A"], dtype=np.int64).reshape(len(ev["b"]), n)
    b = np.array(ev["b"], dtype=np.int64)
    Qd = np.zeros((n, n), dtype=np.int64)
    for i, j, v in ev["Q"]:
        Qd[i, j] += v
    lin = ((X @ A.T - b[None, :]) != 0).any(axis=1) if len(b) else np.zeros(len(X), dtype=bool)
    quad = (((X @ Qd) * X).sum(axis=1) - ev["r"]) != 0
    return X, lin.astype(int) + 2 * quad.astype(int)


def variants(rng, data, n):
    """(tag, data) list: the generator's data and hand-made changes of it."""
    import scipy.sparse as sp
    A, b, Q, r = data
    out = [("gen", data)]
    k = rng.random()
    if k < 0.55:
        out.append(("r", (A, b, Q, rng.choice([1, 2, -1, 3]))))
    if k > 0.3 and n >= 2:
        # extra unit product constraints and one explicitly stored zero, canonical otherwise
        ent = {(i, j): v for (i, j, v) in csr_entries(Q)}
        for _ in range(rng.randint(1, 3)):
            ent[(rng.randrange(n), rng.randrange(n))] = rng.choice([1, 1, 2])
        free = [(i, j) for i in range(n) for j in range(n) if (i, j) not in ent]
        zero = bool(free) and rng.random() < 0.6
        if zero:
            ent[rng.choice(free)] = 0
        keys = sorted(ent)
        indptr = [0]
        for i in range(n):
            indptr.append(indptr[-1] + sum(1 for kk in keys if kk[0] == i))
        Q2 = sp.csr_array((np.array([float(ent[kk]) for kk in keys]), np.array([kk[1] for kk in keys], dtype=np.int32),
                           np.array(indptr, dtype=np.int32)), shape=(n, n))
        out.append(("Qzero" if zero else "Qextra", (A, b, Q2, r if rng.random() < 0.7 else 1)))
    if sp.issparse(A) and rng.random() < 0.25:
        out.append(("denseA", (A.toarray(), b, Q, r)))
    return out


def corner_data():
    """Hand-made data convenience() treats specially: A_eq without rows, sparse / dense, n = 1, 2, 3."""
    import scipy.sparse as sp
    for n in (1, 2, 3):
        for sparse in (True, False):
            A = sp.csr_array((0, n)) if sparse else np.zeros((0, n))
            yield (f"norows/{'sparse' if sparse else 'dense'}/n={n}", (A, np.zeros(0), sp.csr_array((n, n)), 0), n)
    # exactly one / two rows (the unwrapping test of convenience() is `len(b_eq) > 0`)
    for rows, rhs in (([[1, 1]], [1]), ([[1, 0, 1]], [1]), ([[1, 1], [0, 1]], [1, 1]), ([[2, -1, 1]], [1])):
        n = len(rows[0])
        for kind in (sp.csr_array, sp.coo_array):
            Q = sp.csr_array((np.array([1.0]), (np.array([0]), np.array([n - 1]))), shape=(n, n))
            yield (f"rows={len(rows)}/{kind.__name__}/n={n}", (kind(np.array(rows, dtype=float)), np.array(rhs, dtype=float), Q, 0), n)


def observe_mcase(frag, root, idx, form, x, data):
    """One (vector, data) pair through the real code.  Returns the observation dict."""
    from vrpqubo.test_feasibility import convenience, do_all, test_feasibility
    from vrpqubo.tools.load_tools import load_spins
    from vrpqubo.tools.qubo_tools import s_to_x
    casedir = os.path.join(root, f"m{idx}")
    os.mkdir(casedir)
    o = {"x": list(x), "form": form}
    xa = np.asarray(x, dtype=float if idx % 2 else np.int64)
    o["mem_raw"] = test_feasibility(xa, *data)
    o["mem"] = measures_exact(o["mem_raw"])
    o["lines_mem"] = summary_of(o["mem_raw"])
    env = frag.write(casedir, form, len(x), data, [float(v) for v in x])
    o["npz"], o["sol"] = env["npz"], env["sol_path"]
    with open(o["sol"], "rb") as fh_:
        o["bytes"] = fh_.read().decode("latin-1")
    try:
        sp_ = load_spins(o["sol"])
        o["spins"] = ("ok", [int(v) for v in sp_])
        o["x2"] = [fint(2 * v) for v in s_to_x(sp_)]
    except Exception as e:  # noqa
        o["spins"], o["x2"] = ("err", exc_cls(e), f"{type(e).__name__}: {e}"), []
    try:
        conv = convenience(o["npz"], o["sol"])
        o["conv"] = ("ok", measures_exact(conv, 4))
        o["lines_conv"] = summary_of(conv)
    except Exception as e:  # noqa
        o["conv"], o["lines_conv"] = ("err", exc_cls(e), f"{type(e).__name__}: {e}"), []
    try:
        with contextlib.redirect_stdout(io.StringIO()):
            res = do_all(casedir, verbose=False)
        o["do_all"] = ("ok", {k: measures_exact(v, 4) for k, v in res.items()})
    except Exception as e:  # noqa
        o["do_all"] = ("err", exc_cls(e), f"{type(e).__name__}: {e}")
    shutil.rmtree(casedir, ignore_errors=True)
    return o


def oracle_mcase(o, ev, generator_data, stored):
    """Property-level checks on one observation; returns [(signature, message)]."""
    x, n = o["x"], len(o["x"])
    bad = []
    evl, evq, ennz = expected_measures(x, ev)
    vl, vq, nnz = o["mem"]
    if vl != evl:
        bad.append(("oracle/measures/vio_l", f"test_feasibility: vio_l = {vl}, rows with A x != b: {evl}"))
    if vq != evq:
        bad.append(("oracle/measures/vio_q", f"test_feasibility: vio_q = {vq}, x'Qx - r = {evq}"))
    if nnz != ennz:
        bad.append(("oracle/measures/nnz", f"test_feasibility: nnz = {nnz}, stored entries of Q_eq: {ennz}"))
    want_spins = [1 - 2 * v for v in x]
    if o["spins"][0] != "ok" or o["spins"][1] != want_spins:
        bad.append(("oracle/spins-roundtrip", f"spins file {o['bytes']!r} written for x = {x} is read back as {o['spins'][1:]}, "
                                              f"expected {want_spins}"))
    elif o["x2"] != [2 * v for v in x]:
        bad.append(("oracle/spins-roundtrip", f"s_to_x(load_spins(file)) = {[Fraction(v, 2) for v in o['x2']]} != x = {x}"))
    unreadable = ev["sparse"] and not ev["b"] and n >= 2
    if any(sig == "oracle/spins-roundtrip" for sig, _ in bad):
        pass                                              # what convenience computes from a wrong vector is not a second finding
    elif o["conv"][0] == "ok":
        cvl, cvq4, cnnz = o["conv"][1]
        if (cvl, Fraction(cvq4, 4), cnnz) != (vl, Fraction(vq), nnz):
            bad.append(("oracle/reload", f"convenience(files) = ({cvl}, {Fraction(cvq4, 4)}, {cnnz}) but in memory "
                                         f"test_feasibility = ({vl}, {vq}, {nnz})"))
    elif generator_data or not unreadable:
        bad.append(("oracle/reload-raises", f"convenience(files) raised {o['conv'][2]}"))
    key = os.path.basename(o["sol"])
    if o["conv"][0] == "ok":
        if o["do_all"][0] != "ok" or o["do_all"][1] != {key: o["conv"][1]}:
            bad.append(("oracle/do_all", f"do_all(dir) = {o['do_all'][1:]} but the directory holds {os.path.basename(o['npz'])} and "
                                         f"{key} with measures {o['conv'][1]}"))
    if stored and not bad and (any(vl) or vq != 0):
        bad.append(("oracle/stored-solution", f"the solution stored by make_feasible has measures ({sum(vl)} rows, vio_q {vq})"))
    return bad


def coq_string(s):
    return "(str [" + "; ".join(f"{ord(c)}%N" for c in s) + "])"


def strs(ls):
    return lit.lst([coq_string(s) for s in ls])


def zl(v):
    return lit.lst([lit.z(t) for t in v])


def measures_lit(m):
    vl, vq, nnz = m
    return lit.tup(lit.lst([lit.boolean(v) for v in vl]), lit.z(vq), lit.nat(nnz))


def res_lit(r, f):
    return lit.ok(f(r[1])) if r[0] == "ok" else lit.err(r[1])


def cdata_lit(ev):
    A = lit.lst([zl(row) for row in ev["A"]])
    Q = lit.lst([lit.tup(lit.nat(i), lit.nat(j), lit.z(v)) for (i, j, v) in ev["Q"]])
    return f"(mkCdata {A} {lit.boolean(ev['sparse'])} {zl(ev['b'])} {Q} {lit.z(ev['r'])})"


def mcase_lit(o, ev):
    obs = lit.tup(measures_lit(o["mem"]), coq_string(o["bytes"]), res_lit(o["spins"], zl), zl(o["x2"]),
                  res_lit(o["conv"], measures_lit), strs(o["lines_mem"]), strs(o["lines_conv"]))
    return lit.tup(zl(o["x"]), cdata_lit(ev), obs)


def mcase_json(o, ev, tag, desc):
    return {"x": o["x"], "A_eq": ev["A"], "A_sparse": ev["sparse"], "b_eq": ev["b"], "Q_eq_stored_entries": ev["Q"],
            "r_eq": ev["r"], "variant": tag, "instance": desc, "spins_file": o["bytes"],
            "in_memory": list(o["mem"]), "load_spins": list(o["spins"]), "convenience_vio_q_in_quarters": list(o["conv"]),
            "python": "props.c10_testset.observe_mcase (np.savez + spins block of generate_test_set.gen, then convenience)"}


# --------------------------------------------------------------------------- (b) spins texts
TOKEN_FORMS = [lambda z: f"{z}", lambda z: f"{z}", lambda z: f"{z}.0", lambda z: f"{z}.", lambda z: f"{z}.00",
               lambda z: f"{z}.50", lambda z: (f"+{z}" if z >= 0 else f"{z}"), lambda z: (f"00{z}" if z >= 0 else f"-0{-z}"),
               lambda z: f"{z}.123456789"]
SEPARATORS = ["\n", "\n", " ", "  ", "\t", "\n\n", " \n", "\r\n", "\n \n", "\x0b", "\x0c", "\x1c"]
BAD_TOKENS = ["abc", ".", "-", "+", "--1", "1.2.3", "1-", "x1", "1,0"]


def gen_scases(rng, count):
    """(text, expected) with expected = ('ok', values) | ('err', class) known by construction."""
    out = [("", ("ok", [])), ("\n\n", ("ok", [])), ("1\n-1\n1\n", ("ok", [1, -1, 1])), ("1.0 -1.0 1.0", ("ok", [1, -1, 1])),
           ("-1 -1\n1 1\n\n", ("ok", [-1, -1, 1, 1])), ("32767 -32768", ("ok", [32767, -32768])), ("-32767", ("ok", [-32767])),
           ("32768", ("err", "OtherError")), ("1 -32769 1", ("err", "OtherError")), ("40000 abc", ("err", "ValueError")),
           (".5 -.5 0. -0.0", ("ok", [0, 0, 0, 0])), ("1 . 1", ("err", "ValueError"))]
    for _ in range(count):
        n = rng.choice([1, 2, 3, 5, 8, 16])
        kind = rng.random()
        if kind < 0.7:
            vals = [rng.choice([1, -1]) for _ in range(n)]
        else:
            vals = [rng.choice([1, -1, 0, 2, -3, 7, 100, 32767, -32768, -32767, 32766]) for _ in range(n)]
        toks = [rng.choice(TOKEN_FORMS)(z) for z in vals]
        exp = ("ok", list(vals))
        r = rng.random()
        if r < 0.12:
            toks.insert(rng.randrange(len(toks) + 1), rng.choice(BAD_TOKENS))
            exp = ("err", "ValueError")
        elif r < 0.22:
            toks.insert(rng.randrange(len(toks) + 1), rng.choice(["32768", "-32769", "40000", "99999.5", "-70000"]))
            exp = ("err", "OtherError")
        text = rng.choice(["", "", "\n", "  "]) + "".join(t + rng.choice(SEPARATORS) for t in toks[:-1]) + toks[-1] \
            + rng.choice(["", "\n", "\n\n", " ", "\r\n"])
        out.append((text, exp))
    return out


def observe_scase(root, text):
    from vrpqubo.tools.load_tools import load_spins
    from vrpqubo.tools.qubo_tools import s_to_x
    p = os.path.join(root, "spins.txt")
    with open(p, "w", encoding="utf-8", newline="") as fh_:
        fh_.write(text)
    try:
        sp_ = load_spins(p)
        return ("ok", [int(v) for v in sp_]), [fint(2 * v) for v in s_to_x(sp_)]
    except Exception as e:  # noqa
        return ("err", exc_cls(e), f"{type(e).__name__}: {e}"), []


def wrap16(z):
    return (z + 32768) % 65536 - 32768


# --------------------------------------------------------------------------- (c) names
def gen_ncases(rng, frag, count):
    forms = list(frag.formulations) + ["arc_based", "path_based", "sequence_based", "x", "a_b_c", "arc__based", "_lead", "trail_",
                                        ".a_b", "Arc_Based", "a-b_c"]
    out = []
    for form in forms:
        for n in ([0, 7, 10, 119, 496] if form in frag.formulations else [rng.choice([1, 12, 305])]):
            out.append((form, n))
    for _ in range(count):
        out.append((rng.choice(list(frag.formulations)), rng.choice([rng.randrange(0, 20), rng.randrange(20, 5000), rng.randrange(5000, 10 ** 7)])))
    return out


def observe_ncase(frag, root, idx, form, n_vars):
    import scipy.sparse as sp
    from vrpqubo.test_feasibility import do_all
    casedir = os.path.join(root, f"n{idx}")
    os.mkdir(casedir)
    try:
        env = frag.names(casedir, form, n_vars)
    except Exception as e:  # noqa
        shutil.rmtree(casedir, ignore_errors=True)
        return {"name": ("err", exc_cls(e), f"{type(e).__name__}: {e}")}
    base = env["bname_steps"][0]
    o = {"name": ("ok", env["name"]), "bname": base, "joined": env["bname"] == os.path.join(casedir, base)}
    data = (sp.csr_array((1, 1)), np.zeros(1), sp.csr_array((1, 1)), 0)
    env = frag.write(casedir, form, n_vars, data, [1.0])
    o["files"] = [os.path.basename(p) for p in env["rudy"]] + [os.path.basename(env["npz"]), os.path.basename(env["sol_path"])]
    o["listed"] = sorted(os.listdir(casedir))
    with contextlib.redirect_stdout(io.StringIO()):
        o["do_all"] = sorted(do_all(casedir, verbose=False))
    shutil.rmtree(casedir, ignore_errors=True)
    return o


def ncase_lit(form, n, o):
    if o["name"][0] != "ok":
        obs = lit.tup(lit.err(o["name"][1]), coq_string(""), "[]", coq_string(""))
    else:
        sol = o["do_all"][0] if o["do_all"] else ""
        obs = lit.tup(lit.ok(coq_string(o["name"][1])), coq_string(o["bname"]), strs(o["files"]), coq_string(sol))
    return lit.tup(coq_string(form), f"{int(n)}%N", obs)


# --------------------------------------------------------------------------- driver
def smallest(cands):
    return min(cands, key=lambda c: (len(c[0]["x"]), len(c[1]["b"]), len(c[1]["Q"])))


def run_part(ctx):
    # generated model of the test-set half: translated on every run from test_feasibility.py / generate_test_set.py
    import translate_testset as T
    ctx.gen_step("testset", T.translate, "C10_testset_gen",
                 "harness/translate_testset.py (ast -> Gallina printer, A-normal form, for test_feasibility / convenience / do_all / "
                 "print_summary of test_feasibility.py and gen of generate_test_set.py: names resolved to locals, canonical import "
                 "names, builtins, module variables; assignments, tuple unpacking, dict item assignment, if-joins, for loops with "
                 "carried variables and continue / break, with, try / except, f-strings, list comprehension; values, dispatch of "
                 ".dot / np.dot / != / .item / len / sum / int / split / join / os.path.join / splitext and the log of external calls "
                 "are defined in coq/theories/PyTestSet.v; hand-written call sequences in coq/theories/TestSetHand.v)")
    rng = ctx.rng
    try:
        frag = GenFragments()
    except Exception as e:  # noqa
        ctx.tooling_failure("c10-testset/gen-source", f"{type(e).__name__}: {e}")
        return
    root = tempfile.mkdtemp(prefix="vq_c10t_")
    assert not os.path.abspath(root).startswith(("/repo", "/verif/coq"))
    dist = {"instances": {}, "variants": {}, "vector_kinds": {"feasible": 0, "rows_only": 0, "quadratic_only": 0, "both": 0},
            "stored_solutions": 0, "r_nonzero": 0, "explicit_zero": 0, "unreadable_corner": 0, "n": {},
            "generator_data_with_quadratic_entries": 0, "generator_data_quadratic_only_vectors": 0}
    n_inst = 48 if ctx.quick else 400
    mobs, mterms, failures = [], [], {}
    try:
        # ---------------- (a)
        sources = []
        stats = {}
        for case in fh.gen_objects(rng, n_inst, MAX_N, mf_prob=0.75, stats=stats):
            if case["data"] is None:
                continue
            rp, kind = case["rp"], case["kind"]
            form = {"arc": "arc_based", "path": "path_based", "seq": "sequence_based"}[kind]
            try:
                data = rp.get_constraint_data()
            except Exception:  # noqa: C02's subject
                continue
            n = int(rp.get_num_variables())
            stored = None
            if rp.vq_mf == "ok" and getattr(rp, "feasible_solution", None) is not None:
                fs = [fint(v) for v in np.asarray(rp.feasible_solution).tolist()]
                if len(fs) == n:
                    stored = fs
            dist["instances"][kind] = dist["instances"].get(kind, 0) + 1
            sources.append((fh.describe(case), form, n, data, stored, True))
        for tag, data, n in corner_data():
            sources.append(({"hand_made": tag}, "path_based", n, data, None, False))
        idx = 0
        for desc, form, n, data0, stored, real in sources:
            for tag, data in (variants(rng, data0, n) if real else [("corner", data0)]):
                ev = exact_view(data)
                if ev["shape"] != (len(ev["b"]), n) or ev["qshape"] != (n, n):
                    continue                                  # shape consistency is C02's subject
                X, kinds = classify(ev, n)
                picks = []
                if stored is not None and tag == "gen":
                    picks.append((stored, True))
                    dist["stored_solutions"] += 1
                for k in range(4):
                    rows = np.flatnonzero(kinds == k)
                    if len(rows):
                        picks.append(([int(v) for v in X[rows[rng.randrange(len(rows))]]], False))
                for x, is_stored in picks:
                    o = observe_mcase(frag, root, idx, form, x, data)
                    idx += 1
                    generator_data = real and tag == "gen"
                    for sig, msg in oracle_mcase(o, ev, generator_data, is_stored):
                        failures.setdefault(sig, []).append((o, ev, tag, desc, msg))
                    kd = int(kinds[int("".join(map(str, x)), 2)]) if n else 0
                    dist["vector_kinds"][["feasible", "rows_only", "quadratic_only", "both"][kd]] += 1
                    dist["variants"][tag] = dist["variants"].get(tag, 0) + 1
                    dist["n"][n] = dist["n"].get(n, 0) + 1
                    dist["r_nonzero"] += ev["r"] != 0
                    dist["generator_data_with_quadratic_entries"] += generator_data and bool(ev["Q"])
                    dist["generator_data_quadratic_only_vectors"] += generator_data and kd == 2
                    dist["explicit_zero"] += any(v == 0 for (_, _, v) in ev["Q"])
                    dist["unreadable_corner"] += o["conv"][0] == "err"
                    mobs.append((o, ev, tag, desc))
                    mterms.append(mcase_lit(o, ev))
                    if kd != 0 or ev["Q"]:
                        ctx.count(nontrivial=1)
        ctx.count(evaluations=len(mobs), traces=len(mobs))
        for sig, cands in failures.items():
            o, ev, tag, desc, msg = smallest(cands)
            ctx.violation(sig, msg, mcase_json(o, ev, tag, desc), True)
        for k in ("feasible", "rows_only", "quadratic_only", "both"):
            if dist["vector_kinds"][k] == 0:
                ctx.tooling_failure("c10-testset/coverage", f"no vector of kind {k} was generated")
        for k in ("stored_solutions", "r_nonzero", "explicit_zero", "unreadable_corner", "generator_data_with_quadratic_entries",
                  "generator_data_quadratic_only_vectors"):
            if dist[k] == 0:
                ctx.tooling_failure("c10-testset/coverage", f"no case of kind {k} was generated")

        # ---------------- (b)
        scases = gen_scases(rng, 110 if ctx.quick else 1500)
        sobs, sterms, sfail = [], [], {}
        for text, exp in scases:
            got, x2 = observe_scase(root, text)
            if got[:2] != exp[:2]:
                sfail.setdefault("oracle/spin-text", []).append((text, f"load_spins on {text!r} gives {got}, expected {exp}"))
            elif got[0] == "ok" and x2 != [wrap16(1 - s) for s in got[1]] and "oracle/spins-roundtrip" not in failures:
                sfail.setdefault("oracle/s_to_x", []).append((text, f"s_to_x({got[1]}) = {[Fraction(v, 2) for v in x2]}"))
            sobs.append((text, got, x2))
            sterms.append(lit.tup(coq_string(text), res_lit(got, zl), zl(x2)))
        for sig, cands in sfail.items():
            text, msg = min(cands, key=lambda c: len(c[0]))
            ctx.violation(sig, msg, {"spins_file": text, "python": "vrpqubo.tools.load_tools.load_spins on a file with this content"}, True)
        dist["spin_texts"] = {"total": len(scases), "fractional_tokens": sum("." in t for t, _ in scases),
                              "errors_expected": sum(e[0] == "err" for _, e in scases),
                              "several_per_line": sum((" " in t or "\t" in t) for t, _ in scases)}
        ctx.count(evaluations=len(scases), nontrivial=sum(("." in t or " " in t) for t, _ in scases))

        # ---------------- (c)
        ncases = gen_ncases(rng, frag, 12 if ctx.quick else 200)
        nobs, nterms, nfail = [], [], {}
        for k, (form, n_vars) in enumerate(ncases):
            o = observe_ncase(frag, root, k, form, n_vars)
            nobs.append((form, n_vars, o))
            nterms.append(ncase_lit(form, n_vars, o))
            if o["name"][0] != "ok":
                if form in frag.formulations:
                    nfail.setdefault("oracle/name", []).append((form, n_vars, f"gen's name expression raises {o['name'][2]} for {form!r}"))
                continue
            problems = []
            for f in o["files"]:
                fields = f.split("_")
                if "_" not in o["name"][1] and (len(fields) < 4 or not fields[2].isdigit() or int(fields[2]) != n_vars):
                    problems.append(f"file name {f!r} does not carry the variable count {n_vars}")
            if not o["joined"]:
                problems.append("bname is not os.path.join(prefix, <base name>)")
            if o["listed"] != sorted(o["files"][2:]):
                problems.append(f"np.savez / the spins block wrote {o['listed']}, expected {sorted(o['files'][2:])}")
            if o["do_all"] != [o["files"][3]]:
                problems.append(f"do_all pairs {o['files'][2]!r} with {o['do_all']} instead of {o['files'][3]!r}")
            if form in frag.formulations and o["name"][1] != "".join(w[0] for w in form.split("_")):
                problems.append(f"name {o['name'][1]!r} is not the initials of {form!r}")
            for msg in problems:
                nfail.setdefault("oracle/name", []).append((form, n_vars, msg))
        for sig, cands in nfail.items():
            form, n_vars, msg = cands[0]
            ctx.violation(sig, msg, {"form": form, "n_vars": n_vars, "gen_source": frag.src,
                                     "python": "props.c10_testset.observe_ncase"}, True)
        dist["names"] = {"total": len(ncases), "formulations_in_gen": list(frag.formulations),
                         "name_raises": sum(o["name"][0] != "ok" for _, _, o in nobs)}
        ctx.count(evaluations=len(ncases), nontrivial=sum(o["name"][0] == "ok" for _, _, o in nobs))
    finally:
        shutil.rmtree(root, ignore_errors=True)

    dist["generator_stats"] = stats
    # call run_part AFTER the caller has assigned its own cov["input_distribution"] / cov["rule"] (they are extended, not replaced)
    ctx.cov["testset_input_distribution"] = dist
    ctx.cov.setdefault("input_distribution", {})
    if isinstance(ctx.cov["input_distribution"], dict):
        ctx.cov["input_distribution"]["testset"] = dist
    rule = ("testset: constraint data of random arc/path/sequence objects (n <= 10) and hand-made variants, vectors of every "
            "violation kind, written with gen's own statements and read back with convenience/do_all; non-trivial = a vector "
            "with a violation or data with stored quadratic entries; spins texts with fractional tokens / several per line; "
            "names for which gen's name expression succeeds")
    ctx.cov["rule"] = (ctx.cov.get("rule", "") + " | " + rule) if ctx.cov.get("rule") else rule
    ctx.assumptions.append("testset: np.savez / np.load (pickled sparse objects) are a save/load oracle pair with load(save d) = d; "
                           "shapes of the saved data are consistent (C02); Q_eq is a csr container; tokens of spins files are "
                           "[+-]digits[.digits] (no exponents, inf, nan, underscores, non-ASCII blanks)")
    for o, ev, tag, desc in mobs[5:8]:
        ctx.sample({"testset_case": {k: v for k, v in mcase_json(o, ev, tag, desc).items() if k != "instance"}})

    # ---------------- correspondence inside Coq (each list ends with a planted wrong case)
    def canary_and_run(tag, ctype, checker, terms, wrong):
        terms = list(terms) + [wrong]
        mism, err = ctx.coq_mismatches(tag, HEADER, ctype, checker, terms, shard=150)
        if err is None and not any(i == len(terms) - 1 for i, _ in mism):
            ctx.tooling_failure(f"correspondence/{tag}", "the planted wrong case was not reported")
        return [(i, t) for i, t in mism if i != len(terms) - 1], err

    if mobs:
        o, ev, tag, desc = mobs[0]
        wrong = dict(o, mem=(o["mem"][0], o["mem"][1] + 1, o["mem"][2]))
        mism, _ = canary_and_run("tsm", "mcase", "check_mcase", mterms, mcase_lit(wrong, ev))
        doc = ("1 vio_l 2 vio_q 3 nnz (in memory) 4 bytes of the spins file 5 load_spins 6 2*s_to_x 7 convenience "
               "8 print_summary in memory 9 print_summary of convenience")
        for i, tags in mism[:3]:
            o, ev, tag, desc = mobs[i]
            model = ctx.coq_eval(HEADER, f"let d := {cdata_lit(ev)} in let x := {zl(o['x'])} in "
                                         "(test_feasibility x (cA d) (cb d) (cQ d) (cr d), sol_bytes x, "
                                         "convenience (fun d' : cdata => d') d (sol_bytes x))")
            ctx.violation(f"correspondence/testset/measures/tags{tags}", "model and implementation disagree on test_feasibility / the spins "
                          "file / convenience; the property oracle did not fail on this input",
                          dict(mcase_json(o, ev, tag, desc), correspondence="TestFeas.check_mcase", fields=doc, tags=tags, model=model), False)
    text, got, x2 = sobs[2]
    mism, _ = canary_and_run("tss", "scase", "check_scase", sterms, lit.tup(coq_string(text), res_lit(("ok", [1, 1, 1]), zl), zl(x2)))
    for i, tags in mism[:3]:
        text, got, x2 = sobs[i]
        model = ctx.coq_eval(HEADER, f"load_spins {coq_string(text)}")
        ctx.violation(f"correspondence/testset/spins/tags{tags}", "model and implementation disagree on load_spins / s_to_x",
                      {"correspondence": "TestFeas.check_scase", "fields": "1 load_spins 2 2*s_to_x", "tags": tags, "spins_file": text,
                       "load_spins": list(got), "twice_s_to_x": x2, "model": model}, False)
    form, n_vars, o = next(c for c in nobs if c[2]["name"][0] == "ok")
    wrong = dict(o, bname=o["bname"] + "x")
    mism, _ = canary_and_run("tsn", "ncase", "check_ncase", nterms, ncase_lit(form, n_vars, wrong))
    for i, tags in mism[:3]:
        form, n_vars, o = nobs[i]
        model = ctx.coq_eval(HEADER, f"(initials {coq_string(form)}, bname {coq_string(o['name'][1] if o['name'][0] == 'ok' else '')} {int(n_vars)}%N)")
        ctx.violation(f"correspondence/testset/names/tags{tags}", "model and implementation disagree on the file names",
                      {"correspondence": "TestFeas.check_ncase", "fields": "1 name 2 bname 3 file names 4 do_all pairing", "tags": tags,
                       "form": form, "n_vars": n_vars, "observed": {k: v for k, v in o.items()}, "gen_source": frag.src, "model": model}, False)


def replay_part(ctx, data):
    r = data["replay"]
    root = tempfile.mkdtemp(prefix="vq_c10t_")
    try:
        if "A_eq" in r:
            import scipy.sparse as sp
            n = len(r["x"])
            A = np.array(r["A_eq"], dtype=float).reshape(len(r["b_eq"]), n)
            A = sp.csr_array(A) if r["A_sparse"] else A
            ent = r["Q_eq_stored_entries"]
            keys = sorted((i, j) for i, j, _ in ent)
            val = {(i, j): v for i, j, v in ent}
            indptr = [0]
            for i in range(n):
                indptr.append(indptr[-1] + sum(1 for k in keys if k[0] == i))
            Q = sp.csr_array((np.array([float(val[k]) for k in keys]), np.array([k[1] for k in keys], dtype=np.int32),
                              np.array(indptr, dtype=np.int32)), shape=(n, n))
            data_ = (A, np.array(r["b_eq"], dtype=float), Q, r["r_eq"])
            o = observe_mcase(GenFragments(), root, 0, "path_based", r["x"], data_)
            ev = exact_view(data_)
            print({"in_memory": o["mem"], "spins_file": o["bytes"], "load_spins": o["spins"], "convenience_quarters": o["conv"],
                   "oracle": oracle_mcase(o, ev, r.get("variant") == "gen", False)})
        elif "spins_file" in r:
            print(observe_scase(root, r["spins_file"]))
        elif "form" in r:
            print(observe_ncase(GenFragments(), root, 0, r["form"], r["n_vars"]))
    finally:
        shutil.rmtree(root, ignore_errors=True)
