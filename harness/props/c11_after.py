"""C11, extra stream: the visit windows stay what add_nodes computed when the formulations are requested.

C11 speaks about the windows of the generated visit nodes; the formulations a user obtains from the MIRP
(get_arc_based / get_path_based / get_sequence_based) must carry exactly those windows, and requesting them must
not alter the MIRP's own nodes.  Inputs are dyadic floats (exact arithmetic), including ports whose windows lie
strictly between two integers (no integer time point fits: the arc-based getter is tempted to "repair" them).
(Seeded change C11_e widens such windows in place inside get_arc_based.)"""
from fractions import Fraction as F


def _windows(graph):
    return {n.name: (float(n.time_window[0]), float(n.time_window[1])) for n in graph.nodes}


def _expected(size, ports, horizon):
    """Windows from the closed forms (exact rationals), per visit name."""
    out = {}
    for name, init, rate, cap in ports:
        size_, init_, rate_, cap_ = F(size), F(init), F(rate), F(cap)
        k = 0
        while k < 64:
            if rate_ > 0:
                a = (size_ * (k + 1) - init_) / rate_
                b = (cap_ + size_ * k - init_) / rate_
            else:
                a = (cap_ - init_ - size_ * (k + 1)) / rate_
                b = (-init_ - size_ * k) / rate_
            a = max(a, F(0))
            if b > F(horizon):
                break
            out[f"{name}-{k}"] = (float(a), float(b))
            k += 1
    return out


FAMILIES = [
    # (cargo size, horizon, ports [(name, init, rate, cap)], distance, entry limit)
    (1.0, 3.0, [("S1", 0.75, 1.0, 1.5), ("D1", 0.75, -1.0, 1.5)], 0.5, 3.0),          # windows (k+1/4, k+3/4)
    (1.0, 4.5, [("S1", 0.5, 0.5, 1.25), ("D1", 1.0, -0.5, 1.25)], 1.0, 4.0),            # windows with half-integer ends
    (2.0, 9.0, [("S1", 0.0, 1.0, 3.0), ("S2", 1.0, 0.5, 2.5), ("D1", 3.0, -1.0, 3.0)], 1.5, 6.0),
    (1.0, 6.0, [("S1", 0.5, 0.25, 1.5), ("D1", 1.25, -0.25, 1.5), ("D2", 1.5, -0.25, 1.5)], 1.0, 5.0),
]


def run_stream(ctx):
    from vrpqubo.applications.mirp import MIRP
    done = 0
    for size, horizon, ports, dist, limit in FAMILIES:
        def make():
            m = MIRP(cargo_size=size, time_horizon=horizon)
            for p in ports:
                m.add_nodes(*p)
            sup = {p[0]: 1.0 for p in ports if p[2] > 0}
            dem = {p[0]: 2.0 for p in ports if p[2] < 0}
            m.add_travel_arcs(lambda a, b: dist, 1.0, 1.0, sup, dem)
            m.add_exit_arcs()
            m.add_entry_arcs(time_limit=limit)
            return m
        want = _expected(size, ports, horizon)
        for getter in ("get_arc_based", "get_path_based", "get_sequence_based"):
            m = make()
            before = _windows(m.vrptw)
            visits = {k: v for k, v in before.items() if k in want or "-" in k}
            if visits != want:
                ctx.violation("oracle/windows/closed-form", f"add_nodes windows {visits} differ from the closed forms {want}",
                              {"input": {"cargo_size": size, "time_horizon": horizon, "ports": ports}}, True)
                break
            raised = None
            rp = None
            try:
                rp = getattr(m, getter)()
            except Exception as e:  # noqa: the heuristic inside a getter may raise loudly; the windows must be untouched anyway
                raised = type(e).__name__
            done += 1
            after = _windows(m.vrptw)
            replay = {"input": {"cargo_size": size, "time_horizon": horizon, "ports": ports, "distance": dist, "entry_limit": limit},
                      "call": getter, "raised": raised,
                      "python": "build the MIRP as props/c11_after.py FAMILIES describes, call the getter, compare node windows"}
            if after != before:
                bad = sorted(k for k in before if after.get(k) != before[k])
                ctx.violation("oracle/windows/changed-by-getter",
                              f"{getter}() changed the windows of the MIRP's own nodes {bad}: {[before[k] for k in bad]} -> {[after.get(k) for k in bad]}"
                              + (f" (the call raised {raised})" if raised else ""), replay, True)
                break
            if rp is not None:
                got = _windows(rp.vrptw)
                bad = sorted(k for k in want if got.get(k) != want[k])
                if bad:
                    ctx.violation("oracle/windows/formulation-copy",
                                  f"the formulation returned by {getter}() carries windows {[got.get(k) for k in bad]} for visits {bad}, "
                                  f"add_nodes computed {[want[k] for k in bad]}", replay, True)
                    break
    ctx.count(evaluations=done, traces=done)
    return done
