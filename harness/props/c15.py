"""C15 -- VRPTW graph stays self-consistent under any construction order.

Proof: coq/props/C15.v (invariant by induction over histories).
Tie: random histories are run on the real VRPTW / SequenceBasedRoutingProblem and on the
Gallina model; Coq compares the full graph state after every call.
Oracle: the property's own predicate evaluated on the real objects (random histories and
all short histories over a small alphabet)."""
import itertools
import math

from vq import lit
from vq.core import exc_cls

HEADER = "From VQ Require Import Base Vrptw."
NAMES = ["A", "B", "C", "D", "E"]
CODE = {n: 10 + i for i, n in enumerate(NAMES)}
INF = float("inf")


def make(cls):
    if cls == "base":
        from vrpqubo.routing_problem.vrptw import VRPTW
        return VRPTW()
    from vrpqubo.routing_problem.formulations.sequence_based_rp import SequenceBasedRoutingProblem
    return SequenceBasedRoutingProblem(strict=(cls == "seq_strict"))


def graph_of(obj):
    return obj if hasattr(obj, "depot_index") and not hasattr(obj, "vrptw") else obj.vrptw


def snapshot(obj):
    g = graph_of(obj)
    names = list(g.node_names)
    nodes = [(n.name, n.demand, n.time_window[0], n.time_window[1]) for n in g.nodes]
    arcs = [((i, j), (a.origin.name, a.destination.name, a.travel_time, a.cost))
            for (i, j), a in g.arcs.items()]
    return names, nodes, arcs


def apply(obj, op):
    """Return ('ok', value) or ('err', class)."""
    try:
        if op[0] == "node":
            r = obj.add_node(op[1], op[2], (op[3], op[4]))
        elif op[0] == "arc":
            r = obj.add_arc(op[1], op[2], op[3], op[4])
        else:
            r = obj.set_depot(op[1])
        return ("ok", r)
    except Exception as e:  # noqa
        return ("err", exc_cls(e))


def run_impl(cls, ops):
    obj = make(cls)
    out = []
    for op in ops:
        r = apply(obj, op)
        out.append((snapshot(obj), r))
    return out


# ---------------- direct oracle on the implementation ----------------
def oracle(cls, ops):
    """Return None if the property holds along the history, else a description."""
    obj = make(cls)
    g = graph_of(obj)
    depot = None
    for k, op in enumerate(ops):
        before = snapshot(obj)
        ids_before = [id(n) for n in g.nodes]
        r = apply(obj, op)
        g = graph_of(obj)
        after = snapshot(obj)
        names, nodes, arcs = after
        where = f"after op {k} {op}"
        if len(set(names)) != len(names):
            return f"{where}: node names not unique: {names}"
        if [n[0] for n in nodes] != names:
            return f"{where}: names {names} not aligned with nodes {[n[0] for n in nodes]}"
        for n in nodes:
            if n[2] > n[3]:
                return f"{where}: inverted window stored {n}"
        if r[0] == "err":
            if r[1] != "ValueError":
                return f"{where}: raised {r[1]}, expected ValueError"
            if after != before:
                return f"{where}: raised but graph changed"
        if op[0] == "depot" and r[0] == "ok":
            depot = op[1]
        if depot is not None and names[0] != depot:
            return f"{where}: chosen depot {depot} is not first: {names}"
        for (i, j), a in g.arcs.items():
            if not (0 <= i < len(g.nodes) and 0 <= j < len(g.nodes)):
                return f"{where}: arc key {(i, j)} out of range"
            if g.nodes[i] is not a.origin or g.nodes[j] is not a.destination:
                return (f"{where}: arc {a.origin.name}->{a.destination.name} filed under "
                        f"({g.node_names[i]},{g.node_names[j]})")
            if not a.origin.time_window[0] + a.travel_time <= a.destination.time_window[1]:
                return f"{where}: stored arc {a.origin.name}->{a.destination.name} violates timing filter"
        # expected outcome of the call
        bn = [n[0] for n in before[1]]
        if op[0] == "node":
            should_fail = op[1] in bn or op[3] > op[4]
            if should_fail != (r[0] == "err"):
                return f"{where}: add_node outcome {r}, expected error={should_fail}"
            if not should_fail and after[1] != before[1] + [(op[1], op[2], op[3], op[4])]:
                return f"{where}: add_node did not append exactly the new node"
        elif op[0] == "arc":
            should_fail = op[1] not in bn or op[2] not in bn
            if should_fail != (r[0] == "err"):
                return f"{where}: add_arc outcome {r}, expected error={should_fail}"
            if not should_fail:
                i, j = bn.index(op[1]), bn.index(op[2])
                no, nd = before[1][i], before[1][j]
                if cls == "seq_strict" and i != 0:
                    rule = no[3] + op[3] <= nd[3]
                else:
                    rule = no[2] + op[3] <= nd[3]
                stored = dict(after[2]).get((i, j)) == (op[1], op[2], op[3], op[4])
                if r[1] is not rule:
                    return f"{where}: add_arc returned {r[1]}, timing rule says {rule}"
                if rule and not stored:
                    return f"{where}: add_arc reported success but arc is not stored under {(i, j)}"
                if not rule and after != before:
                    return f"{where}: add_arc reported failure but graph changed"
                if rule:
                    others_b = [x for x in before[2] if x[0] != (i, j)]
                    others_a = [x for x in after[2] if x[0] != (i, j)]
                    if others_a != others_b or after[:2] != before[:2]:
                        return f"{where}: add_arc changed something besides arc {(i, j)}"
        else:
            should_fail = op[1] not in bn
            if should_fail != (r[0] == "err"):
                return f"{where}: set_depot outcome {r}, expected error={should_fail}"
            if not should_fail:
                if sorted(map(repr, after[1])) != sorted(map(repr, before[1])):
                    return f"{where}: set_depot changed the node set"
                ends_b = sorted((x[1][0], x[1][1], x[1][2], x[1][3]) for x in before[2])
                ends_a = sorted((x[1][0], x[1][1], x[1][2], x[1][3]) for x in after[2]
                                if not (cls != "base" and x[0] == (0, 0)))
                if cls == "base" and ends_a != ends_b:
                    return f"{where}: set_depot changed the arcs' endpoint data"
    return None


# ---------------- generators ----------------
def gen_history(rng, maxlen=14):
    n = rng.randint(1, maxlen)
    ops = []
    present = []
    # one history in five lives far from the clock origin: the timing rule is an exact comparison, also
    # when the times are large and an arrival is late by one unit only
    shift = (1 << rng.choice([17, 20, 24])) if rng.random() < 0.2 else 0
    for _ in range(n):
        k = rng.random()
        if k < 0.35 or not present:
            if present and rng.random() < 0.15:
                nm = rng.choice(present)          # duplicate
            else:
                nm = rng.choice(NAMES[:4])
            lo = shift + (rng.randint(-4, 6) if rng.random() < 0.2 else rng.randint(0, 6))      # windows may open before time zero
            if rng.random() < 0.3:
                hi = INF
            elif rng.random() < 0.12:
                hi = lo - rng.randint(1, 3)       # inverted
            else:
                hi = lo + rng.randint(0, 5)
            ops.append(("node", nm, rng.randint(-3, 3), lo, hi))
            if nm not in present and lo <= hi:
                present.append(nm)
        elif k < 0.8:
            pool = present if rng.random() < 0.9 else NAMES
            o, d = rng.choice(pool), rng.choice(pool)
            ops.append(("arc", o, d, rng.randint(0, 7), rng.randint(-3, 9)))
        else:
            pool = present if rng.random() < 0.9 else NAMES
            ops.append(("depot", rng.choice(pool)))
    return ops


def exhaustive_histories(maxlen):
    alphabet = [("node", "A", 0, 0, 4), ("node", "B", 0, 2, 3), ("node", "C", 0, 1, INF),
                ("arc", "A", "B", 1, 1), ("arc", "B", "C", 2, 1), ("arc", "C", "A", 4, 2), ("arc", "B", "A", 2, 0),
                ("depot", "A"), ("depot", "B"), ("depot", "C")]
    for n in range(1, maxlen + 1):
        yield from itertools.product(alphabet, repeat=n)


# ---------------- Coq literals ----------------
def op_lit(op):
    if op[0] == "node":
        return f"OpAddNode {lit.nat(CODE[op[1]])} {lit.z(op[2])} {lit.z(op[3])} {lit.ext(op[4])}"
    if op[0] == "arc":
        return f"OpAddArc {lit.nat(CODE[op[1]])} {lit.nat(CODE[op[2]])} {lit.z(op[3])} {lit.z(op[4])}"
    return f"OpSetDepot {lit.nat(CODE[op[1]])}"


def obs_lit(o):
    (names, nodes, arcs), r = o
    n = lit.lst([lit.nat(CODE[x]) for x in names])
    nd = lit.lst([lit.tup(lit.nat(CODE[a]), lit.z(b), lit.z(c), lit.ext(d)) for a, b, c, d in nodes])
    ar = lit.lst([lit.pair(lit.pair(lit.nat(k[0]), lit.nat(k[1])),
                           lit.tup(lit.nat(CODE[v[0]]), lit.nat(CODE[v[1]]), lit.z(v[2]), lit.z(v[3])))
                  for k, v in arcs])
    if r[0] == "err":
        rr = lit.err(r[1])
    else:
        rr = lit.ok("None" if r[1] is None else f"(Some {lit.boolean(r[1])})")
    return lit.tup(n, nd, ar, rr)


CLS_LIT = {"base": "Base", "seq": "(Seq false)", "seq_strict": "(Seq true)"}


def case_lit(cls, ops, impl):
    return lit.tup(CLS_LIT[cls], lit.lst([op_lit(o) for o in ops]), lit.lst([obs_lit(o) for o in impl]))


def shrink(cls, ops):
    ops = list(ops)
    changed = True
    while changed:
        changed = False
        for i in range(len(ops)):
            cand = ops[:i] + ops[i + 1:]
            if cand and oracle(cls, cand):
                ops = cand
                changed = True
                break
    return ops


def run(ctx):
    ctx.prove()
    # generated model: the method bodies re-read from the source under test, proved equal to Vrptw.v
    import translate_vrptw as T
    ctx.gen_step("vrptw", T.translate, "C15_gen",
                 "harness/translate_vrptw.py (ast -> Gallina printer for Node/Arc constructors and the add_node / "
                 "get_node_index / add_arc / set_depot / estimate_max_vehicles methods of VRPTW, RoutingProblem "
                 "and SequenceBasedRoutingProblem) with the Python vocabulary of coq/theories/PyVrptw.v")
    from props import pysem; pysem.run(ctx, pysem.GROUPS_FOR.get(ctx.pid, ()))
    rng = ctx.rng
    n_random = 300 if ctx.quick else 20000
    ex_len = 4      # 11 110 histories for the base class, 1 110 for each sequence class
    classes = ["base", "seq", "seq_strict"]
    seen = set()
    kinds = {"node": 0, "arc": 0, "depot": 0, "err": 0, "rekey": 0}

    def report(cls, ops, msg):
        small = shrink(cls, ops)
        msg2 = oracle(cls, small) or msg
        import re
        words = re.sub(r"\([^)]*\)|\[[^\]]*\]|'[^']*'|[^A-Za-z ]", " ", msg2.split(":", 1)[-1]).split()
        cat = "-".join(w for w in words if len(w) > 2 and not (len(w) <= 2 or w in NAMES))[:40]
        ctx.violation(f"oracle/{cat}", msg2,
                      {"class": cls, "history": small, "python": "props.c15.oracle(cls, history)"}, True)

    # 1. exhaustive short histories on the implementation (oracle)
    n_ex = 0
    for cls in classes:
        for ops in exhaustive_histories(ex_len if cls == "base" else ex_len - 1):
            n_ex += 1
            msg = oracle(cls, list(ops))
            if msg:
                report(cls, list(ops), msg)
                break
    ctx.cov["exhaustive_histories"] = n_ex
    ctx.cov["exhaustive_bound"] = f"all histories of length <= {ex_len} (base) / {ex_len - 1} (sequence classes) over a 10-op alphabet"

    # 2. random histories: oracle + correspondence with the model
    cases = []
    terms = []
    for k in range(n_random):
        cls = classes[k % 3]
        ops = gen_history(rng)
        msg = oracle(cls, ops)
        if msg:
            report(cls, ops, msg)
        impl = run_impl(cls, ops)
        cases.append((cls, ops, impl))
        terms.append(case_lit(cls, ops, impl))
        key = repr((cls, ops))
        nontrivial = any(o[0] == "depot" for o in ops) and any(o[0] == "arc" for o in ops)
        if key not in seen and nontrivial:
            seen.add(key)
            ctx.count(nontrivial=1)
        for op, ob in zip(ops, impl):
            kinds[op[0]] += 1
            if ob[1][0] == "err":
                kinds["err"] += 1
        for i, op in enumerate(ops):
            if op[0] == "depot" and any(o[0] == "arc" for o in ops[:i]):
                kinds["rekey"] += 1
                break
    ctx.count(evaluations=n_random + n_ex, traces=n_random)
    ctx.cov["input_distribution"] = kinds
    ctx.cov["rule"] = ("random histories of 1-14 add_node/add_arc/set_depot calls over 4 names (duplicates, unknown names, "
                       "inverted windows, late/repeated depot choice) for VRPTW and both sequence classes, plus all short "
                       "histories over a fixed alphabet; non-trivial = distinct history containing both an arc addition and a depot selection")
    for c in cases[:3]:
        ctx.sample({"class": c[0], "history": c[1]})
    mism, err = ctx.coq_mismatches("hist", HEADER, "gcase", "check_gcase", terms)
    for idx, tags in mism:
        cls, ops, impl = cases[idx]
        if ctx.has_concrete():
            break       # the search already produced a concrete failing input for this breakage
        model = ctx.coq_eval(HEADER, f"map observe (trace {CLS_LIT[cls]} {lit.lst([op_lit(o) for o in ops])} empty_graph)")
        ctx.violation(f"correspondence/{cls}/tags{tags}",
                      f"model and implementation disagree on a history (fields {tags}: 1 names, 2 nodes, 3 arcs, 4 result, 5 length); "
                      "the property oracle found no failing input on it",
                      {"correspondence": "Vrptw.check_gcase", "class": cls, "history": ops,
                       "implementation": [[list(map(list, o[0])), list(o[1])] for o in impl], "model": model}, False)
        break
    if ctx.tier == "thorough":
        ctx.coqchk("VQP.C15")


def replay(ctx, data):
    r = data["replay"]
    print(oracle(r["class"], [tuple(o) for o in r["history"]]))
