"""XQ -- a closed exact-rational number class used to drive the real MIRP code.

The MIRP helper (`get_time_window`, `add_nodes`, `add_travel_arcs`, `add_entry_arcs`,
`add_exit_arcs`) and the VRPTW timing filter are number-generic: they only use + - * /,
unary minus, comparisons (also against `np.inf` and Python ints) and, once, `np.fabs`
(whose object loop calls the `.fabs()` method).  XQ wraps `fractions.Fraction`, returns XQ
from every arithmetic operation (so no float ever appears) and refuses everything else.
"""
import math
from fractions import Fraction


def _fr(x):
    """Exact value of an operand, or None when the operand is +-inf."""
    if isinstance(x, XQ):
        return x.v
    if isinstance(x, bool):
        raise TypeError("bool operand")
    if isinstance(x, (int, Fraction)):
        return Fraction(x)
    if isinstance(x, float):
        if math.isinf(x):
            return None
        if math.isnan(x):
            raise TypeError("nan operand")
        return Fraction(x)          # a finite float is a dyadic rational: exact
    try:                            # numpy scalars
        import numpy as np
        if isinstance(x, np.integer):
            return Fraction(int(x))
        if isinstance(x, np.floating):
            return _fr(float(x))
    except ImportError:             # pragma: no cover
        pass
    raise TypeError(f"XQ: unsupported operand {type(x).__name__}")


class XQ:
    __slots__ = ("v",)

    def __init__(self, num=0, den=1):
        if isinstance(num, XQ):
            num = num.v
        self.v = Fraction(num) / Fraction(den) if den != 1 else Fraction(num)

    # ---- arithmetic (always exact, always XQ) ----
    def _bin(self, other, f):
        o = _fr(other)
        if o is None:
            raise TypeError("XQ: arithmetic with an infinity is not supported")
        return XQ(f(self.v, o))

    def __add__(self, o): return self._bin(o, lambda a, b: a + b)
    def __radd__(self, o): return self._bin(o, lambda a, b: b + a)
    def __sub__(self, o): return self._bin(o, lambda a, b: a - b)
    def __rsub__(self, o): return self._bin(o, lambda a, b: b - a)
    def __mul__(self, o): return self._bin(o, lambda a, b: a * b)
    def __rmul__(self, o): return self._bin(o, lambda a, b: b * a)
    def __truediv__(self, o): return self._bin(o, lambda a, b: a / b)       # ZeroDivisionError when b == 0
    def __rtruediv__(self, o): return self._bin(o, lambda a, b: b / a)
    def __neg__(self): return XQ(-self.v)
    def __pos__(self): return self
    def __abs__(self): return XQ(abs(self.v))
    def fabs(self): return XQ(abs(self.v))       # numpy's object loop for np.fabs

    # ---- comparisons (with XQ, int, Fraction, float incl. +-inf) ----
    def _cmp(self, other, f, vs_pinf, vs_ninf):
        o = _fr(other)
        if o is None:
            return vs_pinf if other > 0 else vs_ninf
        return f(self.v, o)

    def __eq__(self, o):
        try:
            return self._cmp(o, lambda a, b: a == b, False, False)
        except TypeError:
            return NotImplemented
    def __ne__(self, o):
        r = self.__eq__(o)
        return r if r is NotImplemented else not r
    def __lt__(self, o): return self._cmp(o, lambda a, b: a < b, True, False)
    def __le__(self, o): return self._cmp(o, lambda a, b: a <= b, True, False)
    def __gt__(self, o): return self._cmp(o, lambda a, b: a > b, False, True)
    def __ge__(self, o): return self._cmp(o, lambda a, b: a >= b, False, True)

    def __hash__(self): return hash(self.v)
    def __bool__(self): return self.v != 0
    def __float__(self): return float(self.v)
    # a number class must survive whatever numeric coercion the code under test applies
    def __int__(self): return int(self.v)
    def __trunc__(self): return self.v.__trunc__()
    def __floor__(self): return self.v.__floor__()
    def __ceil__(self): return self.v.__ceil__()
    def __round__(self, nd=None): return round(self.v, nd) if nd is not None else round(self.v)
    # numpy hook (added for the MIRP wrappers, C09): np.isinf / np.isnan / np.isfinite have no object
    # loop, so `np.isinf(XQ)` would raise TypeError.  An XQ is always finite.  Every other ufunc is
    # handed back to numpy's own object loop, i.e. behaves exactly as it did without this hook
    # (np.fabs -> .fabs(), np.ceil -> __ceil__, np.floor -> __floor__, arithmetic -> the operators).
    def __array_ufunc__(self, ufunc, method, *inputs, **kwargs):
        import numpy as np
        if method == "__call__" and not kwargs and len(inputs) == 1:
            if ufunc is np.isinf or ufunc is np.isnan:
                return False
            if ufunc is np.isfinite:
                return True
        args = [np.asarray(x, dtype=object) if isinstance(x, XQ) else x for x in inputs]
        r = getattr(ufunc, method)(*args, **kwargs)
        if isinstance(r, np.ndarray) and r.ndim == 0:
            return r[()]
        return r

    def __repr__(self): return f"XQ({self.v})"
    __str__ = __repr__
    def __format__(self, spec): return format(float(self.v), spec) if spec else str(self.v)


def frac(x):
    """Exact Fraction of an XQ / int / Fraction; float('inf') stays as it is."""
    if isinstance(x, XQ):
        return x.v
    if isinstance(x, float) and math.isinf(x):
        return x
    r = _fr(x)
    return r
