"""C08 -- the three formulations agree on the optimum of the same VRPTW.

Proof: coq/props/C08.v (corollaries of C04/C05/C06/C07: path model over all valid routes = route
partition problem; relations for the arc and sequence models as far as their characterisation
theorems are closed).  Tie / search: on random small VRPTWs whose capacity is not binding, the
optimum of an independent route-partition solver (vrptw_ref.py, written from the paper's route
definition) is compared with
  * the path-based model holding every valid route (pool must equal the reference route set),
  * the arc-based model on a complete time grid (constrained optimum by scipy's MILP solver on the
    implementation's own A, b, c; brute force over all 2^n vectors when n is small),
  * the non-strict (<=) and strict (>=) sequence-based models with V = #customers, L = #customers+2
    (constrained optimum by enumerating all walk assignments against the implementation's A, b, R, c, Q),
and with the minimum of each default-penalty QUBO (all 2^n vectors for n <= 20)."""
import itertools
from fractions import Fraction

import numpy as np

from props import vrptw_ref as ref
from vq import lit
from vq.core import exc_cls

INF = float("inf")


# ---------------- instances ----------------
def random_vrptw(rng):
    from vrpqubo.routing_problem.vrptw import VRPTW
    g = VRPTW()
    ncust = rng.choice([1, 2, 2, 3, 3])
    # a third of the instances carry non-zero demands with a vehicle that can serve all customers together (capacity is
    # not binding: C08_capacity_free_nonneg_demands); the others have zero demands
    if rng.random() < 0.35:
        demands = [rng.randint(0, 2) for _ in range(ncust)]
        init = sum(demands) + rng.randint(0, 2)
        cap = init + rng.randint(0, 2)
    else:
        demands, cap, init = [0] * ncust, 5, 0
    g.set_vehicle_cap(cap)
    g.set_initial_loading(init)
    g.add_node("D", 0, (0, INF if rng.random() < 0.5 else rng.randint(3, 9)))
    g.set_depot("D")
    names = ["D"]
    for k in range(ncust):
        lo = rng.randint(0, 4)
        g.add_node(f"c{k+1}", demands[k], (lo, lo + rng.randint(0, 4)))
        names.append(f"c{k+1}")
    dens = rng.choice([0.5, 0.8, 1.0])
    desc = {"nodes": [(n.name, n.demand, n.time_window[0], n.time_window[1]) for n in g.nodes], "arcs": [], "cap": cap, "init": init}
    for a in names:
        for b in names:
            if a == b or rng.random() > dens:
                continue
            tt = rng.randint(1, 3) if (a != "D" and b != "D") else rng.randint(0, 3)
            cost = rng.randint(-3, 6)
            if g.add_arc(a, b, tt, cost):
                desc["arcs"].append((a, b, tt, cost))
    return g, desc


def targeted_vrptw(rng):
    """Deterministic families aimed at the clauses a random draw only meets by luck:
    T1 route costs of both signs that cancel (a penalty computed from the summed costs is too small);
    T2 a depot that closes, a customer reached late over a long first leg and a short way home that passes the lenient arc rule
       but not the strict one (strict feasibility must imply feasibility);
    T3 a customer that can be entered but not left, next to a proper alternative (arc model must not let a vehicle vanish)."""
    from vrpqubo.routing_problem.vrptw import VRPTW
    out = []
    for K in (3, 5):
        for cc in (1, 2):
            out.append({"nodes": [("D", 0, 0, INF), ("c1", 0, 0, 9), ("c2", 0, 0, 9)],
                        "arcs": [("D", "c1", 1, -K), ("c1", "D", 1, 0), ("D", "c2", 1, K), ("c2", "D", 1, 0),
                                 ("c1", "c2", 1, cc), ("c2", "c1", 1, cc)]})
    for (H, lo, hi, t_out, t_back) in ((8, 2, 9, 7, 2), (6, 1, 7, 5, 2), (9, 0, 9, 8, 2), (8, 2, 9, 3, 2)):
        out.append({"nodes": [("D", 0, 0, H), ("c1", 0, lo, hi)], "arcs": [("D", "c1", t_out, 2), ("c1", "D", t_back, 2)]})
        out.append({"nodes": [("D", 0, 0, H), ("c1", 0, lo, hi), ("c2", 0, 0, 4)],
                    "arcs": [("D", "c1", t_out, 2), ("c1", "D", t_back, 2), ("D", "c2", 1, 1), ("c2", "D", 1, 1), ("c2", "c1", t_out, 1)]})
    for extra in (0, 1):
        out.append({"nodes": [("D", 0, 0, INF), ("c1", 0, 0, 4), ("c2", 0, 0, 2 + extra)],
                    "arcs": [("D", "c1", 1, 1), ("c1", "c2", 2, 1), ("D", "c2", 1, 4), ("c2", "D", 1, 4), ("c1", "D", 1, 9)][: 4 + extra]})
    res = []
    for d in out:
        g = VRPTW()
        g.set_vehicle_cap(5)
        g.set_initial_loading(0)
        for nm, dem, lo, hi in d["nodes"]:
            g.add_node(nm, dem, (lo, hi))
        g.set_depot("D")
        kept = [(a, b, tt, c) for (a, b, tt, c) in d["arcs"] if g.add_arc(a, b, tt, c)]
        res.append((g, {"nodes": d["nodes"], "arcs": kept}))
    return res


def rebuild(desc):
    from vrpqubo.routing_problem.vrptw import VRPTW
    g = VRPTW()
    g.set_vehicle_cap(desc.get("cap", 5))
    g.set_initial_loading(desc.get("init", 0))
    for nm, dem, lo, hi in desc["nodes"]:
        g.add_node(nm, dem, (lo, hi))
    g.set_depot(desc["nodes"][0][0])
    for a, b, tt, c in desc["arcs"]:
        g.add_arc(a, b, tt, c)
    return g


# ---------------- correspondence: the instance as the Coq model sees it ----------------
HEADER = "From VQ Require Import Base LinAlg Vrptw Path Penalty Routes."
TAGS = {1: "pool (routes with costs) of the model differs from the implementation's", 2: "depot self-arc present",
        3: "capacity could bind", 4: "depot window does not open at 0", 5: "non-positive customer-customer travel time",
        6: "arc grid incomplete for the model's valid routes", 7: "optimum over the model pool differs from the reference optimum"}


def exact_z(x):
    fr = Fraction(x)
    assert fr.denominator == 1, x
    return lit.z(fr.numerator)


def case_term(desc, cap, init, routes, costs, grid, feas, opt):
    """Gallina literal of type Routes.c08case: the build history (nodes, accepted arcs), what the
    implementation stored, the arc grid, the reference optimum."""
    code = {nm: 10 + k for k, (nm, _, _, _) in enumerate(desc["nodes"])}
    ops = [f"PAddNode {lit.nat(code[nm])} {exact_z(dem)} {exact_z(lo)} {lit.ext(hi if hi == INF else int(hi))}"
           for nm, dem, lo, hi in desc["nodes"]]
    ops += [f"PAddArc {lit.nat(code[a])} {lit.nat(code[b])} {exact_z(tt)} {exact_z(c)}" for a, b, tt, c in desc["arcs"]]
    return lit.tup(exact_z(cap), exact_z(init), lit.lst(ops),
                   lit.lst([lit.lst([lit.nat(i) for i in r]) for r in routes]),
                   lit.lst([exact_z(c) for c in costs]),
                   lit.lst([exact_z(t) for t in grid]),
                   lit.opt(opt if feas else None, exact_z))


# ---------------- helpers ----------------
def all_binary(n):
    r = np.arange(2 ** n, dtype=np.int64)
    return ((r[:, None] >> np.arange(n - 1, -1, -1, dtype=np.int64)[None, :]) & 1).astype(np.float64)


def qubo_min(rp):
    """(min value, one minimiser) of the default-penalty optimisation QUBO over all 2^n vectors."""
    n = rp.get_num_variables()
    # a feasibility-mode request first: the optimisation-mode QUBO must not depend on earlier requests
    rp.get_qubo(feasibility=True)
    Q, k = rp.get_qubo()
    Q = Q.toarray() if hasattr(Q, "toarray") else np.asarray(Q)
    X = all_binary(n)
    vals = np.einsum("ij,jk,ik->i", X, Q, X) + k
    i = int(np.argmin(vals))
    return float(vals[i]), X[i]


def dense(M):
    return M.toarray() if hasattr(M, "toarray") else np.asarray(M)


def constrained_opt_bruteforce(rp):
    n = rp.get_num_variables()
    A, b, R, _ = rp.get_constraint_data()
    c, Qo = rp.get_objective_data()
    A, R, Qo = dense(A), dense(R), dense(Qo)
    X = all_binary(n)
    feas = np.all(X @ A.T == np.asarray(b)[None, :], axis=1) if len(b) else np.ones(len(X), bool)
    feas &= (np.einsum("ij,jk,ik->i", X, R, X) == 0)
    if not feas.any():
        return False, None
    obj = X @ np.asarray(c, dtype=float) + np.einsum("ij,jk,ik->i", X, Qo, X)
    return True, float(obj[feas].min())


def constrained_opt_milp(rp):
    """Linear models only (arc, path): exact optimum of min c x, A x = b, x binary via HiGHS."""
    from scipy.optimize import milp, LinearConstraint, Bounds
    n = rp.get_num_variables()
    A, b, R, _ = rp.get_constraint_data()
    c, _ = rp.get_objective_data()
    A = dense(A)
    if n == 0:
        return (len(b) == 0 or not np.any(np.asarray(b) != 0)), 0.0
    res = milp(np.asarray(c, dtype=float), constraints=LinearConstraint(A, np.asarray(b, float), np.asarray(b, float)),
               integrality=np.ones(n), bounds=Bounds(0, 1))
    if res.status == 2:          # infeasible
        return False, None
    if res.status != 0:
        raise RuntimeError(f"milp status {res.status}: {res.message}")
    x = np.round(res.x)
    return True, float(np.asarray(c, dtype=float) @ x)


def seq_opt_by_walks(rp):
    """Enumerate every assignment of one node per (vehicle, free position); keep those the
    implementation's own constraint data accept; return (feasible, min objective)."""
    n = rp.get_num_variables()
    A, b, R, _ = rp.get_constraint_data()
    c, Qo = rp.get_objective_data()
    A, R, Qo = dense(A), dense(R), dense(Qo)
    V, L, N = rp.max_vehicles, rp.max_sequence_length, len(rp.nodes)
    slots = [(v, s) for v in range(V) for s in range(1, L - 1)]
    best = None
    for choice in itertools.product(range(N), repeat=len(slots)):
        x = np.zeros(n)
        ok = True
        for (v, s), node in zip(slots, choice):
            idx = rp.get_var_index(v, s, node)
            if idx is None:
                if rp.fixed_values[(v, s, node)] != 1.0:
                    ok = False
                    break
            else:
                x[idx] = 1
        if not ok:
            continue
        if len(b) and not np.array_equal(A @ x, np.asarray(b)):
            continue
        if x @ R @ x != 0:
            continue
        val = float(np.asarray(c, float) @ x + x @ Qo @ x)
        if best is None or val < best:
            best = val
    return best is not None, best


def small_crosscheck(ctx, step):
    """The generated call list of examples/small.py against what the real builders do: same nodes, arcs, routes (in order)
    with the costs the Coq model computes, same default grid / high cost / sequence sizes; the exhaustive minimum of the real
    default-penalty path QUBO is the optimum proved in C08_small_gen_optimum (5)."""
    import itertools
    import numpy as np
    try:
        from vrpqubo.examples import small as SM
        import translate_small as TS
        S = TS.Small(__import__("ast").parse(open(__import__("os").path.join(TS._REPO, TS.REL)).read()))
        cap, init, names, ops = S.vrptw()
        routes, grid, high, (V, L) = S.path_based(names), S.arc_based(), S.high_cost(), S.sequence_based()
    except Exception as e:  # noqa: a source the translator rejects is already a deferred obligation
        ctx.cov["small_crosscheck"] = f"skipped: {type(e).__name__}: {e}"
        return
    problems = []
    g = SM.get_vrptw()
    want_nodes = [o[5] for o in ops if o[0] == "node"]
    if list(g.node_names) != want_nodes:
        problems.append(f"get_vrptw() has nodes {list(g.node_names)}, the generated call list adds {want_nodes}")
    pos = {nm: k for k, nm in enumerate(want_nodes)}
    want_arcs = {(pos[o[5]], pos[o[6]]): (o[3], o[4]) for o in ops if o[0] == "arc"}
    got_arcs = {(int(i), int(j)): (a.travel_time, a.cost) for (i, j), a in g.arcs.items()}
    if got_arcs != want_arcs:
        problems.append(f"get_vrptw() stores arcs {sorted(got_arcs.items())}, the generated call list gives {sorted(want_arcs.items())}")
    if (g.vehicle_cap, g.initial_loading) != (cap, init):
        problems.append(f"capacity / initial loading {(g.vehicle_cap, g.initial_loading)} != {(cap, init)}")
    pb = SM.get_path_based()
    want_routes = [[pos[s] for s in r] for r in routes]
    got_routes = [list(map(int, r)) for r in pb.routes]
    it = iter(want_routes)
    if not all(any(r == w for w in it) for r in got_routes):      # stored routes = the listed ones, in order, minus refused ones
        problems.append(f"get_path_based() stores routes {[list(map(int, r)) for r in pb.routes]}, the generated call list gives {want_routes}")
    ab = SM.get_arc_based()
    if [float(t) for t in ab.time_points] != sorted(float(t) for t in grid):
        problems.append(f"default time points {list(ab.time_points)} != sorted {grid}")
    sb = SM.get_sequence_based()
    if (sb.max_vehicles, sb.max_sequence_length) != (V, L) or SM.get_high_cost() != high:
        problems.append(f"sequence sizes / high cost {(sb.max_vehicles, sb.max_sequence_length, SM.get_high_cost())} != {(V, L, high)}")
    # C08 on this instance, judged independently of the generated model: the exhaustive minimum of the real default-penalty
    # QUBO of get_path_based() against the reference route-partition optimum of the real get_vrptw() -- when the listed
    # routes are all its valid routes and capacity does not bind (otherwise the clause does not speak about this pool)
    qubo_problem = None
    try:
        inst = ref.Instance.of_graph(g)
        all_routes = ref.all_valid_routes(inst)
        if not ref.capacity_binding(inst) and sorted(tuple(r[0]) for r in all_routes) == sorted(tuple(r) for r in got_routes) \
                and 0 < pb.get_num_variables() <= 16:
            feas, opt, _w = ref.best_partition(inst, all_routes)
            if feas:
                best, _x = qubo_min(pb)
                ctx.count(evaluations=2 ** int(pb.get_num_variables()))
                if best != opt:
                    qubo_problem = (f"minimum of the default-penalty QUBO of examples.small.get_path_based() is {best}, the optimal "
                                    f"route-partition cost of examples.small.get_vrptw() is {opt}")
    except Exception as e:  # noqa
        qubo_problem = f"the default-penalty QUBO of examples.small.get_path_based() could not be minimised: {type(e).__name__}: {e}"
    ctx.cov["small_crosscheck"] = {"nodes": want_nodes, "arcs": len(want_arcs), "routes": len(want_routes),
                                   "tie_problems": problems, "qubo_problem": qubo_problem}
    # a difference between the generated call list and what the real builders store is a broken TIE (the theorems of
    # C08_small_gen are then not about the code as it runs): deferred, reported as no-failing-input-found unless the run finds
    # a concrete violation
    for msg in problems:
        ctx.defer_violation("generated/small/crosscheck", "examples/small.py: " + msg + " -- the theorems of genprops/C08_small_gen.v "
                            "are not established for the code as it runs", {"python": "props.c08.small_crosscheck"})
    if qubo_problem:
        ctx.violation("oracle/small-example", "examples/small.py: " + qubo_problem, {"python": "props.c08.small_crosscheck"}, True)


def run(ctx):
    ctx.prove()
    # model regenerated from the source: examples/small.py (the instance of test_small.py) as a call list; its pool is
    # proved complete, so the path-based C08 theorems hold for it without hypotheses, and its optimum is proved to be 5
    from props import genreg
    small_step = genreg.steps(ctx, ("small",))[0]
    small_crosscheck(ctx, small_step)
    rng = ctx.rng
    n_inst = 250 if ctx.quick else 1500
    dist = {"instances": 0, "feasible": 0, "infeasible": 0, "skipped_capacity_binding": 0, "customers": {1: 0, 2: 0, 3: 0},
            "qubo_bruteforce": 0, "strict_feasible": 0, "seq_walk_enumerations": 0, "seq_three_customers": 0}
    from vrpqubo.routing_problem import ArcBasedRoutingProblem, PathBasedRoutingProblem, SequenceBasedRoutingProblem
    seen = set()
    corr = []           # (desc, Gallina term) of every instance, for the correspondence step

    def bad(sig, msg, desc, extra=None):
        r = {"instance": desc}
        r.update(extra or {})
        ctx.violation(sig, msg, r, True)

    stream = targeted_vrptw(rng)
    dist["targeted_instances"] = len(stream)
    for k_inst in range(n_inst + len(stream)):
        g, desc = stream[k_inst] if k_inst < len(stream) else random_vrptw(rng)
        inst = ref.Instance.of_graph(g)
        if ref.capacity_binding(inst):
            dist["skipped_capacity_binding"] += 1
            continue
        key = repr(desc)
        dist["instances"] += 1
        if any(nd[1] != 0 for nd in desc["nodes"]):
            dist["nonzero_demands"] = dist.get("nonzero_demands", 0) + 1
        ncust = inst.n - 1
        dist["customers"][ncust] += 1
        routes = ref.all_valid_routes(inst)
        feas, opt, witness = ref.best_partition(inst, routes)
        dist["feasible" if feas else "infeasible"] += 1
        if key not in seen and feas and len(routes) > 1:
            seen.add(key)
            ctx.count(nontrivial=1)
        if dist["instances"] <= 2:
            ctx.sample({"instance": desc, "reference": {"feasible": feas, "optimum": opt, "routes": witness}})

        # ---- path-based model over all valid routes ----
        pb = PathBasedRoutingProblem(rebuild(desc))
        for k in range(1, ncust + 1):
            for perm in itertools.permutations(range(1, inst.n), k):
                pb.add_route([0] + list(perm) + [0])
        pool = sorted(tuple(r) for r in pb.routes)
        if pool != sorted(tuple(r[0]) for r in routes):
            bad("oracle/path/pool", f"path-based pool {pool} differs from the reference set of valid routes", desc)
        if pb.get_num_variables() > 0:
            pf, po = constrained_opt_milp(pb)
        else:
            pf, po = (ncust == 0), 0.0
        if pf != feas or (feas and po != opt):
            bad("oracle/path/optimum", f"path-based optimum {(pf, po)} != route-partition optimum {(feas, opt)}", desc)
        if feas and 0 < pb.get_num_variables() <= 20:
            qv, _ = qubo_min(pb)
            dist["qubo_bruteforce"] += 1
            if qv != opt:
                bad("oracle/path/qubo", f"minimum of the path-based default-penalty QUBO is {qv}, optimal routing cost is {opt}", desc)

        # ---- arc-based model on a complete grid ----
        ab = ArcBasedRoutingProblem(rebuild(desc))
        grid = ref.attainable_times(inst)
        ab.add_time_points(list(grid))
        try:
            af, ao = constrained_opt_milp(ab)
        except Exception as e:  # noqa
            bad("oracle/arc/raises", f"arc-based model raised {exc_cls(e)}: {e}", desc, {"grid": grid})
            af, ao = feas, opt
        corr.append((desc, {"grid": list(grid), "pool": [list(map(int, r)) for r in pb.routes],
                            "costs": [float(c) for c in pb.route_costs], "reference": [feas, opt]},
                     case_term(desc, desc.get("cap", 5), desc.get("init", 0), pb.routes, pb.route_costs, grid, feas, opt)))
        if af != feas or (feas and ao != opt):
            bad("oracle/arc/optimum", f"arc-based optimum on the complete grid {grid} is {(af, ao)}, route-partition optimum is {(feas, opt)}",
                desc, {"grid": grid})
        if feas and 0 < ab.get_num_variables() <= 20:
            qv, _ = qubo_min(ab)
            dist["qubo_bruteforce"] += 1
            if qv != opt:
                bad("oracle/arc/qubo", f"minimum of the arc-based default-penalty QUBO is {qv}, optimal routing cost is {opt}", desc, {"grid": grid})

        # ---- sequence-based models ----
        # walk enumeration for 3 customers costs ~1-2 s per model: budgeted in the thorough tier
        if ncust <= 2 or (not ctx.quick and dist["seq_three_customers"] < 150 and not dist.__setitem__("seq_three_customers", dist["seq_three_customers"] + 1)):
            for strict in (False, True):
                sb = SequenceBasedRoutingProblem(rebuild(desc), strict=strict)
                sb.set_max_vehicles(ncust)
                sb.set_max_sequence_length(ncust + 2)
                sf, so = seq_opt_by_walks(sb)
                dist["seq_walk_enumerations"] += 1
                if not strict:
                    if feas and (not sf or so > opt):
                        bad("oracle/seq/nonstrict-above", f"non-strict sequence optimum {(sf, so)} is not <= the VRPTW optimum {opt}", desc)
                else:
                    dist["strict_feasible"] += int(sf)
                    if sf and not feas:
                        bad("oracle/seq/strict-feasible-only", "strict sequence model is feasible but the VRPTW is not", desc, {"strict_opt": so})
                    if sf and feas and so < opt:
                        bad("oracle/seq/strict-below", f"strict sequence optimum {so} is below the VRPTW optimum {opt}", desc)
                if sf and 0 < sb.get_num_variables() <= 20:
                    qv, _ = qubo_min(sb)
                    dist["qubo_bruteforce"] += 1
                    if qv != so:
                        bad("oracle/seq/qubo", f"minimum of the {'strict' if strict else 'non-strict'} sequence default-penalty QUBO is {qv}, "
                            f"its constrained optimum is {so}", desc)
    # ---- correspondence: the same instances through the Coq model (Routes.check_c08case) ----
    # The model rebuilds the instance (nodes, accepted arcs, add_route on every candidate) and checks inside
    # Coq that its pool and costs are the implementation's, that the decidable hypotheses of C08_path_equiv /
    # C08_arc_equiv / C08_seq_* hold (no depot loop, capacity cannot bind, depot opens at 0, positive
    # customer-customer travel times, complete grid) and that a search over the model pool finds the
    # reference optimum.
    mism, err = ctx.coq_mismatches("inst", HEADER, "c08case", "check_c08case", [t for _, _, t in corr], shard=60)
    dist["correspondence_cases"] = len(corr)
    if err is None:
        for idx, tags in mism[:5]:
            desc, extra, term = corr[idx]
            ctx.violation("correspondence/c08/" + "-".join(str(t) for t in tags),
                          "model and implementation disagree on an instance: " + "; ".join(TAGS.get(t, str(t)) for t in tags),
                          {"instance": desc, "observed": extra, "tags": tags, "case": term}, False)
    ctx.assumptions.append("C08's theorems speak about the Coq models of the three formulations (Path.v, Arc.v, Seq.v); that the "
                           "implementation's A, b, R, c, Q are the models' is the correspondence of C05 / C06 / C07, not repeated here. "
                           "Instances: integer data, zero demands or non-negative demands with initial loading >= their sum and <= capacity (capacity cannot bind), depot window opening at 0, no depot self-arc.")
    ctx.count(evaluations=dist["instances"] * 4)
    ctx.cov["input_distribution"] = dist
    ctx.cov["rule"] = ("random VRPTWs with 1-3 customers (zero demands, or demands 0-2 with a vehicle that can serve all customers together, so capacity never binds; instances where it would are skipped), integer windows, "
                       "positive customer-customer travel times, costs of either sign; non-trivial = distinct feasible instance with more than one valid route")
    if ctx.tier == "thorough":
        ctx.coqchk("VQP.C08")


def replay(ctx, data):
    print(data)
