"""C18 (arc half) -- variable index maps of the arc-based formulation enumerate exactly the admissible
decisions.

Proof: coq/props/C18_arc.v.  Tie: the complete var_mapping (in order), num_variables, get_var_index for
EVERY tuple of nodes x times x nodes x times (times = grid plus off-grid values) and get_var_tuple_index
for every index 0..n+2 of random instances built through the real ArcBasedRoutingProblem are compared,
inside Coq, with the model Arc.v.  Oracle: admissibility is recomputed independently in Python over the
full tuple space and the bijection / inverse laws are checked on the implementation.

`run_part(ctx)` is called by c18.py (and by c18a.py for stand-alone testing)."""
from vq import lit
from vq.core import exc_cls

from props import arc_common as ac


def lookup_times(inst):
    grid = list(inst["grid"])
    extra = [t for t in (-1, 4, 9, 10) if t not in grid][:2]
    return grid + extra


def tuple_space(n, times):
    return [(i, s, j, t) for i in range(n) for s in times for j in range(n) for t in times]


def apply_rebuild(p, inst):
    """RE-ENUMERATION: the object has already enumerated its variables; change the problem through the
    public API and ask for a rebuild.  Returns the grid the object holds afterwards (as given to it)."""
    import numpy as np
    kind, arg = inst["rebuild"]
    grid = list(inst["grid"])
    if inst.get("lookup_first"):                       # first enumeration through a lookup ...
        p.get_var_index(0, grid[0] if grid else 0, 0, grid[0] if grid else 0)
    else:                                              # ... or through the size query
        p.get_num_variables()
    stale = len(p.var_mapping)
    if kind == "make_feasible":
        try:
            p.make_feasible(arg)                       # adds arcs and resets the flags itself
        except Exception:  # noqa  (heuristic failures are C09's subject; the state is compared as it is)
            pass
        grid = [lit.exact_int(t) for t in np.asarray(p.time_points).ravel()]
    else:
        if kind == "add_arc":
            p.add_arc(*arg)
        else:
            p.add_time_points(list(arg))
            grid = list(arg)
        p.variables_enumerated = False
        p.constraints_built = False
        p.objective_built = False
    return grid, stale


def observe(inst):
    """Everything C18 talks about, read off the real object.  inst["lookup_first"]: the tuple lookups are
    the first calls on the fresh object (before any size query), so the call order is varied too.
    inst["rebuild"]: see apply_rebuild; everything is then observed on (and compared with the model of)
    the CHANGED instance."""
    p = ac.build(inst)
    grid = list(inst["grid"])
    stale = None
    if inst.get("rebuild"):
        grid, stale = apply_rebuild(p, inst)
    snap = ac.snapshot(p)
    times = lookup_times({"grid": grid})
    space = tuple_space(len(snap[1]), times)
    if inst.get("lookup_first") and not inst.get("rebuild"):
        idx = [p.get_var_index(*v) for v in space]
        n = p.get_num_variables()
    else:
        n = p.get_num_variables()
        idx = [p.get_var_index(*v) for v in space]
    vm = [ac.tup_py(v) for v in p.var_mapping]
    tups = [p.get_var_tuple_index(k) for k in range(n + 3)]
    tups = [None if v is None else ac.tup_py(v) for v in tups]
    fresh = None
    if not inst.get("rebuild"):
        # the index-to-tuple lookup as the very FIRST call on a fresh object of the same instance
        p2 = ac.build(inst)
        fresh = [p2.get_var_tuple_index(k) for k in range(2)]
        fresh = [None if v is None else ac.tup_py(v) for v in fresh]
    return {"snap": snap, "n": int(n), "vars": vm, "times": times, "space": space, "idx": idx, "tups": tups,
            "grid": grid, "stale": stale, "tups_fresh": fresh}


def oracle(inst, obs=None):
    """None if the property holds on this instance, else a description of the failing clause."""
    try:
        obs = obs or observe(inst)
    except Exception as e:  # noqa
        return f"exception {exc_cls(e)}: {e}"
    snap, grid, n = obs["snap"], list(obs["grid"]), obs["n"]
    if len(set(grid)) != len(grid):
        return None                      # repeated grid values are outside the quantifier
    adm = [v for v in obs["space"] if ac.admissible(snap, grid, v)]
    got = {}
    for v, k in zip(obs["space"], obs["idx"]):
        a = ac.admissible(snap, grid, v)
        if a and k is None:
            return f"admissible tuple {v} has no index"
        if not a and k is not None:
            return f"inadmissible tuple {v} has index {k}"
        if a:
            if not (isinstance(k, int) and 0 <= k < n):
                return f"index {k} of admissible tuple {v} outside 0..{n - 1}"
            if k in got:
                return f"tuples {got[k]} and {v} share index {k}"
            got[k] = v
            if obs["tups"][k] != v:
                return f"get_var_tuple_index({k}) = {obs['tups'][k]} but get_var_index{v} = {k}"
    if n != len(adm):
        return f"num_variables = {n} but there are {len(adm)} admissible tuples"
    for k in range(n):
        v = obs["tups"][k]
        if v is None:
            return f"index {k} < n = {n} maps to nothing"
        if not ac.admissible(snap, grid, v):
            return f"index {k} maps to the inadmissible tuple {v}"
        if got.get(k) != v:
            return f"get_var_index(get_var_tuple_index({k})) != {k}"
    for k in range(n, n + 3):
        if obs["tups"][k] is not None:
            return f"index {k} >= n = {n} maps to {obs['tups'][k]}"
    if obs.get("tups_fresh") is not None and obs["tups_fresh"] != obs["tups"][:2]:
        return (f"get_var_tuple_index as the first call on a fresh object returns {obs['tups_fresh']} for indices 0, 1; "
                f"after a size query it returns {obs['tups'][:2]}")
    return None


def case_lit(inst, obs):
    return lit.tup(ac.graph_lit(obs["snap"]), ac.zlist(obs["grid"]), ac.zlist(obs["times"]),
                   lit.lst([ac.var_lit(v) for v in obs["vars"]]), lit.nat(obs["n"]),
                   lit.lst([lit.opt(k, lit.nat) for k in obs["idx"]]),
                   lit.lst([lit.opt(v, ac.var_lit) for v in obs["tups"]]))


def special_instances():
    """Hand-made edge cases: window ends on grid points, s + tt = t exactly, unsorted grid whose break
    position matters, a window without grid point, a depot self-arc with zero travel time."""
    INF = ac.INF
    out = []
    out.append({"nodes": [("D", 0, 0, INF), ("a", 1, 2, 4)], "depot": "D",
                "arcs": [("D", "a", 2, 1), ("a", "D", 1, 1)], "grid": [5, 0, 4, 2, 3], "pos_cc": True})
    out.append({"nodes": [("D", 0, 0, INF), ("a", 1, 1, 3), ("b", 1, 3, 5)], "depot": "D",
                "arcs": [("D", "a", 1, 1), ("a", "b", 2, 1), ("b", "D", 0, 1), ("D", "D", 0, 0)],
                "grid": [6, 5, 3, 1, 0], "pos_cc": True})
    out.append({"nodes": [("D", 0, 1, 4), ("a", 1, 6, 7)], "depot": "D",
                "arcs": [("D", "a", 0, 1), ("a", "D", 0, 1)], "grid": [4, 1, 5, 8], "pos_cc": True})
    out.append({"nodes": [("a", 1, 2, 2), ("D", 0, 0, 3)], "depot": "D",
                "arcs": [("D", "a", 2, 3), ("a", "D", 1, 4), ("a", "a", 0, 1)], "grid": [3, 2, 0], "pos_cc": False})
    out.append({"nodes": [("D", 0, 0, INF)], "depot": "D", "arcs": [("D", "D", 0, 1)], "grid": [1, 0], "pos_cc": True})
    out.append({"nodes": [("D", 0, 0, INF), ("a", 1, 0, 3)], "depot": "D", "arcs": [], "grid": [2, 1], "pos_cc": True})
    out.append({"nodes": [("D", 0, 0, INF), ("a", 1, 0, 3)], "depot": "D",
                "arcs": [("D", "a", 1, 1), ("a", "D", 1, 1)], "grid": [], "pos_cc": True})
    return out


def run_part(ctx):
    rng = ctx.rng
    n_random = 150 if ctx.quick else 2500
    insts = special_instances()
    for k in range(n_random):
        inst = ac.gen_instance(rng)
        if k % 6 == 5:        # far from the clock origin (times around 2^21 .. 2^24, differences of one unit)
            inst = ac.shift_instance(inst, 1 << rng.choice([21, 22, 24]))
        inst["lookup_first"] = (k % 2 == 0)
        insts.append(inst)
    # RE-ENUMERATION stream: enumerate, change the problem through the public API, rebuild
    n_rebuild = 75 if ctx.quick else 1200
    for k in range(n_rebuild):
        inst = ac.gen_feasible(rng) if k % 3 == 0 else ac.gen_instance(rng)
        inst["lookup_first"] = (k % 2 == 1)
        names = [nd[0] for nd in inst["nodes"]]
        kind = ("make_feasible", "add_arc", "grid")[k % 3]
        if kind == "make_feasible":
            if k % 2 == 0 and inst["arcs"]:          # leave customers unreachable: the heuristic adds arcs
                inst["arcs"] = [a for a in inst["arcs"] if not (a[0] == "D" and rng.random() < 0.6)]
            inst["rebuild"] = ("make_feasible", 50)
        elif kind == "add_arc":
            o, d = rng.choice(names), rng.choice(names)
            inst["rebuild"] = ("add_arc", (o, d, rng.randint(0, 2), rng.randint(0, 9)))
        else:
            inst["rebuild"] = ("grid", ac.gen_grid(rng, inst["nodes"]))
        insts.append(inst)
    # a few grids with repeated values: outside the property's quantifier (a grid is a set), modelled
    # literally and compared with the model only
    for _ in range(6 if ctx.quick else 60):
        inst = ac.gen_instance(rng)
        if inst["grid"]:
            inst["grid"] = inst["grid"] + [rng.choice(inst["grid"])]
            rng.shuffle(inst["grid"])
        insts.append(inst)

    cases, terms = [], []
    dist = {"instances": 0, "unsorted_grid": 0, "repeated_grid_value": 0, "window_end_on_grid": 0,
            "exact_travel_fit": 0, "window_without_grid_point": 0, "zero_travel_arc": 0, "depot_self_arc": 0,
            "finite_depot_window": 0, "no_variables": 0, "lookup_before_size_query": 0,
            "rebuild": {}, "rebuild_changed_var_count": 0, "lookups": 0, "admissible_lookups": 0,
            "by_customers": {}}
    reported = 0
    seen = set()
    for inst in insts:
        try:
            obs = observe(inst)
            msg = oracle(inst, obs)
        except Exception as e:  # noqa
            obs, msg = None, f"exception {exc_cls(e)}: {e}"
        if msg and reported < 3:
            reported += 1
            kind0 = msg.split(" ")[0]
            small = ac.shrink_instance(inst, lambda c: (oracle(c) or "").split(" ")[0] == kind0)
            msg2 = oracle(small) or msg
            sig = "oracle/arc-index/" + ("exception" if msg2.startswith("exception") else msg2.split(" ")[0])
            ctx.violation(sig, "arc-based index maps: " + msg2,
                          {"instance": ac.describe(small), "python": "props.c18_arc.oracle(instance)"}, True)
        if obs is None:
            continue
        cases.append((inst, obs))
        terms.append(case_lit(inst, obs))
        # ---- measured input distribution
        grid = list(obs["grid"])
        snap = obs["snap"]
        dist["instances"] += 1
        if inst.get("rebuild"):
            kind = inst["rebuild"][0]
            dist["rebuild"][kind] = dist["rebuild"].get(kind, 0) + 1
            dist["rebuild_changed_var_count"] += obs["stale"] != obs["n"]
        dist["unsorted_grid"] += grid != sorted(grid)
        dist["repeated_grid_value"] += len(set(grid)) != len(grid)
        ends = [x for nd in snap[1] for x in (nd[2], nd[3])]
        dist["window_end_on_grid"] += any(e in grid for e in ends)
        dist["window_without_grid_point"] += any(not any(nd[2] <= t <= nd[3] for t in grid) for nd in snap[1])
        dist["zero_travel_arc"] += any(a[1][2] == 0 for a in snap[2])
        dist["depot_self_arc"] += any(a[0] == (0, 0) for a in snap[2])
        dist["finite_depot_window"] += snap[1][0][3] != ac.INF
        dist["no_variables"] += obs["n"] == 0
        dist["lookup_before_size_query"] += bool(inst.get("lookup_first"))
        d = dict(snap[2])
        dist["exact_travel_fit"] += any(v[1] + d[(v[0], v[2])][2] == v[3] for v in obs["vars"])
        dist["lookups"] += len(obs["space"]) + obs["n"] + 3
        dist["admissible_lookups"] += sum(k is not None for k in obs["idx"])
        nc = str(len(snap[1]) - 1)
        dist["by_customers"][nc] = dist["by_customers"].get(nc, 0) + 1
        key = repr((snap, grid))
        if key not in seen and obs["n"] > 0 and any(k is None for k in obs["idx"]):
            seen.add(key)
            ctx.count(nontrivial=1)
    ctx.count(evaluations=dist["lookups"], traces=len(cases))
    ctx.cov.setdefault("input_distribution", {})["arc"] = dist
    ctx.cov["rule"] = (ctx.cov.get("rule", "") + " ARC: random instances built through the real ArcBasedRoutingProblem "
                       "(1-4 customers, integer windows 0..8, depot window (0,inf) or finite, arc density 0.2-1, depot and "
                       "customer self-arcs, zero travel times, overwritten arcs, late set_depot; grids unsorted / reversed / "
                       "sparse / complete / with window ends on grid points / missing a customer's window; plus hand-made "
                       "edge cases); every tuple of nodes x (grid + 2 off-grid times) x nodes x (same) is looked up and every "
                       "index 0..n+2; non-trivial = distinct instance with at least one variable and at least one "
                       "inadmissible tuple in the lookup space.  RE-ENUMERATION: on a further stream the object enumerates first, "
                       "is then changed through the public API (make_feasible(50) / add_arc + flags reset / add_time_points + flags "
                       "reset) and the rebuilt maps are compared with the model of the changed instance.").strip()
    for inst, obs in cases[:2] + cases[7:9]:
        ctx.sample({"arc_instance": ac.describe(inst), "num_variables": obs["n"], "var_mapping_head": obs["vars"][:4]})

    # canary: the comparison pipeline must detect a wrong value
    canary = None
    if cases:
        inst0, obs0 = cases[0]
        bad = dict(obs0)
        bad["n"] = obs0["n"] + 1
        canary = len(terms)
        terms.append(case_lit(inst0, bad))
    mism, err = ctx.coq_mismatches("arc", ac.HEADER, "c18case", "check_c18case", terms, shard=40)
    if canary is not None:
        if not err and not any(idx == canary for idx, _ in mism):
            ctx.tooling_failure("correspondence/arc-canary", "a deliberately wrong case was not flagged by the Coq comparison")
        mism = [(i, t) for i, t in mism if i < canary]
    for idx, tags in mism[:1]:
        if ctx.has_concrete():
            break                         # one VIOLATION per breakage: a concrete failing input was reported
        inst, obs = cases[idx]
        msg = oracle(inst, obs)
        if msg:
            continue                      # already reported with the instance as failing input
        I = ac.inst_lit(obs["snap"], obs["grid"])
        model = ctx.coq_eval(ac.HEADER, f"(vars {I}, num_variables {I})")
        ctx.violation(f"correspondence/arc-index/tags{tags}",
                      f"model Arc.v and implementation disagree (fields {tags}: 1 var_mapping, 2 num_variables, "
                      "3 get_var_index over the tuple space, 4 get_var_tuple_index); the property oracle found no "
                      "failing input on this instance",
                      {"correspondence": "Arc.check_c18case", "instance": ac.describe(inst),
                       "implementation": {"var_mapping": obs["vars"], "num_variables": obs["n"]},
                       "model": model}, False)


def replay_part(ctx, data):
    r = data["replay"]
    inst = r["instance"]
    inst = {"nodes": [tuple(n) for n in inst["nodes"]], "depot": inst["depot"],
            "arcs": [tuple(a) for a in inst["arcs"]], "grid": inst["grid"],
            "lookup_first": inst.get("lookup_first", False)}
    if r["instance"].get("rebuild"):
        kind, arg = r["instance"]["rebuild"]
        inst["rebuild"] = (kind, tuple(arg) if kind == "add_arc" else arg)
    print(oracle(inst))
