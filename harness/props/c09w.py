"""Stand-alone driver of the wrapper part of C09 (testing aid: `bin/check C09W`; the evidence file is then
named after this id).  The real entry point is c09.py, which calls c09_wrap.run_part(ctx)."""
from props import c09_wrap


def run(ctx):
    ctx.prove(props=["C09_wrappers"])
    c09_wrap.run_part(ctx)
    if ctx.tier == "thorough":
        ctx.coqchk("VQP.C09_wrappers")


def replay(ctx, data):
    c09_wrap.replay_part(ctx, data)
