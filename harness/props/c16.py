"""C16 -- formulations are isolated from their source graph and from each other.

Proof: coq/props/C16.v (object-store model: frame theorem, deep-copy isolation, order
independence of the MIRP getters).  The hypothesis of the frame theorem -- nothing reachable
from the source is a container of the formulation -- is a fact about CPython objects; it is
CHECKED here on the real objects (id()-reachability), together with value snapshots before and
after every construction / heuristic / query, and the store model itself is tied to the code by
reading the store off the real objects (locations = id()s) and letting Coq replay the calls."""
import itertools
import math

import numpy as np

from vq import lit
from vq.core import exc_cls
from props import fp_common as fp

HEADER = "From VQ Require Import Base Store.\nClose Scope Z_scope."
INF = float("inf")


# ---------------- instances ----------------
def random_graph(rng):
    from vrpqubo.routing_problem.vrptw import VRPTW
    g = VRPTW()
    g.set_vehicle_cap(rng.randint(2, 6))
    g.set_initial_loading(rng.randint(0, 2))
    g.add_node("D", 0, (0, INF if rng.random() < 0.8 else 30))
    g.set_depot("D")
    n = rng.randint(1, 4)
    names = ["D"]
    for k in range(n):
        lo = rng.randint(0, 5)
        g.add_node(f"c{k}", rng.randint(-2, 2), (lo, lo + rng.randint(0, 6)))
        names.append(f"c{k}")
    for a in names:
        for b in names:
            if a != b and rng.random() < 0.7:
                g.add_arc(a, b, rng.randint(0, 3), rng.randint(-2, 6))
    return g


def build(kind, src, rng):
    from vrpqubo.routing_problem import ArcBasedRoutingProblem, PathBasedRoutingProblem, SequenceBasedRoutingProblem
    if kind == "arc":
        rp = ArcBasedRoutingProblem(src)
        rp.add_time_points(list(range(0, rng.randint(4, 9))))
    elif kind == "path":
        rp = PathBasedRoutingProblem(src)
        n = len(src.nodes)
        for _ in range(rng.randint(0, 6)):
            k = rng.randint(1, min(3, n - 1))
            rp.add_route([0] + rng.sample(range(1, n), k) + [0])
    else:
        rp = SequenceBasedRoutingProblem(src, strict=(kind == "seq_strict"))
        if rng.random() < 0.6:
            rp.set_max_vehicles(rng.randint(1, 2))      # otherwise every vehicle is left to the heuristic
        rp.set_max_sequence_length(rng.randint(3, 4))
    return rp


def exercise(rp, rng, log):
    """Queries, the heuristic, and direct edits through the formulation."""
    steps = ["num", "constraints", "objective", "qubo", "heuristic", "num", "qubo_f", "add_node", "add_arc", "routes"]
    rng.shuffle(steps)
    for s in steps:
        log.append(s)
        try:
            if s == "num":
                rp.get_num_variables()
            elif s == "constraints":
                rp.get_constraint_data()
            elif s == "objective":
                rp.get_objective_data()
            elif s == "qubo" and rp.get_num_variables() > 0:
                rp.get_qubo()
            elif s == "qubo_f" and rp.get_num_variables() > 0:
                rp.get_qubo(feasibility=True)
            elif s == "heuristic":
                rp.make_feasible(rng.choice([0, 1, 10, 1000]))
            elif s == "add_node":
                rp.add_node("extra", 1, (0, 9))
            elif s == "add_arc":
                nm = rp.node_names
                rp.add_arc(nm[0], nm[-1], 0, 5)
            elif s == "routes" and rp.feasible_solution is not None and len(rp.feasible_solution) == rp.get_num_variables():
                rp.get_routes(rp.feasible_solution)
        except Exception as e:  # noqa: the heuristic may legitimately raise; isolation must hold anyway
            log.append("raised:" + exc_cls(e))


def safe_digest(o):
    """Digest of everything observable; a formulation edited behind its caches may raise on a
    query (stale caches after user edits are outside the property) -- then the digest is that of
    the graph plus the exception class, which is still comparable before/after."""
    try:
        return fp.digest(fp.fingerprint(o, with_qubo=False))
    except Exception as e:  # noqa
        return fp.digest(["raised", exc_cls(e), fp.graph_snapshot(o.vrptw)])


def shared_mutables(a, b):
    ra, rb = fp.reachable_mutables(a), fp.reachable_mutables(b)
    return [type(ra[i]).__name__ for i in set(ra) & set(rb)]


# ---------------- store read off the real objects ----------------
class StoreBuilder:
    def __init__(self):
        self.locs = {}
        self.objs = []
        self.names = {}

    def name(self, s):
        return self.names.setdefault(s, 10 + len(self.names))

    def loc(self, o):
        if id(o) not in self.locs:
            self.locs[id(o)] = len(self.objs)
            self.objs.append(o)
        return self.locs[id(o)]

    def add_graph(self, g):
        for o in (g, g.node_names, g.nodes, g.arcs):
            self.loc(o)
        for n in g.nodes:
            self.loc(n)
        for a in g.arcs.values():
            self.loc(a)
            self.loc(a.origin)
            self.loc(a.destination)
        return self.loc(g)

    def literal(self):
        from vrpqubo.routing_problem.vrptw import VRPTW, Node, Arc
        out = []
        for o in self.objs:
            if isinstance(o, VRPTW):
                out.append(f"OGraph {lit.nat(self.loc(o.node_names))} {lit.nat(self.loc(o.nodes))} {lit.nat(self.loc(o.arcs))}")
            elif isinstance(o, Node):
                out.append(f"ONode {lit.nat(self.name(o.name))} {lit.z(o.demand)} {lit.z(o.time_window[0])} {lit.ext(o.time_window[1])}")
            elif isinstance(o, Arc):
                out.append(f"OArc {lit.nat(self.loc(o.origin))} {lit.nat(self.loc(o.destination))} {lit.z(o.travel_time)} {lit.z(o.cost)}")
            elif isinstance(o, dict):
                out.append("ODict " + lit.lst([lit.pair(lit.pair(lit.nat(i), lit.nat(j)), lit.nat(self.loc(a))) for (i, j), a in o.items()]))
            elif isinstance(o, list) and self._is_names(o):
                out.append("ONames " + lit.lst([lit.nat(self.name(x)) for x in o]))
            else:
                out.append("OList " + lit.lst([lit.nat(self.loc(x)) for x in o]))
        return lit.lst(out)

    def _is_names(self, o):
        return any(o is g.node_names for g in self.graphs)

    graphs = ()


def view_literal(sb, g):
    names = lit.lst([lit.nat(sb.name(x)) for x in g.node_names])
    nodes = lit.lst(["(Some " + lit.tup(lit.nat(sb.name(n.name)), lit.z(n.demand), lit.z(n.time_window[0]), lit.ext(n.time_window[1])) + ")"
                     for n in g.nodes])
    arcs = lit.lst(["(Some " + lit.pair(lit.pair(lit.nat(i), lit.nat(j)),
                                        lit.tup(f"(Some {lit.nat(sb.name(a.origin.name))})", f"(Some {lit.nat(sb.name(a.destination.name))})",
                                                lit.z(a.travel_time), lit.z(a.cost))) + ")"
                    for (i, j), a in g.arcs.items()])
    return lit.tup(names, nodes, arcs)


def store_case(rng):
    """A source graph, a formulation built from it, random graph edits through the formulation;
    returns (literal, description, source snapshot before, source snapshot after)."""
    src = random_graph(rng)
    kind = rng.choice(["arc", "path"])
    rp = build(kind, src, rng)
    cp = rp.vrptw
    sb = StoreBuilder()
    sb.graphs = (src, cp)
    g_src = sb.add_graph(src)
    g_cp = sb.add_graph(cp)
    store_lit = sb.literal()
    before = fp.graph_snapshot(src)
    ops = []
    desc = []
    for _ in range(rng.randint(1, 6)):
        k = rng.random()
        names = list(cp.node_names)
        if k < 0.4:
            nm = rng.choice(["n1", "n2", names[-1]])
            lo = rng.randint(0, 5)
            hi = rng.choice([INF, lo + rng.randint(0, 4), lo - 1])
            dem = rng.randint(-2, 2)
            try:
                rp.add_node(nm, dem, (lo, hi))
                ops.append(f"SAddNode {lit.nat(sb.name(nm))} {lit.z(dem)} {lit.z(lo)} {lit.ext(hi)}")
                desc.append(("add_node", nm, dem, lo, hi))
            except ValueError:
                desc.append(("add_node!", nm, dem, lo, hi))
        elif k < 0.8:
            o, d = rng.choice(names), rng.choice(names)
            t, c = rng.randint(0, 6), rng.randint(-1, 5)
            if rp.add_arc(o, d, t, c):
                ops.append(f"SAddArc {lit.nat(names.index(o))} {lit.nat(names.index(d))} {lit.z(t)} {lit.z(c)}")
                desc.append(("add_arc", o, d, t, c))
            else:
                desc.append(("add_arc-rejected", o, d, t, c))
        else:
            d = rng.choice(names)
            idx = names.index(d)
            rp.set_depot(d)
            if idx != 0:
                ops.append(f"SSetDepot {lit.nat(idx)}")
            desc.append(("set_depot", d))
    after = fp.graph_snapshot(src)
    exp = lit.lst([lit.pair(lit.nat(g_src), view_literal(sb, src)), lit.pair(lit.nat(g_cp), view_literal(sb, cp))])
    term = lit.tup(store_lit, lit.nat(g_cp), lit.lst(ops), exp)
    return term, {"kind": kind, "source": before, "calls": desc}, before, after


# ---------------- MIRP order independence ----------------
def mirp_factory(which):
    if which[0] == "g1":
        from vrpqubo.examples.mirp_g1 import get_mirp
        return lambda: get_mirp(which[1])
    if which[0] == "narrow":
        # every visit window lies strictly between two integers (k + 1/4, k + 3/4): no integer time point fits
        def make_narrow():
            from vrpqubo.applications.mirp import MIRP
            m = MIRP(cargo_size=1, time_horizon=which[1])
            m.add_nodes("S1", 0.75, 1, 1.5)
            m.add_nodes("D1", 0.75, -1, 1.5)
            m.add_travel_arcs(lambda p, q: 0.5, vessel_speed=1, cost_per_unit_distance=2,
                              supply_port_fees={"S1": 1}, demand_port_fees={"D1": 1})
            m.add_exit_arcs()
            m.add_entry_arcs(time_limit=3)
            return m
        return make_narrow
    from vrpqubo.examples.mirp_random import get_generator

    def make():
        gen = get_generator(which[1], which[2], which[3])
        gen.seed = which[4]
        return gen.get_random_mirp(reset_seed=True)
    return make


def getter(m, name, strict):
    if name == "arc":
        return m.get_arc_based()
    if name == "path":
        return m.get_path_based()
    return m.get_sequence_based(strict=strict)


def run(ctx):
    ctx.level = "proof"
    ctx.prove()
    import translate_aliasflow as T
    ctx.gen_step("aliasflow", T.translate, "C16_gen",
                 "harness/translate_aliasflow.py (ast -> statement / expression skeleton of every class, method and function of vrptw.py, "
                 "routing_problem.py, the three formulation files and applications/mirp.py, class-body assignments, imports; the flow "
                 "analysis, the classification of writes against Store.v, the discipline check and the getter semantics are Coq "
                 "definitions in theories/PyAlias.v)")
    from props import pysem; pysem.run(ctx, pysem.GROUPS_FOR.get(ctx.pid, ()))
    rng = ctx.rng
    ctx.assumptions += [
        "copy.deepcopy, CPython object identity and numpy are library/runtime behaviour: the frame theorem's disjointness hypothesis is checked on the real objects by id()-reachability, not proved",
        "isolation is observed on sampled graphs, the G1 example and seeded random MIRPs",
    ]
    n_graphs = 40 if ctx.quick else 400
    kinds = ["arc", "path", "seq", "seq_strict"]
    dist = {"graphs": 0, "formulation_runs": 0, "heuristic_raised": 0, "store_cases": 0, "mirp_orders": 0}

    # 1. one source graph, formulations built from it: reachability + snapshots + mutual isolation
    for gi in range(n_graphs):
        src = random_graph(rng)
        before = fp.graph_snapshot(src)
        dist["graphs"] += 1
        built = []
        for kind in rng.sample(kinds, rng.randint(2, 4)):
            rp = build(kind, src, rng)
            shared = shared_mutables(src, rp)
            if shared:
                ctx.violation("oracle/aliasing/source-formulation",
                              f"{kind} formulation shares mutable objects {shared} with its source graph",
                              {"graph": before, "kind": kind, "shared_types": shared}, True)
            for other_kind, other in built:
                sh = shared_mutables(other, rp)
                if sh:
                    ctx.violation("oracle/aliasing/formulation-formulation",
                                  f"{kind} and {other_kind} formulations built from one graph share mutable objects {sh}",
                                  {"graph": before, "kinds": [other_kind, kind], "shared_types": sh}, True)
            others_before = [safe_digest(o) for _, o in built]
            log = []
            exercise(rp, rng, log)
            dist["formulation_runs"] += 1
            dist["heuristic_raised"] += sum(1 for s in log if s.startswith("raised"))
            if fp.graph_snapshot(src) != before:
                ctx.violation("oracle/source-changed",
                              f"source graph changed after building/using a {kind} formulation ({log})",
                              {"graph": before, "after": fp.graph_snapshot(src), "kind": kind, "steps": log}, True)
            for (ok, o), d0 in zip(built, others_before):
                if safe_digest(o) != d0:
                    ctx.violation("oracle/sibling-changed",
                                  f"{ok} formulation changed while a {kind} formulation of the same graph was used ({log})",
                                  {"graph": before, "kinds": [ok, kind], "steps": log}, True)
            built.append((kind, rp))
        if gi < 2:
            ctx.sample({"graph": before, "formulations": [k for k, _ in built]})
    ctx.count(evaluations=dist["formulation_runs"], nontrivial=dist["formulation_runs"] - 0)

    # 2. the store model replayed on stores read off the real objects
    n_store = 150 if ctx.quick else 2000
    terms, descs = [], []
    for _ in range(n_store):
        term, desc, before, after = store_case(rng)
        if before != after:
            ctx.violation("oracle/source-changed", "graph edits through a formulation changed its source graph",
                          {"case": desc, "after": after}, True)
        terms.append(term)
        descs.append(desc)
    dist["store_cases"] = n_store
    mism, err = ctx.coq_mismatches("store", HEADER, "scase", "check_scase", terms, shard=200)
    for idx, tags in mism[:3]:
        ctx.violation("correspondence/store-model",
                      f"store model and real objects disagree (view of handle #{tags}: 1 = source, 2 = formulation's copy)",
                      {"correspondence": "Store.check_scase", "case": descs[idx], "tags": tags}, False)
    ctx.count(evaluations=n_store, nontrivial=sum(1 for d in descs if any(c[0] in ("add_node", "add_arc", "set_depot") for c in d["calls"])),
              traces=n_store)
    if descs:
        ctx.sample(descs[0])

    # 3. MIRP getters in every order
    mirps = [("g1", 16.0), ("rand", 1, 1, 40, 1), ("narrow", 3)]
    if not ctx.quick:
        mirps += [("g1", 20.0), ("g1", 25.0), ("rand", 2, 1, 30, 5), ("rand", 1, 2, 40, 7), ("rand", 2, 2, 30, 11)]
    for which in mirps:
        make = mirp_factory(which)
        ref = {}
        orders = list(itertools.permutations(["arc", "path", "seq"]))
        orders += [("seq", "seq", "arc", "path", "arc"), ("path", "arc", "path", "seq", "seq")]
        for strict in ([False] if ctx.quick else [False, True]):
            for order in orders:
                dist["mirp_orders"] += 1
                try:
                    m = make()
                    snap0 = fp.mirp_snapshot(m)
                    got = {}
                    for name in order:
                        try:
                            rp = getter(m, name, strict)
                        except Exception as e:  # noqa: a getter may raise loudly (heuristic); the MIRP must be unchanged anyway
                            ctx.cov.setdefault("mirp_build_errors", []).append(f"{which}:{name}:{exc_cls(e)}")
                            if fp.mirp_snapshot(m) != snap0:
                                ctx.violation("oracle/mirp/data-changed", f"MIRP data changed by get_{name}, which raised {exc_cls(e)} (order {order})",
                                              {"mirp": which, "order": order, "strict": strict}, True)
                            continue
                        if name in got and got[name] is not rp:
                            ctx.violation("oracle/mirp/not-cached", f"requesting the {name} formulation twice returned different objects",
                                          {"mirp": which, "order": order}, True)
                        got[name] = rp
                        if fp.mirp_snapshot(m) != snap0:
                            ctx.violation("oracle/mirp/data-changed", f"MIRP data changed by get_{name} (order {order})",
                                          {"mirp": which, "order": order, "strict": strict}, True)
                        sh = shared_mutables(m.vrptw, rp.vrptw)
                        if sh:
                            ctx.violation("oracle/aliasing/mirp-formulation", f"{name} formulation shares {sh} with the MIRP graph",
                                          {"mirp": which, "order": order}, True)
                    for name, rp in got.items():
                        d = fp.digest(fp.fingerprint(rp, with_qubo=(rp.get_num_variables() <= 400)))
                        key = (name, strict)
                        if key in ref and ref[key][0] != d:
                            ctx.violation("oracle/mirp/order-dependent",
                                          f"{name} formulation differs between request orders {ref[key][1]} and {order}",
                                          {"mirp": which, "orders": [ref[key][1], order], "strict": strict}, True)
                        ref.setdefault(key, (d, order))
                except Exception as e:  # a build that raises (e.g. G1 with a short horizon) shows nothing about isolation
                    ctx.cov.setdefault("mirp_build_errors", []).append(f"{which}:{exc_cls(e)}")
        ctx.sample({"mirp": which, "orders": len(orders)})
    # 3b. a formulation without variables is cached like any other (a MIRP without entry arcs, heuristic switched off)
    from vrpqubo.applications.mirp import MIRP
    for horizon in (3.0, 6.0):
        def bare():
            m = MIRP(cargo_size=1, time_horizon=horizon)
            m.add_nodes("S1", 0.5, 0.5, 1.5)
            m.add_nodes("D1", 1.0, -0.5, 1.5)
            m.add_travel_arcs(lambda p, q: 1.0, vessel_speed=1, cost_per_unit_distance=1,
                              supply_port_fees={"S1": 1}, demand_port_fees={"D1": 1})
            m.add_exit_arcs()
            return m
        for name in ("arc", "path", "seq"):
            m = bare()
            snap0 = fp.mirp_snapshot(m)
            try:
                get = {"arc": m.get_arc_based, "path": m.get_path_based, "seq": m.get_sequence_based}[name]
                first = get(make_feasible=False)
                second = get(make_feasible=False)
                third = get()
            except Exception as e:  # noqa: a getter may refuse such a problem loudly
                ctx.cov.setdefault("mirp_build_errors", []).append(f"bare:{horizon}:{name}:{exc_cls(e)}")
                continue
            dist["mirp_orders"] += 1
            # the cached object is the SAME object also when the caller kept no reference in between: what was done through
            # the first request must still be there at the next one
            first.vq_marker = ("seen", name)
            del first, second, third
            import gc
            gc.collect()
            again = get(make_feasible=False)
            if getattr(again, "vq_marker", None) != ("seen", name):
                ctx.violation("oracle/mirp/not-cached",
                              f"the {name} formulation requested again after the caller dropped its reference is a NEW object "
                              "(an attribute set through the first request is gone)",
                              {"mirp": ["bare", horizon], "formulation": name,
                               "calls": "r = get(make_feasible=False); r.vq_marker = ...; del r; gc.collect(); get(make_feasible=False)"}, True)
            first = second = third = again
            if second is not first or third is not first:
                ctx.violation("oracle/mirp/not-cached",
                              f"requesting the {name} formulation of a MIRP without entry arcs again returned a different object "
                              f"(it has {first.get_num_variables()} variables)",
                              {"mirp": ["bare", horizon], "formulation": name, "calls": "get(make_feasible=False) twice, then get()"}, True)
            if fp.mirp_snapshot(m) != snap0:
                ctx.violation("oracle/mirp/data-changed", f"MIRP data changed by get_{name} on a MIRP without entry arcs",
                              {"mirp": ["bare", horizon], "formulation": name}, True)
    ctx.count(evaluations=dist["mirp_orders"], nontrivial=dist["mirp_orders"])
    ctx.cov["input_distribution"] = dist
    ctx.cov["rule"] = ("random source graphs with 2-4 formulations each, exercised by shuffled queries / heuristic / direct edits; "
                       "stores read off the real objects and replayed in Coq; MIRP getters in all 6 orders plus repeats. "
                       "non-trivial = a formulation run (it always includes the heuristic and graph edits), a store case with at least one successful edit, a request order")
    if ctx.tier == "thorough":
        ctx.coqchk("VQP.C16")


def replay(ctx, data):
    print(data)
