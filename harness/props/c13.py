"""C13 -- Pattern conversions preserve the quadratic form; the QUBO container is consistent.

Proof: coq/props/C13.v (generic commutative ring; instances Qc and R).
Tie:   the generator of C01 (plus stored zeros, empty triangles, int dtype, non-square shapes); each matrix goes
       to the REAL to_upper_triangular / to_symmetric / QUBOContainer as ndarray / csr_array / coo_array /
       lil_array / csr_matrix, with the pattern strings "upper-triangular", "Upper-Triangular", "SYMMETRIC",
       "symmetric", "foo", "".  Dense U, S, the container's Q, J, h and constants, and the values of the
       evaluators at all binary and some non-binary (k/2) vectors are compared inside Coq with the Qc model.
Oracle: exact-Fraction x'Mx + c against evaluate_QUBO(U), evaluate_QUBO(S) at binary AND non-binary vectors,
       against container.evaluate_QUBO(x) and container.evaluate_Ising(x_to_s(x)) at all binary x; structure
       (U upper triangular, S symmetric, J zero diagonal and strictly upper / symmetric); ValueError on
       non-square shapes.
Purity: every argument is deep-snapshotted before and after each call."""
from fractions import Fraction

import numpy as np
import scipy.sparse as sp

from vq import lit
from props.c01 import (HEADER, KINDS, Recorder, assignments, build, fr, fr_mat, fr_vec, gen_inputs, is_symmetric,
                       jsonable, mlit, noncanonical_csr, qlit, ref_ising, ref_qubo, report, shlit, snap, tools, unjson,
                       value_snap, variant_for, vlit)

N_CVEC = 4     # non-binary vectors at which the container evaluators are observed (the conversions get all of them)
PATTERNS = ["upper-triangular", "Upper-Triangular", "SYMMETRIC", "symmetric", "foo", ""]
EXTRA_PATTERNS = ["UPPER-TRIANGULAR", "uPPER-tRIANGULAR", "Symmetric", "symmetric ", " symmetric", "upper_triangular",
                  "upper triangular", "uppertriangular", "sym", "SYMMETRICAL", "upper-triangula", "upper-triangular\n",
                  "none", "Foo", "UPPER-TRIANGULAR-", "[symmetric]", "`symmetric`", "{symmetric}", "@symmetric", "symmetric~"]


def classify(p):
    """Reference classification: 1 upper-triangular, 2 symmetric, 0 anything else (ASCII case-insensitive)."""
    l = p.lower()
    return 1 if l == "upper-triangular" else 2 if l == "symmetric" else 0


def vfmt(v):
    return "[" + ", ".join(str(t) for t in v) + "]"


def slit(s):
    assert all(32 <= ord(ch) < 127 or ch == "\n" for ch in s)
    return '"' + s.replace('"', '""') + '"%string'


def run_case(inp, with_obs=True):
    """inp: dict(kind, variant, integer, vseed, M, c, vectors, patterns, xfloat)."""
    qt = tools()
    rec = Recorder()
    kind, variant, integer = inp["kind"], inp["variant"], inp["integer"]
    M, c = inp["M"], inp["c"]
    n, m = len(M), len(M[0])
    square = (n == m)
    A = build(kind, M, integer, variant, inp.get("vseed", 0))
    cf = float(c)
    desc = {"container": kind, "variant": variant, "dtype": "int64" if integer else "float64", "M": M, "c": c}
    obs = {"stored_zeros": bool(sp.issparse(A) and A.nnz > np.count_nonzero(A.toarray()))}

    def conv(name, fn):
        r = rec.call(name, fn, A)
        if r[0] == "ok":
            try:
                o = ("ok", fr_mat(r[1]))
            except TypeError as e:
                o = ("err", "TypeError")
                rec.fail(f"oracle/{name}-result-shape", f"{name} returned an unexpected shape: {e}", dict(desc))
        else:
            o = r
        if square and o[0] != "ok":
            rec.fail(f"oracle/{name}-raised", f"{name} raised {o[1]} on a square matrix", dict(desc))
        if not square and o != ("err", "ValueError"):
            rec.fail(f"oracle/{name}-nonsquare", f"{name} accepted a {n}x{m} matrix (expected ValueError)", dict(desc))
        return r, o

    rU, oU = conv("to_upper_triangular", qt.to_upper_triangular)
    rS, oS = conv("to_symmetric", qt.to_symmetric)
    obs["upper"], obs["sym"] = oU, oS

    # structure of the results
    if square and oU[0] == "ok":
        U = oU[1]
        bad = [(i, j) for i in range(n) for j in range(n) if i > j and U[i][j] != 0]
        if bad:
            rec.fail("oracle/upper-structure", f"to_upper_triangular left a non-zero entry below the diagonal at {bad[0]}", dict(desc))
    if square and oS[0] == "ok":
        S = oS[1]
        bad = [(i, j) for i in range(n) for j in range(n) if S[i][j] != S[j][i]]
        if bad:
            rec.fail("oracle/sym-structure", f"to_symmetric result is not symmetric at {bad[0]}", dict(desc))

    vectors = []
    if square:
        vectors = [[Fraction(t) for t in x] for x in assignments(n)] + [list(v) for v in inp.get("vectors", [])]
    binary = [all(t in (0, 1) for t in v) for v in vectors]
    cvectors = vectors[: 2 ** n + N_CVEC] if square else []
    obs["cvectors"] = cvectors

    def arr(v, isbin):
        if isbin and not inp.get("xfloat"):
            return np.array([int(t) for t in v], dtype=np.int64)
        return np.array([float(t) for t in v], dtype=float)

    # values of the quadratic forms at every vector (binary and not)
    mevs = []
    if square and oU[0] == "ok" and oS[0] == "ok":
        snaps = (snap(A), snap(rU[1]), snap(rS[1]))
        for v, isbin in zip(vectors, binary):
            x = arr(v, isbin)
            xb0 = x.tobytes()
            try:
                vm, vu, vs = (fr(qt.evaluate_QUBO(A, cf, x)), fr(qt.evaluate_QUBO(rU[1], cf, x)), fr(qt.evaluate_QUBO(rS[1], cf, x)))
            except Exception as e:  # noqa
                rec.fail("oracle/evaluator-raised", f"{type(e).__name__}: {e} while evaluating at {vfmt(v)}", {**desc, "x": v})
                mevs = None
                break
            mevs.append((v, vm, vu, vs))
            want = ref_qubo(M, c, v)
            if vm != want:
                rec.fail("oracle/evaluate_QUBO", f"evaluate_QUBO(M, c, x) = {vm}, exact x'Mx + c = {want} at x={vfmt(v)}", {**desc, "x": v})
            if vu != want:
                rec.fail("oracle/upper-form", f"x'Ux + c = {vu} but x'Mx + c = {want} at x={vfmt(v)} (U = to_upper_triangular(M))",
                         {**desc, "x": v, "observed": vu, "expected": want, "python": "props.c13.replay_case(replay)"})
            if vs != want:
                rec.fail("oracle/sym-form", f"x'Sx + c = {vs} but x'Mx + c = {want} at x={vfmt(v)} (S = to_symmetric(M))",
                         {**desc, "x": v, "observed": vs, "expected": want, "python": "props.c13.replay_case(replay)"})
            if x.tobytes() != xb0:
                rec.fail("purity/vector", f"the vector {vfmt(v)} was modified by evaluate_QUBO", {**desc, "x": v})
        rec.calls += 3 * len(vectors)
        if (snap(A), snap(rU[1]), snap(rS[1])) != snaps:
            rec.fail("purity/evaluate_QUBO", "evaluate_QUBO modified its matrix argument", dict(desc))
    obs["mevals"] = mevs

    # the container, for every pattern string
    conts = []
    for pat in inp["patterns"]:
        snapA = snap(A)
        r = rec.call("QUBOContainer", lambda a, cc, p: qt.QUBOContainer(a, cc, p), A, cf, pat)
        d2 = {**desc, "pattern": pat}
        if r[0] == "ok":
            C = r[1]
            try:
                oc = ("ok", (fr_mat(C.Q), fr(C.const_qubo), fr_mat(C.J), fr_vec(C.h), fr(C.const_ising)))
            except TypeError as e:
                oc = ("err", "TypeError")
                rec.fail("oracle/container-field-shape", f"container field of unexpected shape: {e}", d2)
        else:
            oc = r
        if square and oc[0] != "ok":
            rec.fail("oracle/container-raised", f"QUBOContainer raised {oc[1]} on a square matrix", d2)
        if not square and oc != ("err", "ValueError"):
            rec.fail("oracle/container-nonsquare", f"QUBOContainer accepted a {n}x{m} matrix (expected ValueError)", d2)
        cevs = []
        if square and oc[0] == "ok":
            Qd, cq, Jd, hd, ci = oc[1]
            cls = classify(pat)
            # pattern of Q and J, zero diagonal of J
            if any(Jd[i][i] != 0 for i in range(n)):
                rec.fail("oracle/container-J-diagonal", f"container J has a non-zero diagonal (pattern {pat!r})", d2)
            if cls == 1:
                if any(Qd[i][j] != 0 for i in range(n) for j in range(n) if i > j):
                    rec.fail("oracle/container-Q-pattern", f"container Q is not upper triangular (pattern {pat!r})", d2)
                if any(Jd[i][j] != 0 for i in range(n) for j in range(n) if i >= j):
                    rec.fail("oracle/container-J-pattern", f"container J is not strictly upper triangular (pattern {pat!r})", d2)
            elif cls == 2:
                if any(Qd[i][j] != Qd[j][i] for i in range(n) for j in range(n)):
                    rec.fail("oracle/container-Q-pattern", f"container Q is not symmetric (pattern {pat!r})", d2)
                if any(Jd[i][j] != Jd[j][i] for i in range(n) for j in range(n)):
                    rec.fail("oracle/container-J-pattern", f"container J is not symmetric (pattern {pat!r})", d2)
            else:
                if Qd != [list(r_) for r_ in M]:
                    rec.fail("oracle/container-Q-pattern", f"container Q differs from the matrix as given (pattern {pat!r})", d2)
            if cq != c:
                rec.fail("oracle/container-const", f"container const_qubo = {cq}, given {c}", d2)
            snapC = (snap(C.Q), snap(C.J), snap(C.h))
            for v, isbin in zip(cvectors, binary):
                x = arr(v, isbin)
                try:
                    s = qt.x_to_s(x)
                    vcq = fr(C.evaluate_QUBO(x))
                    vci = fr(C.evaluate_Ising(x))
                    vcs = fr(C.evaluate_Ising(s))
                    if isbin and fr(C.get_objective_function_QUBO()(x)) != vcq:
                        rec.fail("oracle/container-closure", "get_objective_function_QUBO()(x) != evaluate_QUBO(x)", {**d2, "x": v})
                    if isbin and fr(C.get_objective_function_Ising()(s)) != vcs:
                        rec.fail("oracle/container-closure", "get_objective_function_Ising()(s) != evaluate_Ising(s)", {**d2, "x": v})
                except Exception as e:  # noqa
                    rec.fail("oracle/evaluator-raised", f"{type(e).__name__}: {e} in the container evaluators at {vfmt(v)}", {**d2, "x": v})
                    cevs = None
                    break
                cevs.append((v, vcq, vci, vcs))
                want = ref_qubo(M, c, v)
                if vcq != want:
                    rec.fail("oracle/container-qubo-value",
                             f"container.evaluate_QUBO(x) = {vcq} but x'Mx + c = {want} at x={vfmt(v)} (pattern {pat!r})",
                             {**d2, "x": v, "observed": vcq, "expected": want, "python": "props.c13.replay_case(replay)"})
                if isbin and vcs != want:
                    rec.fail("oracle/container-ising-value",
                             f"container.evaluate_Ising(x_to_s(x)) = {vcs} but x'Mx + c = {want} at x={vfmt(v)} (pattern {pat!r})",
                             {**d2, "x": v, "observed": vcs, "expected": want, "python": "props.c13.replay_case(replay)"})
                if vci != ref_ising(Jd, hd, ci, v):
                    rec.fail("oracle/evaluate_Ising", f"container.evaluate_Ising({vfmt(v)}) = {vci}, exact value from its own J, h, c = {ref_ising(Jd, hd, ci, v)}",
                             {**d2, "x": v})
            rec.calls += 3 * len(cvectors)
            if (snap(C.Q), snap(C.J), snap(C.h)) != snapC:
                rec.fail("purity/container-evaluators", "a container evaluator modified the container's Q / J / h", d2)
            # the container keeps reporting the same values after it was written to a file (both forms) and reported on
            if cevs:
                import os, tempfile
                tdir = tempfile.mkdtemp(prefix="vq_c13_")
                try:
                    C.export(os.path.join(tdir, "x.qubo"), as_ising=False)
                    C.export(os.path.join(tdir, "x.rudy"), as_ising=True)
                    C.report()
                    for (v, vcq, vci, vcs), isbin in zip(cevs, binary):
                        x = arr(v, isbin)
                        again_q, again_s = fr(C.evaluate_QUBO(x)), fr(C.evaluate_Ising(qt.x_to_s(x)))
                        if again_q != vcq or again_s != vcs:
                            rec.fail("oracle/container-after-export",
                                     f"after export() / report() the container reports QUBO value {again_q} (before: {vcq}) and Ising value "
                                     f"{again_s} (before: {vcs}) at x={vfmt(v)} (pattern {pat!r})",
                                     {**d2, "x": v, "calls": "export(as_ising=False); export(as_ising=True); report(); evaluate again"})
                            break
                except Exception as e:  # noqa
                    rec.fail("oracle/container-after-export", f"export / report raised {type(e).__name__}: {e} (pattern {pat!r})", d2)
                finally:
                    for fn in os.listdir(tdir):
                        os.remove(os.path.join(tdir, fn))
                    os.rmdir(tdir)
        if snap(A) != snapA:
            rec.fail("purity/QUBOContainer", f"QUBOContainer or its evaluators modified the caller's matrix (pattern {pat!r})", d2)
        conts.append((pat, oc, cevs))
    obs["conts"] = conts
    for f in rec.failures:
        f[2].setdefault("input", jsonable({k: inp.get(k) for k in ("kind", "variant", "integer", "vseed", "M", "c", "vectors",
                                                                      "patterns", "xfloat")}))
    return rec, (obs if with_obs else None)


def res_lit(o, f):
    return lit.ok(f(o[1])) if o[0] == "ok" else lit.err(o[1])


def case_lit(inp, obs):
    M = inp["M"]
    sh = (len(M), len(M[0]))
    ou = res_lit(obs["upper"], mlit)
    os_ = res_lit(obs["sym"], mlit)
    mevs = lit.lst([lit.tup(vlit(v), qlit(a), qlit(b), qlit(c)) for v, a, b, c in (obs["mevals"] or [])])
    conts = lit.lst([
        lit.tup(slit(pat),
                res_lit(oc, lambda t: lit.tup(mlit(t[0]), qlit(t[1]), mlit(t[2]), vlit(t[3]), qlit(t[4]))),
                lit.lst([lit.tup(qlit(a), qlit(b), qlit(c)) for _v, a, b, c in (cevs or [])]))
        for pat, oc, cevs in obs["conts"]])
    cvs = lit.lst([vlit(v) for v in obs["cvectors"]])
    return lit.tup(shlit(sh), mlit(M), qlit(inp["c"]), ou, os_, mevs, cvs, conts)


def run(ctx):
    ctx.prove()
    import translate_qubotools as T
    # same key as C01: both checks write the same coq/gen/QuboGen.v, so they share one lock
    ctx.gen_step("qubotools", T.translate, "C13_gen",
                 "harness/translate_qubotools.py (ast -> Gallina printer: numpy/scipy matrix expressions of qubo_tools.py "
                 "into the combinators of coq/theories/PyQubo.v; kinds of values, let-sequencing, ownership filter)")
    from props import pysem; pysem.run(ctx, pysem.GROUPS_FOR.get(ctx.pid, ()))
    rng = ctx.rng
    n_mat = 60 if ctx.quick else 2000
    n_vec = 6 if ctx.quick else 20
    base = gen_inputs(rng, n_mat)
    cases, terms = [], []
    reported = set()
    dist = {"containers": {k: 0 for k in KINDS}, "shapes": {}, "sizes": {}, "int_dtype": 0, "nonsquare": 0,
            "variants": {"plain": 0, "zeros": 0, "dups": 0}, "stored_zeros_present": 0, "symmetric": 0, "empty_lower_triangle": 0,
            "empty_upper_triangle": 0, "pattern_class": {"upper": 0, "symmetric": 0, "other": 0},
            "vectors": {"binary": 0, "non_binary": 0}}
    seen = set()
    n_eval = 0
    for k, b in enumerate(base):
        M = b["Q"]
        n, m = len(M), len(M[0])
        vectors = [[Fraction(rng.randint(-6, 6), 2) for _ in range(n)] for _ in range(n_vec)]
        for ki, kind in enumerate(KINDS):
            # quick: all six strings for every (matrix, container); thorough: all six for the first container,
            # a rotating pair for the others (every string still meets every container type)
            if ctx.quick or ki == k % len(KINDS):
                pats = list(PATTERNS)
            else:
                pats = [PATTERNS[(k + ki) % 6], PATTERNS[(k + ki + 3) % 6]]
            inp = {"kind": kind, "variant": variant_for(kind, k), "integer": b["integer"], "vseed": b["vseed"], "M": M, "c": b["c"],
                   "vectors": vectors, "patterns": pats, "xfloat": b["xfloat"]}
            rec, obs = run_case(inp)
            if rec.failures:
                report(ctx, inp, run_case, rec, reported)
            cases.append((inp, obs, bool(rec.failures)))
            terms.append(case_lit(inp, obs))
            dist["containers"][kind] += 1
            dist["variants"][inp["variant"]] += 1
            dist["stored_zeros_present"] += int(obs["stored_zeros"])
            for p in pats:
                dist["pattern_class"][("other", "upper", "symmetric")[classify(p)]] += 1
            if n == m:
                n_eval += (2 ** n + n_vec) + (2 ** n + min(n_vec, N_CVEC)) * len(pats)
                dist["vectors"]["binary"] += 2 ** n
                dist["vectors"]["non_binary"] += n_vec
        dist["shapes"][b["shape"]] = dist["shapes"].get(b["shape"], 0) + 1
        dist["sizes"][f"{n}x{m}"] = dist["sizes"].get(f"{n}x{m}", 0) + 1
        dist["int_dtype"] += int(b["integer"])
        dist["nonsquare"] += int(n != m)
        dist["symmetric"] += int(is_symmetric(M))
        if n == m and n >= 2:
            dist["empty_lower_triangle"] += int(all(M[i][j] == 0 for i in range(n) for j in range(n) if i > j))
            dist["empty_upper_triangle"] += int(all(M[i][j] == 0 for i in range(n) for j in range(n) if i < j))
        key = repr((M, b["c"]))
        if n == m and n >= 2 and not is_symmetric(M) and any(M[i][j] != 0 for i in range(n) for j in range(n) if i > j) and key not in seen:
            seen.add(key)
            ctx.count(nontrivial=1)

    # value-level purity on non-canonical CSR input (scipy canonicalises such an object in place)
    qt = tools()
    noncanon = {"cases": 0, "representation_changed": 0}
    for b in base[: (20 if ctx.quick else 200)]:
        if len(b["Q"]) != len(b["Q"][0]):
            continue
        for cls in (sp.csr_array, sp.csr_matrix):
            for name, fn in (("to_upper_triangular", qt.to_upper_triangular), ("to_symmetric", qt.to_symmetric),
                             ("QUBOContainer", lambda A: qt.QUBOContainer(A, 0.5, "symmetric")),
                             ("QUBOContainer", lambda A: qt.QUBOContainer(A, 0.5, "foo"))):
                A = noncanonical_csr(b["Q"], b["integer"], cls)
                full = snap(A)
                rec = Recorder()
                rec.call(name, fn, A, snapper=value_snap)
                noncanon["cases"] += 1
                noncanon["representation_changed"] += int(snap(A) != full)
                if rec.failures and rec.failures[0][0] + "/noncanonical" not in reported:
                    sig, msg, detail = rec.failures[0]
                    reported.add(sig + "/noncanonical")
                    ctx.violation(sig + "/noncanonical", msg + " (dense value changed; CSR input with duplicates and unsorted indices)",
                                  jsonable({**detail, "M": b["Q"], "container": cls.__name__}), True)
    dist["noncanonical_csr"] = noncanon

    ctx.count(evaluations=n_eval, traces=len(cases))
    ctx.cov["input_distribution"] = dist
    ctx.cov["rule"] = ("the C01 matrix generator (n in 1..5, entries k/4 or integers, 14 forced shapes incl. empty triangles, stored zeros, COO "
                       "duplicates, non-square shapes) x 5 container types x pattern strings; vectors: all 2^n binary ones plus non-binary ones with "
                       "entries k/2; evaluations = (case, pattern-or-conversion, vector) triples; non-trivial = distinct square non-symmetric matrix "
                       "with a non-zero entry below the diagonal and n >= 2")
    ctx.assumptions.append("float arithmetic is exact on the generated inputs (entries k/4, vectors k/2, n <= 5); results converted with Fraction(float)")
    ctx.assumptions.append("sparse containers are compared at their dense meaning (toarray)")
    ctx.assumptions.append("pattern strings are ASCII (str.lower() is modelled on ASCII letters only)")
    for c in cases[:3]:
        ctx.sample(jsonable({k: c[0][k] for k in ("kind", "variant", "integer", "M", "c", "patterns")}))

    mism, err = ctx.coq_mismatches("conv", HEADER, "c13case", "check_c13case", terms, shard=60 if ctx.quick else 150)
    n_rep = 0
    for idx, tags in mism:
        inp, obs, failed = cases[idx]
        if failed:
            continue  # already reported with a concrete failing input by the oracle
        if n_rep >= 3:
            break
        n_rep += 1
        M = inp["M"]
        sh = shlit((len(M), len(M[0])))
        model = ctx.coq_eval(HEADER, f"(model_upper {sh} {mlit(M)}, model_sym {sh} {mlit(M)}, "
                                     + ", ".join(f"model_container {sh} {slit(p)} {mlit(M)} {qlit(inp['c'])}" for p in inp["patterns"][:2]) + ")")
        ctx.violation(f"correspondence/tags{tags}",
                      f"model and implementation disagree (fields {tags}: 1 to_upper_triangular, 2 to_symmetric, 3 container fields, "
                      "4-6 evaluate_QUBO of M/U/S, 7-9 container evaluators, 10 their number); the property oracle found no failing input on this case",
                      jsonable({"correspondence": "Qubo.check_c13case", "input": {k: inp[k] for k in ("kind", "variant", "integer", "M", "c", "patterns")},
                                "implementation": {"upper": obs["upper"], "sym": obs["sym"], "containers": [(p, o) for p, o, _ in obs["conts"]]},
                                "model": model}), False)

    # the classification of further strings: the branch taken by the implementation is recognised by comparing the
    # container's Q with the implementation's own to_upper_triangular / to_symmetric of a probe matrix
    probe = np.array([[1.0, 2.0], [4.0, 8.0]])
    branch = {1: fr_mat(qt.to_upper_triangular(probe)), 2: fr_mat(qt.to_symmetric(probe)), 0: fr_mat(probe)}
    cterms, cobs = [], []
    if branch[0] != branch[1] and branch[0] != branch[2] and branch[1] != branch[2]:
        for p in PATTERNS + EXTRA_PATTERNS:
            got = fr_mat(qt.QUBOContainer(probe.copy(), 0.0, p).Q)
            code = [k_ for k_, w in branch.items() if got == w]
            code = code[0] if code else 9
            cobs.append((p, code))
            cterms.append(lit.pair(slit(p), lit.nat(code)))
            if code != classify(p):
                ctx.violation("oracle/pattern-dispatch", f"pattern {p!r} selected branch {code}, expected {classify(p)} "
                              "(1 upper-triangular, 2 symmetric, 0 as given, 9 none of them)",
                              {"pattern": p, "container_Q": jsonable(got), "matrix": [[1, 2], [4, 8]]}, True)
        mism2, err2 = ctx.coq_mismatches("classify", HEADER, "string * nat", "check_classify", cterms)
        for idx, tags in mism2[:2]:
            ctx.violation("correspondence/classify", f"model classify and the implementation disagree on pattern {cobs[idx][0]!r}",
                          {"pattern": cobs[idx][0], "implementation_branch": cobs[idx][1]}, False)
    dist["pattern_strings_classified"] = len(cterms)
    if ctx.tier == "thorough":
        ctx.coqchk("VQP.C13")


def replay_case(r):
    inp = unjson(r["input"])
    inp["patterns"] = [str(p) if not isinstance(p, str) else p for p in r["input"]["patterns"]]
    rec, _ = run_case(inp, with_obs=False)
    for sig, msg, _d in rec.failures:
        print(sig, "--", msg)
    if not rec.failures:
        print("no failure on this input")
    return rec.failures


def replay(ctx, data):
    replay_case(data["replay"])
