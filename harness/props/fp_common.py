"""Canonical fingerprints / snapshots of the real objects, shared by the C16 and C17 checks."""
import hashlib
import json

import numpy as np
import scipy.sparse as sp


def _num(x):
    """JSON-able exact representation of a number (float.hex keeps every bit)."""
    if x is None:
        return None
    if isinstance(x, np.ndarray):
        if x.size != 1:
            return [_num(v) for v in x.ravel()]
        x = x.ravel()[0]
    if isinstance(x, (bool, np.bool_)):
        return bool(x)
    if isinstance(x, (int, np.integer)):
        return int(x)
    x = float(x)
    if x != x:
        return "nan"
    if x in (float("inf"), float("-inf")):
        return "inf" if x > 0 else "-inf"
    return x.hex()


def dense(M):
    if sp.issparse(M):
        M = M.toarray()
    M = np.asarray(M)
    if M.ndim == 1:
        return [_num(v) for v in M]
    return [[_num(v) for v in row] for row in M]


def graph_snapshot(g):
    """Deep value snapshot of a VRPTW object (no identities)."""
    return {
        "names": list(g.node_names),
        "nodes": [(n.name, _num(n.demand), _num(n.time_window[0]), _num(n.time_window[1])) for n in g.nodes],
        "arcs": [((int(i), int(j)), a.origin.name, a.destination.name, _num(a.travel_time), _num(a.cost))
                 for (i, j), a in g.arcs.items()],
        "depot_index": g.depot_index,
        "cap": _num(g.vehicle_cap),
        "init": _num(g.initial_loading),
    }


def mirp_snapshot(m):
    return {
        "graph": graph_snapshot(m.vrptw),
        "cargo_size": _num(m.cargo_size),
        "time_horizon": _num(m.time_horizon),
        "supply_ports": list(m.supply_ports),
        "demand_ports": list(m.demand_ports),
        "port_mapping": {k: list(v) for k, v in m.port_mapping.items()},
        "port_frequency": {k: _num(v) for k, v in m.port_frequency.items()},
        "routes_added": m.routes_added,
    }


def variable_list(rp):
    rp.get_num_variables()
    if hasattr(rp, "routes"):
        return [list(map(int, r)) for r in rp.routes]
    out = []
    for t in rp.var_mapping:
        out.append([_num(v) for v in t])
    return out


def fingerprint(rp, with_qubo=True):
    """Everything a user can observe of a formulation, as a JSON-able dict."""
    fp = {"class": type(rp).__name__, "n": int(rp.get_num_variables()), "vars": variable_list(rp)}
    A, b, R, r = rp.get_constraint_data()
    c, Qo = rp.get_objective_data()
    fp["A"] = dense(A)
    fp["b"] = dense(b)
    fp["R"] = dense(R)
    fp["r"] = _num(r)
    fp["c"] = dense(c)
    fp["Qo"] = dense(Qo)
    if with_qubo and fp["n"] > 0:
        for feas in (False, True):
            Q, k = rp.get_qubo(feasibility=feas)
            fp[f"Q_{feas}"] = dense(Q)
            fp[f"k_{feas}"] = _num(k)
    fs = rp.feasible_solution
    fp["feasible_solution"] = None if fs is None else dense(fs)
    fp["graph"] = graph_snapshot(rp.vrptw)
    if hasattr(rp, "time_points"):
        fp["time_points"] = dense(rp.time_points)
    if hasattr(rp, "max_vehicles"):
        fp["V"] = int(rp.max_vehicles)
        fp["L"] = int(rp.max_sequence_length)
        fp["vehicle_cost"] = [_num(v) for v in rp.vehicle_cost]
    return fp


def digest(obj):
    return hashlib.sha256(json.dumps(obj, sort_keys=True, default=str).encode()).hexdigest()


def diff_keys(a, b):
    """Top-level keys on which two fingerprints differ."""
    return sorted(k for k in set(a) | set(b) if a.get(k) != b.get(k))


# ---------------- id()-reachability ----------------
ATOMS = (int, float, str, bytes, bool, type(None), complex, np.generic)


def reachable_mutables(root):
    """ids (with the objects) of every mutable object reachable from root through attributes,
    lists, tuples, dicts and sets.  numpy arrays are mutable leaves."""
    seen = {}
    todo = [root]
    while todo:
        o = todo.pop()
        if isinstance(o, ATOMS) or callable(o) and not hasattr(o, "__dict__"):
            continue
        if id(o) in seen:
            continue
        if isinstance(o, tuple):
            todo.extend(o)
            continue
        seen[id(o)] = o
        if isinstance(o, (list, set, frozenset)):
            todo.extend(o)
        elif isinstance(o, dict):
            todo.extend(o.keys())
            todo.extend(o.values())
        elif isinstance(o, np.ndarray):
            if o.dtype == object:
                todo.extend(o.ravel().tolist())
        elif sp.issparse(o):
            pass
        elif hasattr(o, "__dict__"):
            todo.extend(vars(o).values())
            # class-level data attributes of the package's own classes are reachable from every instance
            # (a mutable default at class level is shared by all objects that never rebind it)
            for cls in type(o).__mro__:
                if str(getattr(cls, "__module__", "")).startswith("vrpqubo"):
                    for name, v in vars(cls).items():
                        if name.startswith("__") or callable(v) or isinstance(v, (property, staticmethod, classmethod)):
                            continue
                        if isinstance(v, (list, dict, set, np.ndarray)) or (hasattr(v, "__dict__") and not isinstance(v, type)):
                            todo.append(v)
    return seen
