"""C05 -- the arc-based constraints describe exactly the time-feasible route sets.

Proof: coq/props/C05.v.
Tie: for random instances built through the real ArcBasedRoutingProblem the dense constraint matrix, the
right-hand side, the objective vector, the shape, the constraint row order (constraint_names) and
get_routes(x) for every feasible x (all 2^n vectors are enumerated when n is small) plus some infeasible x
are compared, inside Coq, with the model Arc.v.
Oracle (on the implementation only, independent of the model):
  * all binary x (n <= 14 quick / 16 thorough): A x = b  iff  an independent Python route decomposition of the
    selected tuples succeeds (instances with positive customer-to-customer travel times), and  iff  the
    "local form" counts hold (all instances);
  * c = arc cost per variable, so c.x = summed cost of the selected moves;
  * get_routes(x) of every feasible x is a set of depot-to-depot walks using every selected move once and,
    cut at interior depot visits, equals the independent decomposition;
  * complete grids: all feasible x are enumerated by a generic 0-1 search on (A, b); feasibility and optimal
    cost are compared with a brute-force route-partition solver for the VRPTW of the doc
    (T_0 = 0, T_{k+1} = max(a, T_k + t), T_k <= b)."""
import itertools

from vq import lit
from vq.core import exc_cls

from props import arc_common as ac

EMPTY_SIG = "get_routes/no-customers/zero-vector"


# ---------------------------------------------------------------- observation of the implementation
def observe(inst):
    import numpy as np
    p = ac.build(inst)
    snap = ac.snapshot(p)
    n = int(p.get_num_variables())
    vm = [ac.tup_py(v) for v in p.var_mapping]
    A, b, _, _ = p.get_constraint_data()
    c, _ = p.get_objective_data()
    shape = tuple(int(k) for k in A.shape)
    Ad = ac.dense_int(A)
    bd = [lit.exact_int(v) for v in np.asarray(b).ravel()]
    cd = [lit.exact_int(v) for v in np.asarray(c).ravel()]
    names = list(p.constraint_names)
    return {"p": p, "snap": snap, "n": n, "vars": vm, "A": Ad, "b": bd, "c": cd, "shape": shape, "names": names}


def feasible_mask(obs, X):
    import numpy as np
    A = np.array(obs["A"], dtype=np.int64).reshape(len(obs["b"]), obs["n"])
    b = np.array(obs["b"], dtype=np.int64)
    if len(b) == 0:
        return np.ones(X.shape[0], dtype=bool)
    return ((X @ A.T) == b[None, :]).all(axis=1)


def local_form(vm, ncust, x):
    """The local form of C05_local, evaluated directly: every customer has exactly one selected move into
    it, exactly one out of it, at the same time."""
    sel = [v for v, xv in zip(vm, x) if xv]
    for j in range(1, ncust + 1):
        ins = [v for v in sel if v[2] == j]
        outs = [v for v in sel if v[0] == j]
        if len(ins) != 1 or len(outs) != 1 or ins[0][3] != outs[0][1]:
            return False
    return True


def fast_decompose(snap, grid, vm, adm, x):
    sel = [v for v, xv in zip(vm, x) if xv]
    ncust = len(snap[1]) - 1
    if sum(1 for v in sel if v[2] != 0) != ncust:
        return None, sel                  # a decomposition visits every customer exactly once
    if not all(adm[v] for v in sel):
        return None, sel
    return ac.decompose(snap, grid, sel), sel


def oracle_small(inst, obs, nmax, collect=None):
    """Exhaustive check over all binary x.  Returns (message or None, list of feasible x, failing x)."""
    import numpy as np
    snap, grid, n, vm = obs["snap"], list(inst["grid"]), obs["n"], obs["vars"]
    ncust = len(snap[1]) - 1
    d = dict(snap[2])
    if getattr(obs["p"], "vq_grid_modified", None):
        return (obs["p"].vq_grid_modified + " (the time grid is the caller's data; grid times of the routes are read from it)", [], [0] * n)
    # the formulation works on the graph that was described (whatever the order of add_arc / set_depot calls)
    if "arcs" in inst and "depot" in inst and not inst.get("rebuild"):
        gp = ac.graph_problem(inst, snap)
        if gp:
            return ("the arc-based object does not hold the described graph, so its routes are not routes of that graph: " + gp, [], [0] * n)
    # objective
    costs = [d[(v[0], v[2])][3] if (v[0], v[2]) in d else None for v in vm]
    if obs["c"] != costs:
        k = next((k for k in range(n) if k >= len(obs["c"]) or obs["c"][k] != costs[k]), 0)
        x = [1 if q == k else 0 for q in range(n)]
        return (f"objective entry {k} is {obs['c'][k] if k < len(obs['c']) else None} but arc "
                f"({vm[k][0]},{vm[k][2]}) of {vm[k]} costs {costs[k]}", [], x)
    # variables = admissible moves (C05_vars_admissible), over nodes x grid x nodes x grid
    if len(set(grid)) == len(grid):
        nn = len(snap[1])
        space = [(i, s, j, t) for i in range(nn) for s in grid for j in range(nn) for t in grid]
        want = sorted(v for v in space if ac.admissible(snap, grid, v))
        if sorted(vm) != want:
            miss = [v for v in want if v not in vm] + [v for v in vm if v not in want]
            return (f"variables differ from the admissible moves, e.g. {miss[0]}", [], None)
    if len(obs["b"]) != obs["shape"][0] or obs["shape"][1] != n:
        return (f"shape of A {obs['shape']} does not match len(b) = {len(obs['b'])}, n = {n}", [], None)
    if n > nmax:
        return (None, None, None)
    import numpy as np
    adm = {v: ac.admissible(snap, grid, v) for v in vm}
    X = ac.all_binary(n)
    mask = feasible_mask(obs, X)
    # Both oracles below begin with the same necessary condition -- the number of selected moves that end at
    # a customer equals the number of customers -- so vectors that miss it are infeasible for both and only
    # the others need the Python evaluation.  (The filter is part of the oracles, not of the code under test.)
    into_customer = np.array([1 if v[2] != 0 else 0 for v in vm], dtype=np.int64)
    cand = (X @ into_customer) == ncust if n else np.ones(X.shape[0], dtype=bool)
    wrong = np.flatnonzero(mask & ~cand)
    if len(wrong):
        x = [int(q) for q in X[wrong[0]]]
        return (f"A x = b is True but {sum(q for q, v in zip(x, vm) if v[2] != 0)} selected moves end at a customer "
                f"({ncust} customers): selected {[v for v, q in zip(vm, x) if q]}", [], x)
    feas = []
    for k in np.flatnonzero(cand):
        x = [int(q) for q in X[k]]
        f = bool(mask[k])
        lf = local_form(vm, ncust, x)
        if f != lf:
            return (f"A x = b is {f} but the local form (one move in, one out, same time, per customer) is {lf} "
                    f"for selected {[v for v, q in zip(vm, x) if q]}", feas, x)
        if inst.get("pos_cc"):
            routes, sel = fast_decompose(snap, grid, vm, adm, x)
            if f != (routes is not None):
                return (f"A x = b is {f} but the independent route decomposition "
                        f"{'succeeds' if routes is not None else 'fails'} for selected {sel}", feas, x)
        if f:
            feas.append(x)
    return (None, feas, None)


def oracle_decode(inst, obs, x, res):
    """get_routes on a feasible x (instances with positive customer-to-customer travel times)."""
    snap, grid, vm = obs["snap"], list(inst["grid"]), obs["vars"]
    sel = [v for v, xv in zip(vm, x) if xv]
    if res[0] == "err":
        return f"get_routes raised {res[1]} on the feasible selection {sel}"
    return ac.check_decoded(snap, grid, sel, res[1])


# ---------------------------------------------------------------- reference VRPTW (doc, section 2)
def vrptw_route_ok(snap, seq):
    """seq: customer positions.  Returns (cost, [(node, T)]) of the depot-to-depot route under the doc's
    semantics (T_0 = 0, arrive early and wait, never late), or None."""
    _, nodes, arcs = snap
    d = dict(arcs)
    T = 0
    cur = 0
    cost = 0
    visits = [(0, 0)]
    for nxt in list(seq) + [0]:
        if (cur, nxt) not in d:
            return None
        a = d[(cur, nxt)]
        T = max(nodes[nxt][2], T + a[2])
        if T > nodes[nxt][3]:
            return None
        cost += a[3]
        visits.append((nxt, T))
        cur = nxt
    return cost, visits


def vrptw_optimum(snap):
    """Brute force over all partitions of the customers into routes.  Returns (cost, routes) or None."""
    ncust = len(snap[1]) - 1
    custs = list(range(1, ncust + 1))
    best = {frozenset(): (0, [])}

    def solve(rem):
        if rem in best:
            return best[rem]
        first = min(rem)
        others = sorted(rem - {first})
        res = None
        for k in range(len(others) + 1):
            for sub in itertools.combinations(others, k):
                for perm in itertools.permutations((first,) + sub):
                    r = vrptw_route_ok(snap, perm)
                    if r is None:
                        continue
                    tail = solve(rem - set(perm))
                    if tail is None:
                        continue
                    cand = (r[0] + tail[0], [r[1]] + tail[1])
                    if res is None or cand[0] < res[0]:
                        res = cand
        best[rem] = res
        return res
    return solve(frozenset(custs))


def enum_feasible(A, b, n, limit, order=None, budget=400000):
    """All 0-1 solutions of A x = b by depth-first search with interval pruning (generic and exact; `order`
    is only the branching order).  Returns None when more than `limit` solutions or `budget` nodes."""
    m = len(b)
    order = list(order) if order is not None else list(range(n))
    cols = [[(r, A[r][k]) for r in range(m) if A[r][k] != 0] for k in order]
    minrem = [[0] * m for _ in range(n + 1)]
    maxrem = [[0] * m for _ in range(n + 1)]
    for d in range(n - 1, -1, -1):
        minrem[d] = list(minrem[d + 1])
        maxrem[d] = list(maxrem[d + 1])
        for r, v in cols[d]:
            minrem[d][r] += min(0, v)
            maxrem[d][r] += max(0, v)
    for r in range(m):
        if minrem[0][r] > b[r] or maxrem[0][r] < b[r]:
            return []
    out = []
    x = [0] * n
    part = [0] * m
    nodes = [0]

    def ok(d):
        # only the rows touched by variable d-1 changed their interval
        for r, _ in cols[d - 1]:
            if part[r] + minrem[d][r] > b[r] or part[r] + maxrem[d][r] < b[r]:
                return False
        return True

    def rec(d):
        nodes[0] += 1
        if nodes[0] > budget or len(out) > limit:
            return
        if d == n:
            out.append(list(x))
            return
        k = order[d]
        if ok(d + 1):
            rec(d + 1)
        x[k] = 1
        for r, v in cols[d]:
            part[r] += v
        if ok(d + 1):
            rec(d + 1)
        for r, v in cols[d]:
            part[r] -= v
        x[k] = 0
    import sys
    sys.setrecursionlimit(max(sys.getrecursionlimit(), n + 1000))
    rec(0)
    if nodes[0] > budget or len(out) > limit:
        return None
    return out


def gen_complete(rng):
    """Small instance with a complete integer grid: every attainable service time is a grid point."""
    ncust = rng.choice([1, 2, 2, 3])
    cust = ac.NAMES[1:1 + ncust]
    nodes = [("D", 0, 0, ac.INF if rng.random() < 0.6 else rng.randint(4, 6))]
    for c in cust:
        lo = rng.randint(0, 3)
        nodes.append((c, 1, lo, rng.randint(lo, 4)))
    arcs = []
    for c in cust:
        if rng.random() < 0.9:
            arcs.append(("D", c, rng.randint(0, 2), rng.randint(0, 6)))
        if rng.random() < 0.9:
            arcs.append((c, "D", rng.randint(0, 2), rng.randint(0, 6)))
    for o in cust:
        for d in cust:
            if o != d and rng.random() < 0.6:
                arcs.append((o, d, rng.randint(1, 2), rng.randint(-1, 5)))
    rng.shuffle(arcs)
    H = max(n[3] for n in nodes[1:]) + 2
    if nodes[0][3] != ac.INF:
        H = max(H, nodes[0][3])
    grid = list(range(0, H + 1))
    if rng.random() < 0.5:
        rng.shuffle(grid)
    return {"nodes": nodes, "depot": "D", "arcs": arcs, "grid": grid, "pos_cc": True}


def oracle_complete(inst, obs, limit=4000):
    """Feasibility and optimum of the arc model vs the reference VRPTW on a complete grid."""
    snap, grid, vm, n = obs["snap"], list(inst["grid"]), obs["vars"], obs["n"]
    order = sorted(range(n), key=lambda k: (vm[k][1], vm[k][3]))      # by departure time: flow rows close early
    feas = enum_feasible(obs["A"], obs["b"], n, limit, order)
    if feas is None:
        return "skipped", None
    ref = vrptw_optimum(snap)
    if (ref is None) != (len(feas) == 0):
        return (f"VRPTW {'infeasible' if ref is None else 'feasible with cost ' + str(ref[0])} but the arc model has "
                f"{len(feas)} feasible vectors"), (feas[0] if feas else None)
    if ref is None:
        return None, None
    best = min(sum(c * q for c, q in zip(obs["c"], x)) for x in feas)
    if best != ref[0]:
        return f"arc-based optimum {best} differs from the VRPTW optimum {ref[0]} (routes {ref[1]})", None
    # completeness: the optimal VRPTW route set, with its earliest service times, is a feasible vector
    moves = [m for r in ref[1] for m in ac.moves_of(r)]
    x = [1 if v in moves else 0 for v in vm]
    if sum(x) != len(moves) or x not in feas:
        return f"the VRPTW route set {ref[1]} is not representable: moves {moves}", x
    # soundness: every feasible vector projects to VRPTW routes of the same cost
    d = dict(snap[2])
    for x in feas:
        sel = [v for v, q in zip(vm, x) if q]
        routes = ac.decompose(snap, grid, sel)
        if routes is None:
            return f"feasible vector without route decomposition: {sel}", x
        for r in routes:
            seq = [m[2] for m in r][:-1]
            chk = vrptw_route_ok(snap, seq)
            if chk is None:
                return f"route {r} of a feasible vector is not a route of the VRPTW", x
            if chk[0] != sum(d[(m[0], m[2])][3] for m in r):
                return f"cost of route {r} differs from the VRPTW cost {chk[0]}", x
    return None, None


# ---------------------------------------------------------------- literals
def case_lit(inst, obs, decs):
    return lit.tup(ac.graph_lit(obs["snap"]), ac.zlist(inst["grid"]),
                   lit.lst([ac.zlist(r) for r in obs["A"]]), ac.zlist(obs["b"]), ac.zlist(obs["c"]),
                   lit.pair(lit.nat(obs["shape"][0]), lit.nat(obs["shape"][1])),
                   lit.lst(ac.parse_names(obs["names"])),
                   lit.lst([ac.decode_lit(x, r) for x, r in decs]))


def fails(inst, nmax):
    """Used for shrinking: does the oracle fail on this instance?"""
    try:
        obs = observe(inst)
    except Exception:  # noqa
        return True
    msg, feas, _ = oracle_small(inst, obs, nmax)
    if msg:
        return True
    if inst.get("pos_cc"):
        for x in feas or []:
            r = oracle_decode(inst, obs, x, ac.run_decode(obs["p"], x))
            if r:
                return True
    return False


def run(ctx):
    ctx.prove()
    from props import genreg
    genreg.steps(ctx, ("arcenum",))      # variable enumeration regenerated from the source (C18_arc_gen)
    import translate_arccons as TC       # objective / constraint assembly regenerated from the source (C05_gen)
    ctx.gen_step("arccons", TC.translate, "C05_gen",
                 "harness/translate_arccons.py + translate_enumcore.py (ast -> Gallina printer for build_objective, "
                 "build_constraints(_quicker), get_objective_data, get_constraint_data of ArcBasedRoutingProblem; meaning of "
                 "the emitted combinators -- loops with exceptions, COO matrix at its dense meaning, f-strings: "
                 "coq/theories/PyArcCons.v, PyEnumCore.v, PyArc.v)")
    import translate_arcroutes as TR     # get_routes regenerated from the source (C05_routes_gen)
    ctx.gen_step("arcroutes", TR.translate, "C05_routes_gen",
                 "harness/translate_arcroutes.py + translate_routes.py (on translate_seqcons.py / translate_enumcore.py: "
                 "ast -> Gallina printer for get_routes of ArcBasedRoutingProblem; meaning of the emitted combinators -- "
                 "while loops with fuel, list pop / item update, comprehensions, np.nonzero / np.array of tuples-or-None / "
                 "np.flip / .T / np.lexsort as a stable sort: coq/theories/PyRoutes.v; vocabulary PyArcRoutes.v)")
    from props import pysem; pysem.run(ctx, pysem.GROUPS_FOR.get(ctx.pid, ()))
    rng = ctx.rng
    nmax = 14 if ctx.quick else 16
    n_random = 260 if ctx.quick else 2500
    n_complete = 100 if ctx.quick else 1200
    from props.c18_arc import special_instances
    insts = [dict(i) for i in special_instances()]
    # a merged pair of routes through the depot, and an instance with every kind of row
    insts.append({"nodes": [("D", 0, 0, ac.INF), ("a", 1, 1, 3), ("b", 1, 1, 5)], "depot": "D",
                  "arcs": [("D", "a", 1, 5), ("a", "D", 1, 7), ("D", "b", 1, 1), ("b", "D", 1, 1)],
                  "grid": [4, 2, 0, 3, 1], "pos_cc": True})
    for k in range(n_random):
        if k % 2 == 0:      # built around a route plan: has feasible vectors
            inst = ac.gen_feasible(rng)
        elif k % 3 == 0:    # keep the number of variables small enough for the exhaustive sweep
            inst = ac.gen_instance(rng, ncust=rng.choice([1, 2, 2, 3]), kind=rng.choice(["sparse", "ends", "random"]))
            if len(inst["grid"]) > 4:
                inst["grid"] = inst["grid"][:4]
        else:
            inst = ac.gen_instance(rng)
        insts.append(inst)

    dist = {"instances": 0, "swept_exhaustively": 0, "vectors_swept": 0, "feasible_vectors": 0,
            "instances_with_feasible_vector": 0, "positive_cc_travel": 0, "decoded": 0, "decode_errors": {},
            "customer_self_arc": 0, "depot_self_arc": 0, "unsorted_grid": 0, "merged_routes_decoded": 0,
            "n_variables_max": 0, "exceptions": 0, "complete_grid_instances": 0, "complete_skipped": 0,
            "complete_feasible": 0}
    cases, terms = [], []
    reported = 0
    seen = set()

    def report(sig, msg, inst, x, shr):
        nonlocal reported
        if reported >= 3:
            return
        reported += 1
        small = ac.shrink_instance(inst, shr) if shr else inst
        ctx.violation(sig, msg, {"instance": ac.describe(small), "x": x, "original_instance": ac.describe(inst),
                                 "python": "props.c05.replay"}, True)

    for inst in insts:
        try:
            obs = observe(inst)
        except Exception as e:  # noqa
            dist["exceptions"] += 1
            report("oracle/arc/exception", f"building the constraint or objective data raised {exc_cls(e)}: {e}",
                   inst, None, lambda c: fails(c, 10))
            continue
        dist["instances"] += 1
        n = obs["n"]
        dist["n_variables_max"] = max(dist["n_variables_max"], n)
        dist["positive_cc_travel"] += bool(inst.get("pos_cc"))
        dist["customer_self_arc"] += any(a[0][0] == a[0][1] != 0 for a in obs["snap"][2])
        dist["depot_self_arc"] += any(a[0] == (0, 0) for a in obs["snap"][2])
        dist["unsorted_grid"] += list(inst["grid"]) != sorted(inst["grid"])
        msg, feas, badx = oracle_small(inst, obs, nmax)
        if msg:
            kind = ("objective" if msg.startswith("objective") else "shape" if msg.startswith("shape") else
                    "variables" if msg.startswith("variables") else "feasible-set")
            report(f"oracle/arc/{kind}", msg, inst, badx, lambda c: fails(c, 12))
        decs = []
        if feas is not None and not msg and n <= 12:
            # self-check of the generic 0-1 search used on complete grids against the exhaustive sweep
            order = sorted(range(n), key=lambda k: (obs["vars"][k][1], obs["vars"][k][3]))
            alt = enum_feasible(obs["A"], obs["b"], n, 10 ** 6, order, budget=10 ** 7)
            if alt is None or sorted(alt) != sorted(feas):
                ctx.tooling_failure("oracle/enum_feasible", f"0-1 search and 2^n sweep disagree on {ac.describe(inst)}")
        if feas is not None:
            dist["swept_exhaustively"] += 1
            dist["vectors_swept"] += 2 ** n
            dist["feasible_vectors"] += len(feas)
            dist["instances_with_feasible_vector"] += bool(feas)
            for x in feas[:300]:
                res = ac.run_decode(obs["p"], x)
                decs.append((x, res))
                dist["decoded"] += 1
                if res[0] == "ok" and any(q[0] == 0 for r in res[1] for q in r[1:-1]):
                    dist["merged_routes_decoded"] += 1
                if inst.get("pos_cc"):
                    r = oracle_decode(inst, obs, x, res)
                    if r and len(obs["snap"][1]) == 1 and not any(x):
                        # the repaired defect of /repo 101dd02 (known_findings.json: fixed): empty selection, no customer
                        dist["empty_selection_failures"] = dist.get("empty_selection_failures", 0) + 1
                        ctx.violation(EMPTY_SIG, r + " (instance without customers: the empty route set is the decoding)",
                                      {"instance": ac.describe(inst), "x": x, "python": "props.c05.replay"}, True)
                    elif r:
                        report("oracle/arc/decode", r, inst, x, lambda c: fails(c, 12))
                    if not any(x):
                        dist["empty_feasible_selection_decoded"] = dist.get("empty_feasible_selection_decoded", 0) + 1
        # infeasible / arbitrary vectors: assertion vs Err
        extra = []
        if n > 0:
            extra.append([0] * n)
            extra.append([1] * n)
            for _ in range(4):
                extra.append([1 if rng.random() < 0.3 else 0 for _ in range(n)])
            if feas:
                x = list(feas[0])
                k = rng.randrange(n)
                x[k] = 1 - x[k]
                extra.append(x)
                x = list(feas[-1])
                x[rng.randrange(n)] = 2
                extra.append(x)
        for x in extra:
            res = ac.run_decode(obs["p"], x)
            decs.append((x, res))
            if res[0] == "err":
                dist["decode_errors"][res[1]] = dist["decode_errors"].get(res[1], 0) + 1
        cases.append((inst, obs, decs))
        terms.append(case_lit(inst, obs, decs))
        key = repr((obs["snap"], inst["grid"]))
        if key not in seen and feas:
            seen.add(key)
            ctx.count(nontrivial=1)

    # complete grids: feasibility and optimum vs the reference VRPTW
    ref_terms = []
    for _ in range(n_complete):
        inst = gen_complete(rng)
        try:
            obs = observe(inst)
        except Exception as e:  # noqa
            report("oracle/arc/exception", f"building the constraint or objective data raised {exc_cls(e)}: {e}",
                   inst, None, None)
            continue
        if len(ref_terms) < (150 if ctx.quick else 1500):     # the Python reference vs Arc_ref.vrptw_route
            custs = list(range(1, len(obs["snap"][1])))
            rng.shuffle(custs)
            for seq in (custs, custs[:1], custs[:2][::-1]):
                r = vrptw_route_ok(obs["snap"], seq)
                rl = "None" if r is None else "(Some " + lit.pair(
                    lit.lst([lit.pair(lit.nat(a), lit.z(b)) for a, b in r[1]]), lit.z(r[0])) + ")"
                ref_terms.append((ac.graph_lit(obs["snap"]), lit.lst([lit.nat(c) for c in seq]), rl))
        msg, badx = oracle_complete(inst, obs)
        if msg == "skipped":
            dist["complete_skipped"] += 1
            continue
        dist["complete_grid_instances"] += 1
        dist["n_variables_max"] = max(dist["n_variables_max"], obs["n"])
        if vrptw_optimum(obs["snap"]) is not None:
            dist["complete_feasible"] += 1
        if msg:
            report("oracle/arc/vrptw-equivalence", msg, inst, badx,
                   lambda c: (lambda o: oracle_complete(c, o)[0] not in (None, "skipped"))(observe(c)))

    ctx.count(evaluations=dist["vectors_swept"] + dist["complete_grid_instances"], traces=len(cases))
    ctx.cov["input_distribution"] = dist
    ctx.cov["rule"] = ("random instances built through the real ArcBasedRoutingProblem (1-4 customers, integer windows 0..8, "
                       "depot window (0,inf) or finite, arc density 0.2-1, depot/customer self-arcs, zero travel times, grids "
                       "unsorted / reversed / sparse / with window ends on grid points / missing a window) plus hand-made edge "
                       f"cases; every instance with n <= {nmax} variables is swept over all 2^n binary vectors; complete-grid "
                       "instances (1-3 customers) are compared with a brute-force VRPTW solver; non-trivial = distinct instance "
                       "with at least one feasible vector")
    for inst, obs, decs in [c for c in cases if any(r[0] == "ok" for _, r in c[2])][:3]:
        ctx.sample({"instance": ac.describe(inst), "num_variables": obs["n"], "rows": len(obs["b"]),
                    "decoded": [r[1] for _, r in decs if r[0] == "ok"][:2]})
    ctx.assumptions.append("time values, travel times and costs are integers (exact float arithmetic); customer-to-customer "
                           "travel times are positive wherever route decomposition is asserted")

    # canary: the comparison pipeline must detect a wrong value
    canary = None
    if cases:
        inst0, obs0, decs0 = cases[0]
        bad = dict(obs0)
        bad["b"] = list(obs0["b"]) + [7]
        canary = len(terms)
        terms.append(case_lit(inst0, bad, decs0))
    mism, err = ctx.coq_mismatches("arc", ac.HEADER, "c05case", "check_c05case", terms, shard=12)
    if canary is not None:
        if not err and not any(idx == canary for idx, _ in mism):
            ctx.tooling_failure("correspondence/canary", "a deliberately wrong case was not flagged by the Coq comparison")
        mism = [(i, t) for i, t in mism if i < canary]
    if ref_terms:
        rm, rerr = ctx.coq_mismatches("ref", ac.HEADER.replace(" Arc.", " Arc Arc_ref."), "refcase", "check_refcase",
                                      [lit.tup(*t) for t in ref_terms] +
                                      [lit.tup(ref_terms[0][0], ref_terms[0][1], "(Some ([], 77%Z))")], shard=200)
        if not rerr and [i for i, _ in rm] != [len(ref_terms)]:
            ctx.tooling_failure("reference/vrptw_route", "the harness' Python VRPTW route evaluation and Arc_ref.vrptw_route "
                                f"disagree on cases {[i for i, _ in rm][:5]} (the last case is a canary and must be flagged)")
        ctx.cov["reference_routes_compared"] = len(ref_terms)
    for idx, tags in mism[:1]:
        if ctx.has_concrete():
            break                         # one VIOLATION per breakage: a concrete failing input was reported
        inst, obs, decs = cases[idx]
        if fails(inst, nmax):
            continue                      # reported above with a failing input
        I = ac.inst_lit(obs["snap"], inst["grid"])
        model = ctx.coq_eval(ac.HEADER, f"(A_dense {I}, rhs {I}, objective {I}, constraint_names {I})")
        mdec = []
        if 6 in tags:
            for x, r in decs[:40]:
                mdec.append([x, r, ctx.coq_eval(ac.HEADER, f"get_routes {I} {ac.zlist(x)}")])
                if len(mdec) >= 6:
                    break
        ctx.violation(f"correspondence/arc/tags{tags}",
                      f"model Arc.v and implementation disagree (fields {tags}: 1 dense A, 2 b, 3 c, 4 shape, "
                      "5 constraint row order, 6 get_routes); the property oracle found no failing input on this instance",
                      {"correspondence": "Arc.check_c05case", "instance": ac.describe(inst),
                       "implementation": {"A": obs["A"], "b": obs["b"], "c": obs["c"], "shape": obs["shape"],
                                          "names": obs["names"]},
                       "model": model, "get_routes": mdec}, False)
    if ctx.tier == "thorough":
        ctx.coqchk("VQP.C05")


def replay(ctx, data):
    r = data["replay"]
    d = r["instance"]
    inst = {"nodes": [tuple(n) for n in d["nodes"]], "depot": d["depot"], "arcs": [tuple(a) for a in d["arcs"]],
            "grid": d["grid"], "pos_cc": True}
    obs = observe(inst)
    print(oracle_small(inst, obs, 16)[0])
    if r.get("x"):
        print(ac.run_decode(obs["p"], r["x"]))
