"""Independent reference solver for small VRPTW instances (used by the C08 check).

Written from the route definition in doc/MIRPasQUBO.tex only -- it shares no code with the
library: a route is a depot-to-depot simple path over existing arcs; service starts at
T_0 = 0 at the depot, T_{k+1} = max(T_k + travel, window start) and must not exceed the window
end of the node reached (the final depot included); loads start at the initial loading and
change by -demand at every stop, staying within [0, capacity].  A solution is a set of routes
visiting every customer exactly once; its cost is the sum of the arc costs."""
import itertools
from fractions import Fraction

INF = float("inf")


class Instance:
    def __init__(self, nodes, arcs, cap, init):
        """nodes: list of (name, demand, lo, hi) with the depot first; arcs: {(i, j): (tt, cost)}"""
        self.nodes = nodes
        self.arcs = arcs
        self.cap = cap
        self.init = init
        self.n = len(nodes)

    @staticmethod
    def of_graph(g):
        nodes = [(n.name, n.demand, n.time_window[0], n.time_window[1]) for n in g.nodes]
        arcs = {(int(i), int(j)): (a.travel_time, a.cost) for (i, j), a in g.arcs.items()}
        return Instance(nodes, arcs, g.vehicle_cap, g.initial_loading)


def route_ok(inst, seq, check_load=True):
    """seq = [0, c1, ..., ck, 0].  Returns (valid, cost, service_times)."""
    if len(seq) < 2 or seq[0] != 0 or seq[-1] != 0:
        return False, None, None
    inner = seq[1:-1]
    if len(set(inner)) != len(inner) or 0 in inner:
        return False, None, None
    t = 0
    load = inst.init
    cost = 0
    times = [0]
    for a, b in zip(seq, seq[1:]):
        if (a, b) not in inst.arcs:
            return False, None, None
        tt, c = inst.arcs[(a, b)]
        t = max(t + tt, inst.nodes[b][2])
        if t > inst.nodes[b][3]:
            return False, None, None
        load = load - inst.nodes[b][1]
        if check_load and (load < 0 or load > inst.cap):
            return False, None, None
        cost += c
        times.append(t)
    return True, cost, times


def all_valid_routes(inst, check_load=True):
    out = []
    customers = list(range(1, inst.n))
    for k in range(0, len(customers) + 1):
        for perm in itertools.permutations(customers, k):
            seq = [0] + list(perm) + [0]
            if k == 0:
                continue            # the empty trip D -> D is not a route that serves anybody
            ok, cost, times = route_ok(inst, seq, check_load)
            if ok:
                out.append((seq, cost, times))
    return out


def capacity_binding(inst):
    """True if some time-valid route is rejected only because of the load."""
    with_load = {tuple(r[0]) for r in all_valid_routes(inst, True)}
    without = {tuple(r[0]) for r in all_valid_routes(inst, False)}
    return with_load != without


def best_partition(inst, routes=None):
    """(feasible, optimal cost, one optimal list of routes) over sets of valid routes that visit
    every customer exactly once."""
    if routes is None:
        routes = all_valid_routes(inst)
    customers = frozenset(range(1, inst.n))
    best = [None, None]

    def rec(remaining, start, cost, chosen):
        if not remaining:
            if best[0] is None or cost < best[0]:
                best[0], best[1] = cost, list(chosen)
            return
        first = min(remaining)
        for k in range(len(routes)):
            seq, c, _ = routes[k]
            inner = frozenset(seq[1:-1])
            if first in inner and inner <= remaining:
                chosen.append(seq)
                rec(remaining - inner, k + 1, cost + c, chosen)
                chosen.pop()
    rec(customers, 0, 0, [])
    return best[0] is not None, best[0], best[1]


def attainable_times(inst):
    """Every service time that occurs on some valid route (plus 0): a grid containing them all is
    'complete' for the arc-based model."""
    ts = {0}
    for _, _, times in all_valid_routes(inst, check_load=False):
        ts.update(times)
    return sorted(ts)
