"""C18, sequence half -- variable index maps of the sequence-based formulation.

Proof: coq/props/C18_seq.v (exact membership, NoDup, count, the four inverse laws, fixed_values on the
complement with the stated values).
Tie: random construction histories are run through the REAL SequenceBasedRoutingProblem and through the
Gallina model (coq/theories/Seq.v); Coq compares fixed_values, var_mapping, the complete inverse table
(every tuple of V x L x N and some outside), get_var_tuple_index for k = 0..n+2 -- and, since the same case
type serves C07, also A, b, R, c, Q.
Oracle: the admissible set is recomputed independently in Python over the whole tuple space and compared
with what the implementation answers.

`run_part(ctx)` is called by c18.py (together with the arc half) and by c18s.py (alone)."""
import collections

from props import seqlib as S


def oracle(case):
    """None if the property holds on the implementation for this case, else (clause, message)."""
    try:
        obj, out = S.observe(case)
    except Exception as e:  # noqa: size queries, lookups (IndexError of out-of-range tuples is handled inside) and data queries must not raise
        import traceback
        where = [f.name for f in traceback.extract_tb(e.__traceback__) if "vrpqubo" in (f.filename or "")]
        return "raises", f"{type(e).__name__} raised inside {where[-1] if where else 'a query'} while the index maps were read: {e}"
    V, L, N = out["eff"]["V"], out["eff"]["L"], out["N"]     # after the re-enumeration steps, if any
    arcset = {k for k, _ in out["arcs"]}
    ref = S.classify(arcset, V, L, N)
    free = [t for t, val in ref.items() if val is None]
    n = out["n"]
    vars_ = out["vars"]
    if len(set(vars_)) != len(vars_):
        return "nodup", f"var_mapping lists a tuple twice: {vars_}"
    if set(vars_) != set(free):
        miss = sorted(set(free) - set(vars_))
        extra = sorted(set(vars_) - set(free))
        return "exact", f"admissible tuples missing from var_mapping: {miss}; inadmissible tuples listed: {extra}"
    if n != len(vars_):
        return "count", f"get_num_variables() = {n}, var_mapping has {len(vars_)} entries"
    probe = dict(out["probe"])
    for t, val in ref.items():
        k = probe[t]
        if val is None:
            if k is None or not (0 <= k < n):
                return "inverse", f"admissible tuple {t} has index {k}"
            if out["tup"][k] != t:
                return "inverse", f"get_var_tuple_index(get_var_index{t}) = {out['tup'][k]}"
        elif k is not None:
            return "inadmissible", f"fixed tuple {t} has index {k}"
    for t, k in out["probe"]:
        if t not in ref and k is not None:
            return "inadmissible", f"out-of-range tuple {t} has index {k}"
    for k in range(n):
        t = out["tup"][k]
        if t is None or probe.get(t) != k:
            return "inverse", f"get_var_index(get_var_tuple_index({k}) = {t}) = {probe.get(t) if t else None}"
    for k in range(n, n + 3):
        if out["tup"][k] is not None:
            return "beyond-n", f"get_var_tuple_index({k}) = {out['tup'][k]} with n = {n}"
    if out.get("tup_fresh") is not None and out["tup_fresh"] != out["tup"][:2]:
        return "inverse", (f"get_var_tuple_index as the first query on a fresh object returns {out['tup_fresh']} for indices 0, 1; "
                           f"after enumeration it returns {out['tup'][:2]}")
    fixed = dict(out["fixed"])
    if len(fixed) != len(out["fixed"]):
        return "fixed", "fixed_values lists a key twice"
    want = {t: val for t, val in ref.items() if val is not None}
    if fixed != want:
        diff = sorted(set(fixed.items()) ^ set(want.items()))[:6]
        return "fixed", f"fixed_values differs from the rules at {diff}"
    return None


def shrink(case, clause):
    """Drop construction calls / lower V, L while the same clause keeps failing."""
    def fails(c):
        try:
            r = oracle(c)
        except Exception:  # noqa
            return False
        return r is not None and r[0] == clause
    cur = dict(case)
    changed = True
    while changed:
        changed = False
        for key in ("ops1", "ops0", "post"):
            for i in range(len(cur.get(key, []))):
                if key != "post" and cur[key][i][0] != "arc":
                    continue
                cand = dict(cur)
                cand[key] = cur[key][:i] + cur[key][i + 1:]
                if fails(cand):
                    cur, changed = cand, True
                    break
            if changed:
                break
        if changed:
            continue
        for key, lo in (("V", 1), ("L", 2)):
            if cur[key] > lo:
                cand = dict(cur)
                cand[key] = cur[key] - 1
                cand["vc"] = cur["vc"][:cand["V"]]
                if fails(cand):
                    cur, changed = cand, True
                    break
    return cur


def which_rules(arcset, V, L, N):
    """How many (s, n) pairs each rule decides (independent of the implementation)."""
    cnt = collections.Counter()
    for s in range(L):
        for n in range(N):
            if s == 0:
                cnt["rule1 start at depot" if n == 0 else "rule2 not elsewhere at start"] += 1
            elif s == 1 and (0, n) not in arcset:
                cnt["rule3 no arc from depot"] += 1
            elif s == L - 1:
                cnt["rule4 end at depot" if n == 0 else "rule5 not elsewhere at end"] += 1
            elif s == L - 2 and (n, 0) not in arcset:
                cnt["rule6 no arc back to depot"] += 1
            else:
                cnt["free"] += 1
    return cnt


def run_part(ctx, n_cases=None):
    rng = ctx.rng
    n_cases = n_cases or (260 if ctx.quick else 3000)
    cases, terms = [], []
    dist = collections.Counter()
    rules = collections.Counter()
    seen = set()
    reported = set()
    for k in range(n_cases):
        case = S.gen_case(rng)
        if not ctx.quick and k % 25 == 0:
            case["L"] = rng.choice([0, 1])              # degenerate lengths (thorough tier only)
        if k % 5 in (1, 3):
            # re-enumeration stream: enumerate, change the problem through the API (rebuild requested), compare
            # the maps of the CHANGED instance
            case["post"] = S.gen_post(rng, case)
        res = oracle(case)
        if res and res[0] not in reported:
            reported.add(res[0])
            small = shrink(case, res[0])
            res2 = oracle(small) or res
            ctx.violation(f"oracle/seq/{res2[0]}", "sequence index maps: " + res2[1],
                          {"case": small, "python": "props.c18_seq.oracle(case)"}, True)
        try:
            obj, out = S.observe(case)
        except Exception:  # noqa: already reported by the oracle above
            continue
        cases.append((case, out))
        terms.append(S.case_lit(case, out))
        arcset = {kk for kk, _ in out["arcs"]}
        eff = S.effective(case, out)
        for st in out["post_done"]:
            dist["re-enumeration after " + st] += 1
        dist["re-enumerated instances" if case["post"] else "instances enumerated once"] += 1
        rc = which_rules(arcset, eff["V"], eff["L"], out["N"])
        rules.update(rc)
        dist[f"kind={case['kind']}"] += 1
        dist[f"V={eff['V']}"] += 1
        dist[f"L={eff['L']}"] += 1
        dist[f"N={out['N']}"] += 1
        dist["strict" if case["strict"] else "non-strict"] += 1
        key = repr((case["strict"], case["ops0"], case["ops1"], case["V"], case["L"], case["post"]))
        if key not in seen and out["n"] > 0 and (rc["rule3 no arc from depot"] or rc["rule6 no arc back to depot"]):
            seen.add(key)
            ctx.count(nontrivial=1)
        ctx.count(evaluations=len(out["probe"]) + len(out["tup"]), traces=1)
    dist.update({"(s,n) pairs decided by " + k: v for k, v in rules.items()})
    ctx.cov.setdefault("input_distribution", {})["sequence"] = dict(sorted(dist.items()))
    rule_txt = ("sequence half: random construction histories (graph handed to the constructor, arcs added through the object, "
                "everything through the object, no depot call, depot moved after arcs), 1-4 customers, arc density 0.2-1, "
                "V in 0..3, L in 2..5 (0, 1 in the thorough tier), strict and non-strict; 40 % of the instances are enumerated, then "
                "changed through the API (make_feasible, add_arc + reset_build_flags, set_max_vehicles / set_max_sequence_length + "
                "reset_build_flags) and re-enumerated before the comparison; every tuple of V x L x N plus six "
                "out-of-range tuples and every index 0..n+2 is looked up; non-trivial = distinct case with n > 0 in which a "
                "depot-adjacency rule (3 or 6) fixes something")
    ctx.cov["rule"] = (ctx.cov.get("rule", "") + " | " if ctx.cov.get("rule") else "") + rule_txt
    for c, o in cases[:2]:
        ctx.sample({"case": c, "var_mapping": o["vars"], "n": o["n"]})
    mism, err = ctx.coq_mismatches("seq", S.HEADER, "scase", "check_scase", terms, shard=40)
    # fields 8-10 (A, b, R, c, Q, get_routes) belong to C07 and are reported there
    mism = [(i, [t for t in tags if t not in (8, 9, 10)]) for i, tags in mism]
    mism = [(i, tags) for i, tags in mism if tags]
    if ctx.has_concrete():
        mism = []                 # the breakage is already reported with a concrete failing input
    for idx, tags in mism[:1]:
        case, out = cases[idx]
        model = ctx.coq_eval(S.HEADER, "match " + S.inst_term(S.effective(case, out)) +
                             " with Ok J => (vars J, fixed_items J, num_variables J) | Err _ => ([], [], 0%nat) end")
        ctx.violation("correspondence/seq/" + "+".join(S.TAGS.get(t, str(t)).split(" ")[0] for t in tags),
                      "model and implementation disagree on " + ", ".join(S.TAGS.get(t, str(t)) for t in tags) +
                      "; the index-map oracle found no failing input on this case",
                      {"correspondence": "Seq.check_scase", "case": case, "failing_fields": tags,
                       "implementation": {"var_mapping": out["vars"], "fixed_values": out["fixed"], "n": out["n"]},
                       "model(vars, fixed_items, num_variables)": model}, False)
    return len(cases)


def replay(ctx, data):
    r = data["replay"]
    case = r["case"]
    for key in ("ops0", "ops1", "post"):
        case[key] = [tuple(float("inf") if x == "inf" or x == float("inf") else x for x in o) for o in case.get(key, [])]
    print(oracle(case))
