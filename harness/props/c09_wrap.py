"""C09 (part) -- the MIRP formulation wrappers: what estimate_high_cost / get_arc_based / get_path_based /
get_sequence_based (applications/mirp.py) and VRPTW.estimate_max_vehicles choose.

Proof: coq/props/C09_wrappers.v (model coq/theories/MirpWrap.v on top of Mirp.v).
Tie, exact: the real MIRP is driven with exact rationals (props/xq.py) through canonical builds and arbitrary
histories; then the REAL estimate_high_cost / vrptw.estimate_max_vehicles are called, and the grid handed to
add_time_points, max_vehicles / max_sequence_length set on the sequence object and the arguments of every
add_routes_better call are read off the real objects (get_arc_based(make_feasible=False),
get_sequence_based(make_feasible=False, strict=..), get_path_based(make_feasible=False) with add_routes_better
replaced by a recorder) and compared with the model inside Coq.  A second stream feeds dyadic FLOATS (so that
numpy's own np.ceil / np.floor / np.arange / np.isinf float loops run) and compares on the graph the
implementation built.
Oracle: the defining clauses recomputed independently on every exact build, on mirp_g1.get_mirp(h) for a sweep
of horizons and on seeded mirp_random.get_generator instances (floats, same float operations).

`run_part(ctx)` is called by c09.py; `bin/check C09W` (c09w.py) runs it stand-alone."""
import contextlib
import math
from fractions import Fraction as F

from vq import lit
from vq.core import exc_cls
from props import mirp_common as mc
from props.xq import XQ, frac

HEADER = "From VQ Require Import Base Mirp MirpWrap.\nLocal Open Scope Q_scope."
INF = float("inf")
TS = [F(0), F(10), F(41, 4), F(11), F(-3), F(10001, 1000), F(1000), F(39, 4)]     # sample points of time_costs


# ---------------- observing what the wrappers choose ----------------
@contextlib.contextmanager
def recorded_rounds(log):
    """Replace PathBasedRoutingProblem.add_routes_better by a recorder (the exploration itself is C17's /
    C06's business; here only what the wrapper hands over matters)."""
    from vrpqubo.routing_problem import PathBasedRoutingProblem
    orig = PathBasedRoutingProblem.add_routes_better

    def rec(self, explore, node_costs, time_costs):
        log.append((explore, list(node_costs), time_costs))
        return [], []
    try:
        PathBasedRoutingProblem.add_routes_better = rec
        yield
    finally:
        PathBasedRoutingProblem.add_routes_better = orig


def attempt(f):
    try:
        return ("ok", f())
    except Exception as e:  # noqa
        return ("err", exc_cls(e), type(e).__name__)


def observe(m, strict=True):
    """Everything the wrappers of the MIRP object `m` choose, read off the real objects."""
    obs = {}
    obs["high"] = attempt(m.estimate_high_cost)
    obs["V"] = m.vrptw.estimate_max_vehicles()
    ab = attempt(lambda: m.get_arc_based(make_feasible=False))
    obs["grid"] = ("ok", [g for g in ab[1].time_points.tolist()]) if ab[0] == "ok" else ab
    sb = attempt(lambda: m.get_sequence_based(make_feasible=False, strict=strict))
    obs["seq"] = ("ok", (sb[1].max_vehicles, sb[1].max_sequence_length, list(sb[1].vehicle_cost))) if sb[0] == "ok" else sb
    log = []
    with recorded_rounds(log):
        pb = attempt(lambda: m.get_path_based(make_feasible=False))
    if pb[0] == "ok":
        runs = []
        for (ex, nc, tc) in log:
            if runs and runs[-1][0] == ex:
                runs[-1][1] += 1
            else:
                runs.append([ex, 1])
        obs["path"] = ("ok", {"runs": [tuple(r) for r in runs], "calls": len(log),
                              "node_costs": [nc for (_, nc, _) in log], "tc": log[0][2] if log else None})
    else:
        obs["path"] = pb
    obs["pf"] = list(m.port_frequency.items())
    return obs


# ---------------- the defining clauses, recomputed independently ----------------
def fr(x):
    v = frac(x)
    return v


def expected_grid(m):
    """{0} U {integers inside a finite window}, by scanning integers and comparing exactly (no ceil / floor /
    arange of numpy involved)."""
    pts = {0}
    per_node = []
    for n in m.vrptw.nodes:
        a, b = fr(n.time_window[0]), fr(n.time_window[1])
        if isinstance(b, float):            # inf
            per_node.append(None)
            continue
        mine = []
        z = math.floor(a) - 1
        while z <= math.floor(b) + 1:
            if a <= z <= b:
                mine.append(z)
            z += 1
        per_node.append(mine)
        pts.update(mine)
    return sorted(pts), per_node


def py_int(x):
    """int() of the exact value."""
    return int(x)


def oracle(m, obs, exact, info=None):
    """Returns (signature suffix, message) of the first clause that fails on the real objects, else None."""
    g = m.vrptw
    H = m.time_horizon
    # --- vehicle count
    n_out = sum(1 for (i, j) in g.arcs if i == g.depot_index)
    n_in = sum(1 for (i, j) in g.arcs if j == g.depot_index)
    if obs["V"] != min(n_out, n_in):
        return "vehicles", f"estimate_max_vehicles() = {obs['V']}, but {n_out} arcs leave and {n_in} arcs enter the depot"
    # --- grid
    if obs["grid"][0] != "ok":
        return "grid-raises", f"get_arc_based(make_feasible=False) raised {obs['grid'][2]}"
    grid = [fr(x) for x in obs["grid"][1]]
    want, per_node = expected_grid(m)
    if grid != [F(z) for z in want]:
        missing = [z for z in want if F(z) not in grid]
        extra = [str(x) for x in grid if x not in [F(z) for z in want]]
        return "grid", (f"time grid {[str(x) for x in grid]} differs from {{0}} U {{integers inside finite windows}} = {want}"
                        f" (missing {missing}, extra {extra})")
    if info is not None:
        info["nodes_without_point"] += sum(1 for p in per_node if p == [])
        info["grid_points"] += len(grid)
        if not any(0 in p for p in per_node if p):
            info["zero_only_appended"] += 1
    # --- sequence parameters
    tts = [a.travel_time for a in g.arcs.values()]
    pos = [t for t in tts if t > 0]
    if not pos:
        if obs["seq"][0] != "err" or obs["seq"][1] != "ValueError":
            return "seq-no-positive", f"no arc has a positive travel time but get_sequence_based gave {obs['seq']}"
    else:
        if obs["seq"][0] != "ok":
            return "seq-raises", (f"get_sequence_based(make_feasible=False) raised {obs['seq'][2]} although "
                                  f"{len(pos)} arcs have a positive travel time")
        V, L, vc = obs["seq"][1]
        mt = min(pos)
        want_L = py_int(H / mt + 2)
        if V != min(n_out, n_in) or vc != [0] * V:
            return "seq-vehicles", f"sequence object has max_vehicles {V}, vehicle_cost {vc}; expected {min(n_out, n_in)}"
        if L != want_L:
            return "seq-length", (f"max_sequence_length = {L}, expected int(H / min positive travel time + 2) = "
                                  f"int({H} / {mt} + 2) = {want_L}")
        if info is not None:
            info["L_values"][str(L)] = info["L_values"].get(str(L), 0) + 1
    # --- high cost
    freqs = [v for _, v in obs["pf"]]
    costs = [a.cost for a in g.arcs.values()]
    if not freqs or (min(freqs) != 0 and not costs):
        want_h = ("err", "ValueError")
    elif min(freqs) == 0:
        want_h = ("err", "OtherError")
    else:
        want_h = ("ok", 2 * max(costs) * (H / min(freqs)))
    got_h = obs["high"]
    if got_h[0] != want_h[0] or (got_h[0] == "err" and got_h[1] != want_h[1]) or (got_h[0] == "ok" and not (got_h[1] == want_h[1])):
        return "high-cost", f"estimate_high_cost() gave {got_h[:2]}, expected 2 * max cost * H / min frequency = {want_h}"
    # --- path rounds
    if want_h[0] == "err":
        if obs["path"][0] != "err" or obs["path"][1] != want_h[1]:
            return "path-raises", f"estimate_high_cost raises {want_h[1]} but get_path_based gave {obs['path'][:2]}"
    else:
        if obs["path"][0] != "ok":
            return "path-raises", f"get_path_based(make_feasible=False) raised {obs['path'][2]}"
        p = obs["path"][1]
        reps = [(0.0, 1), (1.0, max(0, py_int(H))), (INF, max(0, py_int(10 * H)))]
        want_runs = [(e, c) for e, c in reps if c > 0]
        if [(float(e), c) for e, c in p["runs"]] != want_runs:
            return "path-rounds", f"add_routes_better calls (explore, count) = {p['runs']}, expected {want_runs}"
        nn = len(g.nodes)
        for nc in p["node_costs"]:
            if len(nc) != nn or not (nc[g.depot_index] == want_h[1]) or any(not (c == 0) for k, c in enumerate(nc) if k != g.depot_index):
                return "path-node-costs", f"node_costs handed to add_routes_better = {nc}, expected high cost {want_h[1]} at the depot, 0 elsewhere"
        tc = p["tc"]
        for t in TS:
            tv = XQ(t) if exact else float(t)
            w = 0 if t <= 10 else 100 * tv
            if not (tc(tv) == w):
                return "path-time-costs", f"time_costs({t}) = {tc(tv)}, expected {w}"
    return None


def check_pf(m, ports):
    """port_frequency = {name: |cap / rate|} over the add_nodes calls that reached the assignment."""
    want = {}
    for (name, init, rate, cap) in ports:
        if rate == 0:
            continue
        v = cap / rate
        want[name] = -v if v < 0 else v
    got = dict(m.port_frequency)
    if list(got.keys()) != list(want.keys()) or any(not (got[k] == want[k]) for k in want):
        return f"port_frequency = {got}, expected {want}"
    return None


# ---------------- exact builds ----------------
def q4(rng, lo, hi):
    return F(rng.randint(int(lo * 4), int(hi * 4)), 4)


def gen_port(rng, name, supply, size):
    mode = rng.random()
    if mode < 0.15:
        cap = size
    elif mode < 0.7:
        cap = size + q4(rng, 0.25, 2)
    else:
        cap = size * 2 + q4(rng, 0, 2)
    init = rng.choice([F(0), cap, q4(rng, 0, float(cap))])
    rate = rng.choice([F(1, 4), F(1, 2), F(3, 4), F(1), F(3, 2), F(2), F(5, 4), F(2, 3), F(3, 7)])
    return ("nodes", name, init, rate if supply else -rate, cap)


def window_ends(size, op, H):
    _, name, init, rate, cap = op
    out = []
    k = 0
    while k < 12:
        b = (cap + k * size - init) / rate if rate > 0 else (-k * size - init) / rate
        if b > H:
            break
        out.append(b)
        k += 1
    return out


def gen_canonical(rng):
    size = rng.choice([F(1), F(2), F(3), F(5, 2), F(3, 2)])
    ns, nd = rng.randint(1, 3), rng.randint(1, 3)
    sup = [f"S{i + 1}" for i in range(ns)]
    dmd = [f"D{i + 1}" for i in range(nd)]
    ports = [gen_port(rng, p, True, size) for p in sup] + [gen_port(rng, p, False, size) for p in dmd]
    if rng.random() < 0.5:
        rng.shuffle(ports)
    H = q4(rng, 2, 16)
    ends = sorted(e for p in ports for e in window_ends(size, p, H))
    if ends and rng.random() < 0.3:
        H = rng.choice(ends)
    while sum(len(window_ends(size, p, H)) for p in ports) > 12 and H > 1:
        H = H / 2
    ends = sorted(e for p in ports for e in window_ends(size, p, H))
    # distances: short enough that travel arcs pass the filter in most builds, long in some (no positive
    # travel time survives -> ValueError in get_sequence_based)
    far = rng.random() < 0.12
    dist = []
    for s in sup:
        for d in dmd:
            v = q4(rng, 0.25, 5) + (30 if far else 0)
            dist.append(((s, d), v))
    fvals = rng.sample(range(1, 40), len(sup) + len(dmd))
    fs = [(s, F(fvals.pop(), 2)) for s in sup]
    fd = [(d, F(fvals.pop(), 2) + 30) for d in dmd]
    speed = rng.choice([F(1), F(2), F(1, 2), F(4), F(3)])
    unit = rng.choice([F(1), F(1, 2), F(3, 4), F(2), F(0)])
    r = rng.random()
    if ends and r < 0.5:
        limit = rng.choice(ends)
    elif r < 0.8:
        limit = q4(rng, 0, float(H) + 1)
    else:
        limit = H + 1
    ett, ec = (F(0), F(0)) if rng.random() < 0.6 else (q4(rng, 0, 2), q4(rng, 0, 5))
    ntt, nc = (F(0), F(0)) if rng.random() < 0.6 else (q4(rng, 0, 3), q4(rng, 0, 5))
    ops = ports + [("travel", dist, speed, unit, fs, fd), ("exit", ett, ec), ("entry", limit, ntt, nc)]
    return size, H, ops


def gen_history(rng):
    """Shorter / malformed histories: no port at all, ports without arcs, rate 0 (no frequency entry),
    capacity 0 (frequency 0 -> ZeroDivisionError), a re-registered port (frequency overwritten in place)."""
    size = rng.choice([F(1), F(2), F(3, 2)])
    H = q4(rng, 2, 9)
    ops = []
    kind = rng.choice(["empty", "nodes-only", "rate0", "cap0", "reuse", "no-entry", "exit-only"])
    if kind == "empty":
        if rng.random() < 0.5:
            ops.append(("exit", q4(rng, 0, 2), q4(rng, 0, 3)))
        return size, H, ops
    ops.append(gen_port(rng, "S1", True, size))
    ops.append(gen_port(rng, "D1", False, size))
    if kind == "nodes-only":
        return size, H, ops
    if kind == "rate0":
        ops.append(("nodes", "S2", F(1), F(0), size + 1))
    if kind == "cap0":
        ops.append(("nodes", "D2", F(0), -F(1, 2), F(0)))
    if kind == "reuse":
        ops.append(gen_port(rng, "S1", True, size))
    dist = [(("S1", "D1"), q4(rng, 0.25, 4)), (("S2", "D1"), q4(rng, 0.25, 4)), (("S1", "D2"), q4(rng, 0.25, 4)),
            (("S2", "D2"), q4(rng, 0.25, 4))]
    fs = [("S1", F(3)), ("S2", F(4))]
    fd = [("D1", F(31)), ("D2", F(33))]
    if kind != "exit-only":
        ops.append(("travel", dist, rng.choice([F(1), F(2)]), F(1), fs, fd))
    ops.append(("exit", q4(rng, 0, 2), q4(rng, 0, 3)))
    if kind not in ("no-entry", "exit-only"):
        ops.append(("entry", q4(rng, 0, float(H) + 1), q4(rng, 0, 2), q4(rng, 0, 3)))
    return size, H, ops


def run_history(size, H, ops):
    m = mc.make_mirp(size, H)
    rs = [mc.apply_op(m, op) for op in ops]
    return m, rs


def strict_ok(m):
    """The strict sequence class evaluates `window end + travel time` for every non-depot origin; for a dummy
    vessel that is `inf + XQ`, which the exact number class refuses.  The flag does not influence what the
    wrapper chooses (V and L are computed on the MIRP's own graph), so exact builds with dummy vessels use the
    non-strict class; the strict class is exercised there by the float streams."""
    return not any(isinstance(n.time_window[1], float) for n in m.vrptw.nodes[1:])


def res_q_lit(r):
    return lit.ok(mc.q_lit(r[1])) if r[0] == "ok" else lit.err(r[1])


def ext_lit(e):
    if isinstance(e, float) and math.isinf(e):
        return "QInf"
    return f"(QFin {lit.q(F(e))})"


def wimpl_lit(obs, pf_code):
    high = res_q_lit(obs["high"])
    grid = lit.lst([lit.z(lit.exact_int(frac(x))) for x in obs["grid"][1]])
    if obs["seq"][0] == "ok":
        seq = lit.ok(lit.pair(lit.nat(obs["seq"][1][0]), lit.z(obs["seq"][1][1])))
    else:
        seq = lit.err(obs["seq"][1])
    if obs["path"][0] == "ok":
        p = obs["path"][1]
        # the model lists all three rounds with their counts; a round of count 0 makes no call
        runs = {float(e): c for e, c in p["runs"]}
        rounds = lit.lst([lit.pair(ext_lit(e), lit.z(runs.get(e, 0))) for e in (0.0, 1.0, INF)])
        nc = p["node_costs"][0]
        path = lit.ok(lit.tup(rounds, lit.lst([mc.q_lit(c) for c in nc]), mc.q_lit(nc[0])))
        tc = p["tc"]
        tcv = lit.lst([mc.q_lit(tc(XQ(t))) for t in TS])
    else:
        path = lit.err(obs["path"][1])
        tcv = lit.lst([lit.q(0 if t <= 10 else 100 * t) for t in TS])      # no closure to sample: not compared
    ts = lit.lst([lit.q(t) for t in TS])
    pf = lit.lst([lit.pair(lit.nat(pf_code(k)), mc.q_lit(v)) for k, v in obs["pf"]])
    return f"(mkWI {high} {lit.nat(obs['V'])} {grid} {seq} {path} {ts} {tcv} {pf})"


def case_lit(size, H, ops, obs):
    return lit.tup(lit.q(size), lit.q(H), lit.lst([mc.op_lit(o) for o in ops]), wimpl_lit(obs, lambda k: mc.PORT_CODE[k]))


def ops_json(ops):
    return mc.jsonable([list(o) for o in ops])


def obs_json(obs):
    def one(r):
        if r[0] == "err":
            return {"raises": r[2]}
        return mc.jsonable(r[1])
    out = {"high_cost": one(obs["high"]), "max_vehicles": obs["V"], "grid": one(obs["grid"]), "sequence": one(obs["seq"]),
           "port_frequency": mc.jsonable(obs["pf"])}
    if obs["path"][0] == "ok":
        out["path"] = {"runs": [[str(e), c] for e, c in obs["path"][1]["runs"]],
                       "node_costs": mc.jsonable(obs["path"][1]["node_costs"][:1])}
    else:
        out["path"] = {"raises": obs["path"][2]}
    return out


def exact_failure(size, H, ops, strict=True):
    m, rs = run_history(size, H, ops)
    obs = observe(m, strict and strict_ok(m))
    r = oracle(m, obs, True)
    if r:
        return r
    msg = check_pf(m, [(o[1], o[2], o[3], o[4]) for o in ops if o[0] == "nodes"])
    return ("port-frequency", msg) if msg else None


def shrink_ops(size, H, ops, pred):
    ops = list(ops)
    changed = True
    while changed:
        changed = False
        for i in range(len(ops)):
            cand = ops[:i] + ops[i + 1:]
            if pred(size, H, cand):
                ops = cand
                changed = True
                break
    return ops


# ---------------- dyadic float builds (numpy's float loops) ----------------
def gen_float_build(rng):
    """Data for which every float operation of the build and of the wrappers is exact: k/8 values, rates,
    capacities, distances and speeds powers of two (so all quotients are dyadic)."""
    size = rng.choice([0.5, 1.0, 2.0])
    H = rng.randint(16, 128) / 8.0
    ports = []
    for i in range(rng.randint(1, 2)):
        cap = rng.choice([c for c in (1.0, 2.0, 4.0, 8.0) if c >= size])
        ports.append((f"S{i + 1}", rng.randint(0, int(cap * 8)) / 8.0, rng.choice([0.5, 1.0, 2.0, 0.25]), cap))
    for i in range(rng.randint(1, 2)):
        cap = rng.choice([c for c in (1.0, 2.0, 4.0, 8.0) if c >= size])
        ports.append((f"D{i + 1}", rng.randint(0, int(cap * 8)) / 8.0, -rng.choice([0.5, 1.0, 2.0, 0.25]), cap))
    dist = {}
    for p in ports:
        for q in ports:
            dist[(p[0], q[0])] = rng.choice([0.5, 1.0, 2.0, 4.0])
    speed = rng.choice([1.0, 2.0, 0.5])
    unit = rng.choice([1.0, 0.5, 0.0, 1.5])
    fees = {p[0]: rng.randint(0, 40) / 4.0 for p in ports}
    ex = (0.0, 0.0) if rng.random() < 0.6 else (rng.choice([0.25, 0.5, 1.0]), rng.randint(0, 20) / 4.0)
    limit = rng.randint(0, int(H * 8) + 8) / 8.0
    return {"size": size, "H": H, "ports": ports, "dist": dist, "speed": speed, "unit": unit, "fees": fees, "exit": ex, "limit": limit}


def build_float(d, self_arc=False):
    from vrpqubo.applications.mirp import MIRP
    m = MIRP(d["size"], d["H"])
    for (name, init, rate, cap) in d["ports"]:
        m.add_nodes(name, init, rate, cap)
    if len(m.vrptw.nodes) > 14:
        return None
    m.add_travel_arcs(lambda a, b: d["dist"][(a, b)], d["speed"], d["unit"], d["fees"], d["fees"])
    m.add_exit_arcs(*d["exit"])
    m.add_entry_arcs(d["limit"])
    if self_arc:
        m.add_arc("Depot", "Depot", 0.5, 1.25)        # a depot self-arc counts as leaving and as entering
    return m


def gcase_lit(m, obs):
    g = m.vrptw
    ws = lit.lst([lit.pair(lit.q(F(n.time_window[0])), ext_lit(n.time_window[1])) for n in g.nodes])
    arcs = lit.lst([lit.pair(lit.pair(lit.nat(i), lit.nat(j)), lit.pair(lit.q(F(a.travel_time)), lit.q(F(a.cost))))
                    for (i, j), a in g.arcs.items()])
    names = list(m.port_frequency.keys())
    pf = lit.lst([lit.pair(lit.nat(names.index(k)), lit.q(F(float(v)))) for k, v in m.port_frequency.items()])
    return lit.tup(ws, arcs, lit.q(F(m.time_horizon)), pf, wimpl_lit_float(obs, names))


def wimpl_lit_float(obs, names):
    def qf(x):
        return lit.q(F(float(x)))
    high = lit.ok(qf(obs["high"][1])) if obs["high"][0] == "ok" else lit.err(obs["high"][1])
    grid = lit.lst([lit.z(lit.exact_int(x)) for x in obs["grid"][1]])
    seq = (lit.ok(lit.pair(lit.nat(obs["seq"][1][0]), lit.z(obs["seq"][1][1]))) if obs["seq"][0] == "ok" else lit.err(obs["seq"][1]))
    if obs["path"][0] == "ok":
        p = obs["path"][1]
        runs = {float(e): c for e, c in p["runs"]}
        rounds = lit.lst([lit.pair(ext_lit(e), lit.z(runs.get(e, 0))) for e in (0.0, 1.0, INF)])
        nc = p["node_costs"][0]
        path = lit.ok(lit.tup(rounds, lit.lst([qf(c) for c in nc]), qf(nc[0])))
        tcv = lit.lst([qf(p["tc"](float(t))) for t in TS if F(float(t)) == t])
    else:
        path = lit.err(obs["path"][1])
        tcv = lit.lst([lit.q(0 if t <= 10 else 100 * t) for t in TS if F(float(t)) == t])
    ts = lit.lst([lit.q(t) for t in TS if F(float(t)) == t])
    pf = lit.lst([lit.pair(lit.nat(names.index(k)), qf(v)) for k, v in obs["pf"]])
    return f"(mkWI {high} {lit.nat(obs['V'])} {grid} {seq} {path} {ts} {tcv} {pf})"


# ---------------- recording add_nodes arguments of the example builders ----------------
@contextlib.contextmanager
def recorded_ports(log):
    from vrpqubo.applications.mirp import MIRP
    orig = MIRP.add_nodes

    def f(self, name, inventory_init, inventory_rate, inventory_cap):
        log.append((name, inventory_init, inventory_rate, inventory_cap))
        return orig(self, name, inventory_init, inventory_rate, inventory_cap)
    try:
        MIRP.add_nodes = f
        yield
    finally:
        MIRP.add_nodes = orig


def float_pf_check(m, ports):
    import numpy as np
    want = {}
    for (name, init, rate, cap) in ports:
        want[name] = np.fabs(cap / rate)
    got = dict(m.port_frequency)
    if list(got.keys()) != list(want.keys()) or any(got[k] != want[k] for k in want):
        return f"port_frequency = {got}, expected {want}"
    return None


# ---------------- main ----------------
def run_part(ctx):
    # the three formulation getters of MIRP regenerated from the source and proved equal to MirpWrap.v
    import translate_mirpwrap as TMW
    ctx.gen_step("mirpwrap", TMW.translate, "C09_wrap_gen",
                 "harness/translate_mirpwrap.py (subclass of the typed printer translate_mirp.py for MIRP.get_arc_based / "
                 "get_path_based (with the nested time_costs) / get_sequence_based; meaning of the emitted combinators: "
                 "coq/theories/PyMirpWrap.v, PyMirp.v; estimate_high_cost is the definition generated by translate_mirp)")
    rng = ctx.rng
    n_canon = 150 if ctx.quick else 2000
    n_hist = 45 if ctx.quick else 500
    n_float = 60 if ctx.quick else 800
    info = {"canonical": 0, "histories": 0, "float_dyadic_builds": 0, "g1_horizons": 0, "random_generator_instances": 0,
            "high_cost_errors": {}, "seq_errors": {}, "L_values": {}, "nodes_without_point": 0, "grid_points": 0,
            "zero_only_appended": 0, "V_out_ne_in": 0, "V_values": {}, "self_arc_cases": 0, "max_nodes": 0, "max_arcs": 0,
            "L_at_integer_ratio": 0}
    reported = set()

    def report(sig, msg, replay, found=True):
        if sig in reported:
            return
        reported.add(sig)
        ctx.violation(sig, msg, replay, found)

    def tally(m, obs):
        g = m.vrptw
        info["max_nodes"] = max(info["max_nodes"], len(g.nodes))
        info["max_arcs"] = max(info["max_arcs"], len(g.arcs))
        n_out = sum(1 for (i, j) in g.arcs if i == 0)
        n_in = sum(1 for (i, j) in g.arcs if j == 0)
        if n_out != n_in:
            info["V_out_ne_in"] += 1
        info["V_values"][str(obs["V"])] = info["V_values"].get(str(obs["V"]), 0) + 1
        if obs["high"][0] == "err":
            info["high_cost_errors"][obs["high"][2]] = info["high_cost_errors"].get(obs["high"][2], 0) + 1
        if obs["seq"][0] == "err":
            info["seq_errors"][obs["seq"][2]] = info["seq_errors"].get(obs["seq"][2], 0) + 1

    # ---- 1. oracle on the example builders (floats, same float operations) ----
    from vrpqubo.examples.mirp_g1 import get_mirp
    from vrpqubo.examples import mirp_random
    hs = []
    h = 4.0
    step = 1.5 if ctx.quick else 0.25
    while h <= 44.0:
        hs.append(h)
        h += step
    for h in hs:
        log = []
        with recorded_ports(log):
            m = get_mirp(h)
        obs = observe(m, strict=(int(h * 4) % 2 == 0))
        r = oracle(m, obs, False, info)
        if not r:
            msg = float_pf_check(m, log)
            r = ("port-frequency", msg) if msg else None
        tally(m, obs)
        info["g1_horizons"] += 1
        if r:
            report(f"oracle/wrap/{r[0]}", f"mirp_g1.get_mirp({h}): {r[1]}",
                   {"input": {"builder": "vrpqubo.examples.mirp_g1.get_mirp", "time_horizon": h},
                    "observed": obs_json(obs), "python": "props.c09_wrap.oracle(m, observe(m), False)"})
    seeds = range(5) if ctx.quick else range(40)
    for seed in seeds:
        for (ns, nd, hz) in ((1, 1, 60.0), (2, 2, 50.0), (2, 3, 40.0), (3, 2, 80.0)):
            gen = mirp_random.get_generator(ns, nd, hz)
            gen.seed = seed
            log = []
            with recorded_ports(log):
                m = gen.get_random_mirp(reset_seed=True)
            obs = observe(m, strict=(seed % 2 == 0))
            r = oracle(m, obs, False, info)
            if not r:
                msg = float_pf_check(m, log)
                r = ("port-frequency", msg) if msg else None
            tally(m, obs)
            info["random_generator_instances"] += 1
            if r:
                report(f"oracle/wrap/{r[0]}", f"mirp_random.get_generator({ns},{nd},{hz}) seed {seed}: {r[1]}",
                       {"input": {"builder": "vrpqubo.examples.mirp_random.get_generator", "num_supply_ports": ns,
                                  "num_demand_ports": nd, "time_horizon": hz, "seed": seed},
                        "observed": obs_json(obs),
                        "python": "gen = get_generator(ns, nd, hz); gen.seed = seed; m = gen.get_random_mirp(reset_seed=True); props.c09_wrap.oracle(m, observe(m), False)"})

    # ---- 2. exact builds: oracle + correspondence ----
    cases = []
    terms = []
    nontrivial = set()
    for k in range(n_canon + n_hist):
        canonical = k < n_canon
        size, H, ops = gen_canonical(rng) if canonical else gen_history(rng)
        m, rs = run_history(size, H, ops)
        strict = (k % 2 == 0) and strict_ok(m)
        info["exact_strict" if strict else "exact_non_strict"] = info.get("exact_strict" if strict else "exact_non_strict", 0) + 1
        obs = observe(m, strict)
        info["canonical" if canonical else "histories"] += 1
        tally(m, obs)
        r = oracle(m, obs, True, info)
        if not r:
            msg = check_pf(m, [(o[1], o[2], o[3], o[4]) for o in ops if o[0] == "nodes"])
            r = ("port-frequency", msg) if msg else None
        if r and f"oracle/wrap/{r[0]}" not in reported:
            small = shrink_ops(size, H, ops, lambda s, hh, o: (exact_failure(s, hh, o, strict) or ("", ""))[0] == r[0])
            r2 = exact_failure(size, H, small, strict) or r
            m2, _ = run_history(size, H, small)
            report(f"oracle/wrap/{r2[0]}", r2[1],
                   {"input": {"cargo_size": str(size), "time_horizon": str(H), "history": ops_json(small), "strict": strict},
                    "observed": obs_json(observe(m2, strict and strict_ok(m2))),
                    "python": "props.c09_wrap.exact_failure(size, H, history) with Fractions"})
        if obs["seq"][0] == "ok":
            tts = [frac(a.travel_time) for a in m.vrptw.arcs.values() if a.travel_time > 0]
            if (H / min(tts)).denominator == 1:
                info["L_at_integer_ratio"] += 1
        if obs["grid"][0] != "ok":
            continue                                   # reported by the oracle; nothing to compare
        cases.append((size, H, ops, obs, strict))
        terms.append(case_lit(size, H, ops, obs))
        if obs["seq"][0] == "ok" and obs["high"][0] == "ok" and len(obs["grid"][1]) >= 3:
            nontrivial.add(repr((size, H, ops)))
    # canary: a case that must be flagged (grid without its 0, L off by two), so that a parser / checker that
    # silently accepts everything is noticed
    canary_idx = None
    for idx, (size, H, ops, obs, strict) in enumerate(cases):
        if obs["seq"][0] == "ok" and obs["grid"][0] == "ok":
            bad = dict(obs)
            bad["grid"] = ("ok", [x for x in obs["grid"][1] if x != 0])
            bad["seq"] = ("ok", (obs["seq"][1][0], obs["seq"][1][1] - 2, obs["seq"][1][2]))
            canary_idx = len(terms)
            terms.append(case_lit(size, H, ops, bad))
            break
    mism, err = ctx.coq_mismatches("wrap", HEADER, "wcase", "check_wcase", terms, shard=20)
    if err is None and canary_idx is not None:
        hit = [t for i, t in mism if i == canary_idx]
        if not hit or not {3, 4} <= set(hit[0]):
            ctx.tooling_failure("correspondence/wrap-canary", f"the planted mismatch was answered {hit}")
        mism = [(i, t) for i, t in mism if i != canary_idx]
    for idx, tags in mism[:1]:
        size, H, ops, obs, strict = cases[idx]

        def disagrees(s, hh, o):
            m2, _ = run_history(s, hh, o)
            o2 = observe(m2, strict and strict_ok(m2))
            if o2["grid"][0] != "ok":
                return False
            mm, e2 = ctx.coq_mismatches("wshrink", HEADER, "wcase", "check_wcase", [case_lit(s, hh, o, o2)])
            return bool(mm)
        small = shrink_ops(size, H, ops, disagrees) if len(ops) <= 9 else ops
        if not exact_failure(size, H, small, strict) and exact_failure(size, H, ops, strict):
            small = ops
        m2, _ = run_history(size, H, small)
        obs2 = observe(m2, strict and strict_ok(m2))
        model = ctx.coq_eval(HEADER, f"let w := wrun {lit.lst([mc.op_lit(o) for o in small])} (winit {lit.q(size)} {lit.q(H)}) in "
                                     "(estimate_high_cost w, est_max_vehicles (gr (wst w)), arc_grid (gr (wst w)), seq_params w, path_plan w, wpf w)")
        om = exact_failure(size, H, small, strict)
        ctx.violation(f"correspondence/wrap/tags{tags}",
                      f"model and implementation of the MIRP wrappers disagree (fields {tags} of: 1 high cost, 2 max vehicles, "
                      "3 time grid, 4 (V, L) of the sequence object, 5 add_routes_better rounds / node_costs, 6 time_costs, "
                      "7 port_frequency); " + (f"the oracle fails on it: {om[1]}" if om else "the oracle found no failing input on it"),
                      {"correspondence": "MirpWrap.check_wcase",
                       "input": {"cargo_size": str(size), "time_horizon": str(H), "history": ops_json(small), "strict": strict},
                       "implementation": obs_json(obs2), "model": model, "mismatching_cases": len(mism)}, bool(om))

    # ---- 3. dyadic floats: numpy's float loops of ceil / floor / arange / isinf; graph-level comparison ----
    gterms = []
    gcases = []
    tries = 0
    while len(gterms) < n_float and tries < 20 * n_float:
        tries += 1
        d = gen_float_build(rng)
        self_arc = (len(gterms) % 10 == 9)
        m = build_float(d, self_arc)
        if m is None:
            continue
        obs = observe(m, strict=(tries % 2 == 0))
        r = oracle(m, obs, False, info)
        tally(m, obs)
        if self_arc:
            info["self_arc_cases"] += 1
        if r:
            report(f"oracle/wrap/{r[0]}", f"float build: {r[1]}",
                   {"input": {"float_build": mc.jsonable({k: (v if k != "dist" else [[a, b, x] for (a, b), x in v.items()]) for k, v in d.items()}),
                              "depot_self_arc": self_arc},
                    "observed": obs_json(obs), "python": "props.c09_wrap.build_float(d, self_arc); oracle(m, observe(m), False)"})
        if obs["grid"][0] != "ok":
            continue
        gterms.append(gcase_lit(m, obs))
        gcases.append((d, self_arc, obs))
        info["float_dyadic_builds"] += 1
    gm, gerr = ctx.coq_mismatches("wrapf", HEADER, "gcase", "check_gcase", gterms, shard=20)
    for idx, tags in gm[:1]:
        d, self_arc, obs = gcases[idx]
        ctx.violation(f"correspondence/wrap-float/tags{tags}",
                      f"model and implementation of the MIRP wrappers disagree on a dyadic float build (fields {tags} of: 1 high cost, "
                      "2 max vehicles, 3 time grid, 4 (V, L), 5 rounds / node_costs, 6 time_costs); the oracle found no failing input on it",
                      {"correspondence": "MirpWrap.check_gcase",
                       "input": {"float_build": mc.jsonable({k: (v if k != "dist" else [[a, b, x] for (a, b), x in v.items()]) for k, v in d.items()}),
                                 "depot_self_arc": self_arc},
                       "implementation": obs_json(obs), "mismatching_cases": len(gm)}, False)

    ctx.count(evaluations=len(cases) + len(gcases) + info["g1_horizons"] + info["random_generator_instances"],
              nontrivial=len(nontrivial), traces=len(cases) + len(gcases))
    d0 = ctx.cov.get("input_distribution")
    if isinstance(d0, dict):
        d0["wrappers"] = info
    else:
        ctx.cov["input_distribution"] = {"wrappers": info}
    rule = ("wrappers: exact (rational) canonical MIRP builds with 1-3 supply and 1-3 demand ports (k/4 data, rates also 2/3 and 3/7, "
            "horizons aimed at window ends, exit / entry times positive in 40%, far-apart ports in 12% so that no positive travel time "
            "survives) and short / malformed histories (no port, no arcs, rate 0, capacity 0, re-registered port); dyadic float builds "
            "(every tenth with a depot self-arc) compared on the graph; non-trivial = distinct exact build on which the high cost and "
            "(V, L) exist and the grid has >= 3 points. G1 horizon sweep and random generator go through the oracle only.")
    ctx.cov["rule"] = (ctx.cov.get("rule") + " | " if ctx.cov.get("rule") else "") + rule
    for c in cases[:2]:
        ctx.sample({"part": "wrappers", "cargo_size": str(c[0]), "time_horizon": str(c[1]), "history": ops_json(c[2]),
                    "observed": obs_json(c[3])})
    ctx.assumptions.append("wrappers: exact arithmetic (rationals, or floats on which every operation is exact); for general floats "
                           "(G1, random generator) the clauses are recomputed with the same float operations by the oracle only")


def ops_from_json(js):
    out = []
    for o in js:
        if o[0] == "nodes":
            out.append(("nodes", o[1], F(o[2]), F(o[3]), F(o[4])))
        elif o[0] == "travel":
            out.append(("travel", [((k[0], k[1]), F(v)) for k, v in o[1]], F(o[2]), F(o[3]),
                        [(k, F(v)) for k, v in o[4]], [(k, F(v)) for k, v in o[5]]))
        elif o[0] == "exit":
            out.append(("exit", F(o[1]), F(o[2])))
        else:
            out.append(("entry", F(o[1]), F(o[2]), F(o[3])))
    return out


def replay_part(ctx, data):
    r = data["replay"]["input"]
    if "history" in r:
        print(exact_failure(F(r["cargo_size"]), F(r["time_horizon"]), ops_from_json(r["history"]), r.get("strict", True)))
    elif r.get("builder", "").endswith("get_mirp"):
        from vrpqubo.examples.mirp_g1 import get_mirp
        m = get_mirp(r["time_horizon"])
        print(oracle(m, observe(m), False))
    elif "seed" in r:
        from vrpqubo.examples import mirp_random
        gen = mirp_random.get_generator(r["num_supply_ports"], r["num_demand_ports"], r["time_horizon"])
        gen.seed = r["seed"]
        m = gen.get_random_mirp(reset_seed=True)
        print(oracle(m, observe(m), False))
    else:
        print(r)
