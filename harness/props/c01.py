"""C01 -- QUBO and Ising forms have equal energy on every assignment.

Proof: coq/props/C01.v (generic commutative ring; instances Qc and R).
Tie:   random small matrices (entries k/4, also integer dtype) are handed to the REAL functions of
       vrpqubo.tools.qubo_tools as ndarray / csr_array / coo_array / lil_array / csr_matrix; dense J, h, c,
       dense Q', c', x_to_s, s_to_x and the two evaluators at ALL 2^n assignments are compared, inside
       Coq and exactly, with the Qc instance of the model (theories/Qubo.v).
Oracle: an independent exact-Fraction computation of x'Qx + c (and of s'Js + h's + c) is compared with
       evaluate_Ising(QUBO_to_Ising(Q, c), x_to_s(x)) (and evaluate_QUBO(Ising_to_QUBO(J, h, c), x)) over
       all assignments; zero diagonal of J; the maps; ValueError on non-square shapes.
Purity: every argument of every call is deep-snapshotted before and after the call.

This module also holds the generators / container builders / snapshot code shared with c13.py."""
import itertools
from fractions import Fraction

import numpy as np
import scipy.sparse as sp

from vq import lit
from vq.core import exc_cls

HEADER = """From Coq Require Import List String QArith Qcanon.
From VQ Require Import Base Qubo.
Import ListNotations.
Local Open Scope Z_scope.
Definition q (a b : Z) : Qc := Q2Qc (Qmake a (Z.to_pos b)).
Definition z (a : Z) : Qc := Q2Qc (inject_Z a)."""

KINDS = ["ndarray", "csr_array", "coo_array", "lil_array", "csr_matrix"]
SHAPES = ["full", "sparse", "zero_row", "zero_col", "zero_rowcol", "strict_upper", "strict_lower",
          "upper", "lower", "symmetric", "diagonal", "zero", "single_offdiag", "antisym_offdiag", "zero_trace"]


# ------------------------------------------------------------------ exact numbers
def fr(x):
    """Exact value of a number returned by the implementation."""
    if isinstance(x, Fraction):
        return x
    a = np.asarray(x)
    if a.size != 1:
        raise TypeError(f"expected a scalar, got shape {a.shape}")
    v = a.reshape(-1)[0]
    if isinstance(v, (np.integer, int, np.bool_)):
        return Fraction(int(v))
    return Fraction(float(v))


def fr_vec(v):
    a = np.asarray(v)
    if a.ndim != 1:
        raise TypeError(f"expected a vector, got shape {a.shape}")
    return [fr(t) for t in a]


def fr_mat(m):
    a = m.toarray() if sp.issparse(m) else np.asarray(m)
    if a.ndim != 2:
        raise TypeError(f"expected a matrix, got shape {a.shape}")
    return [[fr(t) for t in row] for row in a]


def qlit(x):
    x = Fraction(x)
    if x.denominator == 1:
        return f"(z {x.numerator})" if x.numerator >= 0 else f"(z ({x.numerator}))"
    n = f"({x.numerator})" if x.numerator < 0 else f"{x.numerator}"
    return f"(q {n} {x.denominator})"


def vfmt(v):
    return "[" + ", ".join(str(t) for t in v) + "]"


def vlit(v):
    return lit.lst([qlit(t) for t in v])


def mlit(m):
    return lit.lst([vlit(r) for r in m])


def shlit(sh):
    return lit.pair(lit.nat(sh[0]), lit.nat(sh[1]))


def jsonable(o):
    if isinstance(o, Fraction):
        return str(o)
    if isinstance(o, (list, tuple)):
        return [jsonable(t) for t in o]
    if isinstance(o, dict):
        return {k: jsonable(v) for k, v in o.items()}
    return o


def unjson(o):
    if isinstance(o, str):
        try:
            return Fraction(o)
        except ValueError:
            return o
    if isinstance(o, list):
        return [unjson(t) for t in o]
    if isinstance(o, dict):
        return {k: unjson(v) for k, v in o.items()}
    return o


# ------------------------------------------------------------------ exact reference arithmetic
def qform(M, x):
    n = len(x)
    return sum((M[i][j] * x[i] * x[j] for i in range(n) for j in range(n)), Fraction(0))


def ref_qubo(M, c, x):
    return qform(M, x) + c


def ref_ising(J, h, c, s):
    return qform(J, s) + sum((a * b for a, b in zip(h, s)), Fraction(0)) + c


def assignments(n):
    return [list(t) for t in itertools.product((0, 1), repeat=n)]


# ------------------------------------------------------------------ generators
def gen_entry(rng, integer, nonzero=False):
    while True:
        k = rng.randint(-8, 8)
        if k or not nonzero:
            return Fraction(k) if integer else Fraction(k, 4)


def gen_matrix(rng, n, m, shape, integer):
    """n x m matrix (list of rows of Fractions) with entries k/4 (or integers), k in -8..8."""
    M = [[gen_entry(rng, integer) for _ in range(m)] for _ in range(n)]
    r0 = rng.randrange(n)
    c0 = rng.randrange(m)
    for i in range(n):
        for j in range(m):
            if shape == "sparse" and rng.random() < 0.6:
                M[i][j] = Fraction(0)
            elif shape in ("zero_row", "zero_rowcol") and i == r0:
                M[i][j] = Fraction(0)
            if shape in ("zero_col", "zero_rowcol") and j == c0:
                M[i][j] = Fraction(0)
            if shape == "strict_upper" and i >= j:
                M[i][j] = Fraction(0)
            elif shape == "strict_lower" and i <= j:
                M[i][j] = Fraction(0)
            elif shape == "upper" and i > j:
                M[i][j] = Fraction(0)
            elif shape == "lower" and i < j:
                M[i][j] = Fraction(0)
            elif shape == "diagonal" and i != j:
                M[i][j] = Fraction(0)
            elif shape == "zero":
                M[i][j] = Fraction(0)
    if shape == "symmetric":
        for i in range(n):
            for j in range(m):
                if i < j and j < n and i < m:
                    M[j][i] = M[i][j]
    if shape == "antisym_offdiag":
        for i in range(n):
            for j in range(m):
                if i < j and j < n and i < m:
                    M[j][i] = -M[i][j]
    if shape == "zero_trace" and min(n, m) >= 2:
        # a diagonal that is not zero but sums to zero (a test "is there a diagonal?" must not look at the trace)
        a = gen_entry(rng, integer, nonzero=True)
        for i in range(min(n, m)):
            M[i][i] = Fraction(0)
        M[0][0], M[1][1] = a, -a
    if shape == "single_offdiag":
        M = [[Fraction(0)] * m for _ in range(n)]
        i, j = rng.randrange(n), rng.randrange(m)
        M[i][j] = gen_entry(rng, integer, nonzero=True)
        if n > 1 and m > 1 and i == j:
            M[i][j] = Fraction(0)
            M[i][(j + 1) % m] = gen_entry(rng, integer, nonzero=True)
    return M


def is_symmetric(M):
    n = len(M)
    return all(len(r) == n for r in M) and all(M[i][j] == M[j][i] for i in range(n) for j in range(n))


def dense_of(M, integer):
    if integer:
        return np.array([[int(v) for v in r] for r in M], dtype=np.int64).reshape(len(M), len(M[0]))
    return np.array([[float(v) for v in r] for r in M], dtype=float).reshape(len(M), len(M[0]))


def build(kind, M, integer, variant="plain", vseed=0):
    """The matrix M in the requested container.  Variants (sparse kinds only):
    'zeros' : some zero entries are stored explicitly;  'dups' (coo_array): some entries are stored as two
    summands.  All variants are in scipy's canonical form (sorted, CSR without duplicates)."""
    dense = dense_of(M, integer)
    if kind == "ndarray":
        return dense
    cls = getattr(sp, kind)
    if variant == "plain":
        return cls(dense)
    import random
    r = random.Random(vseed)
    n, m = dense.shape
    rows, cols, vals = [], [], []
    for i in range(n):
        for j in range(m):
            v = dense[i, j]
            if v != 0:
                if variant == "dups" and kind == "coo_array" and r.random() < 0.5:
                    rows += [i, i]
                    cols += [j, j]
                    vals += [v - 1, 1]
                else:
                    rows.append(i)
                    cols.append(j)
                    vals.append(v)
            elif variant == "zeros" and r.random() < 0.5:
                rows.append(i)
                cols.append(j)
                vals.append(0)
    coo = sp.coo_array((np.array(vals, dtype=dense.dtype), (np.array(rows, dtype=np.int64), np.array(cols, dtype=np.int64))),
                       shape=(n, m))
    if kind == "coo_array":
        return coo
    if kind == "csr_array":
        return coo.tocsr()
    if kind == "csr_matrix":
        return sp.csr_matrix(coo.tocsr())
    out = sp.lil_array((n, m), dtype=dense.dtype)
    for i, j, v in zip(rows, cols, vals):
        out[i, j] = v
    return out


def noncanonical_csr(M, integer, cls):
    """CSR with unsorted column indices and duplicated entries (same dense meaning as M)."""
    dense = dense_of(M, integer)
    n, m = dense.shape
    data, indices, indptr = [], [], [0]
    for i in range(n):
        for j in reversed(range(m)):
            v = dense[i, j]
            if v != 0:
                data += [v - 1, 1]
                indices += [j, j]
        indptr.append(len(data))
    return cls((np.array(data, dtype=dense.dtype), np.array(indices, dtype=np.int64), np.array(indptr, dtype=np.int64)),
               shape=(n, m))


# ------------------------------------------------------------------ purity: deep snapshots
def snap(a):
    if isinstance(a, np.ndarray):
        return ("ndarray", a.dtype.str, a.shape, a.tobytes())
    if sp.issparse(a):
        out = [type(a).__name__, a.format, a.dtype.str, tuple(a.shape), a.toarray().tobytes()]
        if a.format == "lil":
            out.append(repr([list(r) for r in a.rows]))
            out.append(repr([[float(v) for v in r] for r in a.data]))
        else:
            for attr in ("data", "indices", "indptr", "row", "col"):
                v = getattr(a, attr, None)
                if v is not None:
                    out.append((attr, v.dtype.str, v.shape, v.tobytes()))
        return tuple(out)
    if isinstance(a, (list, tuple)):
        return ("seq", type(a).__name__, repr(a))
    return ("scalar", type(a).__name__, repr(a))


def value_snap(a):
    """Value-level snapshot (dense meaning, class, format, dtype, shape)."""
    s = snap(a)
    return s[:5] if sp.issparse(a) else s


class Recorder:
    """Collects failures: (signature, message, replay dict)."""

    def __init__(self):
        self.failures = []
        self.calls = 0

    def fail(self, sig, msg, detail):
        self.failures.append((sig, msg, detail))

    def call(self, name, fn, *args, snapper=snap):
        """Run fn(*args); any change of an argument is a purity failure.  Returns ('ok', value) | ('err', cls)."""
        before = [snapper(a) for a in args]
        try:
            r = ("ok", fn(*args))
        except Exception as e:  # noqa
            r = ("err", exc_cls(e))
        after = [snapper(a) for a in args]
        self.calls += 1
        for k, (b, a) in enumerate(zip(before, after)):
            if b != a:
                self.fail(f"purity/{name}", f"{name} modified its argument #{k} ({type(args[k]).__name__})",
                          {"function": name, "argument": k})
        return r


def tools():
    from vrpqubo.tools import qubo_tools as qt
    return qt


# ------------------------------------------------------------------ one C01 case on the implementation
def run_case(inp, with_obs=True):
    """inp: dict(kind, variant, integer, vseed, Q, c, J0, h0, c0, xfloat, hlist, maps).
    Returns (recorder, observations or None)."""
    qt = tools()
    rec = Recorder()
    kind, variant, integer = inp["kind"], inp["variant"], inp["integer"]
    Q, c, J0, h0, c0 = inp["Q"], inp["c"], inp["J0"], inp["h0"], inp["c0"]
    n, m = len(Q), len(Q[0])
    square = (n == m)
    A = build(kind, Q, integer, variant, inp.get("vseed", 0))
    B = build(kind, J0, integer, variant, inp.get("vseed", 0) + 1)
    hv = [float(t) for t in h0] if inp.get("hlist") else np.array([float(t) for t in h0])
    cf, c0f = float(c), float(c0)
    obs = {"stored_zeros": bool(sp.issparse(A) and A.nnz > np.count_nonzero(A.toarray()))}
    desc = {"container": kind, "variant": variant, "dtype": "int64" if integer else "float64"}

    # --- QUBO_to_Ising
    r1 = rec.call("QUBO_to_Ising", qt.QUBO_to_Ising, A, cf)
    if r1[0] == "ok":
        J, h, c1 = r1[1]
        try:
            o1 = ("ok", (fr_mat(J), fr_vec(h), fr(c1)))
        except TypeError as e:
            o1 = ("err", "TypeError")
            rec.fail("oracle/q2i-result-shape", f"QUBO_to_Ising returned an unexpected shape: {e}", {**desc, "Q": Q, "c": c})
    else:
        o1 = r1
    obs["q2i"] = o1
    if square and o1[0] != "ok":
        rec.fail("oracle/q2i-raised", f"QUBO_to_Ising raised {o1[1]} on a square matrix", {**desc, "Q": Q, "c": c})
    if not square and o1 != ("err", "ValueError"):
        rec.fail("oracle/q2i-nonsquare", f"QUBO_to_Ising on a {n}x{m} matrix: {o1[0]} {o1[1] if o1[0] == 'err' else ''}, expected ValueError",
                 {**desc, "Q": Q, "c": c})

    # --- Ising_to_QUBO
    r2 = rec.call("Ising_to_QUBO", qt.Ising_to_QUBO, B, hv, c0f)
    if r2[0] == "ok":
        Q2, c2 = r2[1]
        try:
            o2 = ("ok", (fr_mat(Q2), fr(c2)))
        except TypeError as e:
            o2 = ("err", "TypeError")
            rec.fail("oracle/i2q-result-shape", f"Ising_to_QUBO returned an unexpected shape: {e}", {**desc, "J": J0, "h": h0, "c": c0})
    else:
        o2 = r2
    obs["i2q"] = o2
    ok_shape = square and len(h0) == n
    if ok_shape and o2[0] != "ok":
        rec.fail("oracle/i2q-raised", f"Ising_to_QUBO raised {o2[1]} on a square matrix with a matching field vector",
                 {**desc, "J": J0, "h": h0, "c": c0})
    if not ok_shape and o2 != ("err", "ValueError"):
        rec.fail("oracle/i2q-nonsquare", f"Ising_to_QUBO on a {n}x{m} matrix with {len(h0)} fields: expected ValueError",
                 {**desc, "J": J0, "h": h0, "c": c0})

    # --- zero diagonal of J
    if square and o1[0] == "ok":
        Jd = o1[1][0]
        for i in range(n):
            if Jd[i][i] != 0:
                rec.fail("oracle/zero-diag", f"QUBO_to_Ising returned J[{i},{i}] = {Jd[i][i]} != 0", {**desc, "Q": Q, "c": c})
                break

    evs = []
    if square:
        # (a field vector of the wrong length is only used for the rejection test above)
        h0 = list(h0[:n]) + [Fraction(0)] * (n - len(h0))
        hv = [float(t) for t in h0] if inp.get("hlist") else np.array([float(t) for t in h0])
        snapA, snapB = snap(A), snap(B)
        snapJ = snapQ2 = None
        if o1[0] == "ok":
            snapJ = (snap(r1[1][0]), snap(r1[1][1]))
        if o2[0] == "ok":
            snapQ2 = snap(r2[1][0])
        for xl in assignments(n):
            x = np.array(xl, dtype=float if inp.get("xfloat") else np.int64)
            xb0 = x.tobytes()
            xF = [Fraction(t) for t in xl]
            sF = [1 - 2 * t for t in xF]
            where = {**desc, "x": xl}
            try:
                s = qt.x_to_s(x)
                sb0 = s.tobytes()
                xb = qt.s_to_x(s)
                vq = qt.evaluate_QUBO(A, cf, x)
                vi = qt.evaluate_Ising(B, hv, c0f, s)
                s_o, xb_o, vq_o, vi_o = fr_vec(s), fr_vec(xb), fr(vq), fr(vi)
            except Exception as e:  # noqa
                rec.fail("oracle/evaluator-raised", f"{type(e).__name__}: {e} while evaluating at x={xl}",
                         {**where, "Q": Q, "c": c, "J": J0, "h": h0, "c_ising": c0})
                evs = None
                break
            evs.append((xF, s_o, xb_o, vq_o, vi_o))
            # maps
            if s_o != sF:
                rec.fail("oracle/maps", f"x_to_s({xl}) = {vfmt(s_o)}, expected {vfmt(sF)}", where)
            if xb_o != xF:
                rec.fail("oracle/maps", f"s_to_x(x_to_s({xl})) = {vfmt(xb_o)}, expected {vfmt(xF)}", where)
            # the maps on other legal element types of a binary / spin vector
            for dt in (bool, np.int8, np.float32):
                try:
                    s_dt = fr_vec(qt.x_to_s(np.array(xl, dtype=dt)))
                    x_dt = fr_vec(qt.s_to_x(np.array([int(t) for t in sF], dtype=(np.int8 if dt is bool else dt))))
                except Exception as e:  # noqa
                    rec.fail("oracle/maps-raised", f"x_to_s / s_to_x raised {type(e).__name__} on a {np.dtype(dt).name} vector {xl}", where)
                    break
                if s_dt != sF or x_dt != xF:
                    rec.fail("oracle/maps", f"x_to_s({xl} as {np.dtype(dt).name}) = {vfmt(s_dt)}, expected {vfmt(sF)}; "
                                            f"s_to_x of the spins = {vfmt(x_dt)}, expected {vfmt(xF)}", {**where, "dtype": np.dtype(dt).name})
                    break
            # evaluators against the exact reference
            if vq_o != ref_qubo(Q, c, xF):
                rec.fail("oracle/evaluate_QUBO", f"evaluate_QUBO = {vq_o}, exact x'Qx+c = {ref_qubo(Q, c, xF)} at x={xl}",
                         {**where, "Q": Q, "c": c})
            if vi_o != ref_ising(J0, h0, c0, sF):
                rec.fail("oracle/evaluate_Ising", f"evaluate_Ising = {vi_o}, exact s'Js+h's+c = {ref_ising(J0, h0, c0, sF)} at s={vfmt(sF)}",
                         {**where, "J": J0, "h": h0, "c": c0})
            # the property: energies agree
            if o1[0] == "ok":
                try:
                    e1 = fr(qt.evaluate_Ising(r1[1][0], r1[1][1], r1[1][2], s))
                except Exception as e:  # noqa
                    e1 = f"{type(e).__name__}: {e}"
                want = ref_qubo(Q, c, xF)
                if e1 != want:
                    rec.fail("oracle/q2i-energy",
                             f"evaluate_Ising(QUBO_to_Ising(Q,c), x_to_s(x)) = {e1} but x'Qx + c = {want} at x={xl}",
                             {**where, "Q": Q, "c": c, "observed": e1, "expected": want,
                              "python": "props.c01.replay_energy(replay)"})
            if o2[0] == "ok":
                try:
                    e2 = fr(qt.evaluate_QUBO(r2[1][0], r2[1][1], x))
                except Exception as e:  # noqa
                    e2 = f"{type(e).__name__}: {e}"
                want = ref_ising(J0, h0, c0, sF)
                if e2 != want:
                    rec.fail("oracle/i2q-energy",
                             f"evaluate_QUBO(Ising_to_QUBO(J,h,c), x) = {e2} but s'Js + h's + c = {want} at x={xl}, s={vfmt(sF)}",
                             {**where, "J": J0, "h": h0, "c": c0, "observed": e2, "expected": want,
                              "python": "props.c01.replay_energy(replay)"})
            if x.tobytes() != xb0:
                rec.fail("purity/vector", f"the vector x={xl} was modified by x_to_s / an evaluator", where)
            if s.tobytes() != sb0:
                rec.fail("purity/vector", f"the spin vector of x={xl} was modified by s_to_x / an evaluator", where)
        rec.calls += 6 * (2 ** n)
        if snap(A) != snapA:
            rec.fail("purity/evaluate_QUBO", "evaluate_QUBO modified its matrix argument", {**desc, "Q": Q, "c": c})
        if snap(B) != snapB:
            rec.fail("purity/evaluate_Ising", "evaluate_Ising modified its matrix argument", {**desc, "J": J0, "h": h0, "c": c0})
        if snapJ is not None and (snap(r1[1][0]), snap(r1[1][1])) != snapJ:
            rec.fail("purity/evaluate_Ising", "evaluate_Ising modified the J / h returned by QUBO_to_Ising", {**desc, "Q": Q, "c": c})
        if snapQ2 is not None and snap(r2[1][0]) != snapQ2:
            rec.fail("purity/evaluate_QUBO", "evaluate_QUBO modified the Q returned by Ising_to_QUBO", {**desc, "J": J0, "h": h0, "c": c0})
    obs["evals"] = evs

    # --- the maps on non-integer vectors (model correspondence only: astype(int) truncates)
    maps = []
    for v in inp.get("maps", []):
        va = np.array([float(t) for t in v])
        r = rec.call("x_to_s", qt.x_to_s, va)
        r_ = rec.call("s_to_x", qt.s_to_x, va)
        if r[0] == "ok" and r_[0] == "ok":
            maps.append((v, fr_vec(r[1]), fr_vec(r_[1])))
        else:
            rec.fail("oracle/maps-raised", f"x_to_s / s_to_x raised on {vfmt(v)}", {"v": v})
    obs["maps"] = maps
    for f in rec.failures:
        f[2].setdefault("input", jsonable({k: inp.get(k) for k in ("kind", "variant", "integer", "vseed", "Q", "c", "J0", "h0", "c0",
                                                                      "xfloat", "hlist")}))
    return rec, (obs if with_obs else None)


def res_lit(o, f):
    return lit.ok(f(o[1])) if o[0] == "ok" else lit.err(o[1])


def case_lit(inp, obs):
    Q = inp["Q"]
    sh = (len(Q), len(Q[0]))
    o1 = res_lit(obs["q2i"], lambda t: lit.tup(mlit(t[0]), vlit(t[1]), qlit(t[2])))
    o2 = res_lit(obs["i2q"], lambda t: lit.tup(mlit(t[0]), qlit(t[1])))
    evs = lit.lst([lit.tup(vlit(e[0]), vlit(e[1]), vlit(e[2]), qlit(e[3]), qlit(e[4])) for e in (obs["evals"] or [])])
    maps = lit.lst([lit.tup(vlit(a), vlit(b), vlit(c)) for a, b, c in obs["maps"]])
    isg = lit.tup(lit.nat(len(inp["h0"])), mlit(inp["J0"]), vlit(inp["h0"]), qlit(inp["c0"]))
    return lit.tup(shlit(sh), mlit(Q), qlit(inp["c"]), o1, isg, o2, evs, maps)


# ------------------------------------------------------------------ shrinking
def shrink(inp, sig, runner):
    """Greedy: drop an index, zero entries / constants, simplify the variant, while `sig` still fails."""
    def fails(cand):
        try:
            rec, _ = runner(cand, with_obs=False)
        except Exception:  # noqa
            return False
        return any(f[0] == sig for f in rec.failures)

    mats = [k for k in ("Q", "J0", "M") if k in inp]
    vecs = [k for k in ("h0",) if k in inp]
    cur = dict(inp)
    changed = True
    while changed:
        changed = False
        n = len(cur[mats[0]])
        sq = all(len(cur[k]) == len(cur[k][0]) for k in mats)
        if sq and n > 1:
            for d in range(n):
                cand = dict(cur)
                for k in mats:
                    cand[k] = [[v for j, v in enumerate(r) if j != d] for i, r in enumerate(cur[k]) if i != d]
                for k in vecs:
                    cand[k] = [v for i, v in enumerate(cur[k]) if i != d]
                cand["maps"] = []
                if "vectors" in cur:
                    cand["vectors"] = [[t for i, t in enumerate(v) if i != d] for v in cur["vectors"]]
                if fails(cand):
                    cur, changed = cand, True
                    break
            if changed:
                continue
        for k in mats:
            for i in range(len(cur[k])):
                for j in range(len(cur[k][0])):
                    if cur[k][i][j] != 0:
                        cand = dict(cur)
                        cand[k] = [list(r) for r in cur[k]]
                        cand[k][i][j] = Fraction(0)
                        if fails(cand):
                            cur, changed = cand, True
        for k in vecs:
            for i in range(len(cur[k])):
                if cur[k][i] != 0:
                    cand = dict(cur)
                    cand[k] = list(cur[k])
                    cand[k][i] = Fraction(0)
                    if fails(cand):
                        cur, changed = cand, True
        for k in ("c", "c0"):
            if k in cur and cur[k] != 0:
                cand = dict(cur)
                cand[k] = Fraction(0)
                if fails(cand):
                    cur, changed = cand, True
        if len(cur.get("patterns", [])) > 1:
            for p in cur["patterns"]:
                cand = dict(cur)
                cand["patterns"] = [p]
                if fails(cand):
                    cur, changed = cand, True
                    break
        if len(cur.get("vectors", [])) > 0:
            cand = dict(cur)
            cand["vectors"] = []
            if fails(cand):
                cur, changed = cand, True
        if cur.get("variant") != "plain":
            cand = dict(cur)
            cand["variant"] = "plain"
            if fails(cand):
                cur, changed = cand, True
    return cur


def report(ctx, inp, runner, rec, reported):
    """Turn the failures of one case into violations (one per signature), shrinking the input first."""
    for sig, msg, detail in rec.failures:
        if sig in reported:
            continue
        reported.add(sig)
        small = shrink(inp, sig, runner)
        rec2, _ = runner(small, with_obs=False)
        hit = [f for f in rec2.failures if f[0] == sig]
        if hit:
            sig, msg, detail = hit[0]
        ctx.violation(sig, msg, jsonable({"module": runner.__module__, **detail}), True)


# ------------------------------------------------------------------ run
def gen_inputs(rng, n_mat, with_nonsquare=True):
    """Deterministic list of matrix-level inputs (before the container is chosen)."""
    out = []
    for k in range(n_mat):
        shape = SHAPES[k % len(SHAPES)]
        n = 1 + (k // len(SHAPES) + k) % 5 if k < 5 * len(SHAPES) else rng.randint(1, 5)
        integer = (k % 4 == 3)
        m = n
        if with_nonsquare and k % 15 == 7:
            m = n + rng.choice([-1, 1]) if n > 1 else 2
        Q = gen_matrix(rng, n, m, shape, integer)
        J0 = gen_matrix(rng, n, m, SHAPES[(k * 5 + 3) % len(SHAPES)], integer)
        hl = n if not (with_nonsquare and k % 15 == 11) else n + 1
        # magnitudes: the properties hold for every real matrix, so a share of the inputs is scaled by an
        # exact power of two (tiny: 2^-44 ~ 6e-14, large: 2^20); float arithmetic stays exact on them
        scale = Fraction(1)
        if not integer and k % 9 in (4, 7):
            scale = Fraction(1, 2 ** 44) if k % 9 == 4 else Fraction(2 ** 20)
        Q = [[v * scale for v in row] for row in Q]
        J0 = [[v * scale for v in row] for row in J0]
        out.append({
            "shape": shape, "integer": integer, "Q": Q, "J0": J0,
            "c": Fraction(rng.randint(-8, 8), 4) * scale, "c0": Fraction(rng.randint(-8, 8), 4) * scale,
            "h0": [Fraction(rng.randint(-8, 8), 4) * scale for _ in range(hl)],     # quarters: 2*h need not be an integer (integer-typed J)
            "maps": [[Fraction(rng.randint(-8, 8), 4) for _ in range(n)] for _ in range(2)],
            "xfloat": bool(k % 2), "hlist": bool(k % 3 == 0), "vseed": rng.randrange(10 ** 6),
        })
    return out


def variant_for(kind, k):
    if kind == "ndarray":
        return "plain"
    if kind == "coo_array" and k % 3 == 1:
        return "dups"
    return "zeros" if k % 3 == 2 else "plain"


def run(ctx):
    ctx.prove()
    import translate_qubotools as T
    ctx.gen_step("qubotools", T.translate, "C01_gen",
                 "harness/translate_qubotools.py (ast -> Gallina printer: numpy/scipy matrix expressions of qubo_tools.py "
                 "into the combinators of coq/theories/PyQubo.v; kinds of values, let-sequencing, ownership filter)")
    from props import pysem; pysem.run(ctx, pysem.GROUPS_FOR.get(ctx.pid, ()))
    rng = ctx.rng
    n_mat = 60 if ctx.quick else 2000
    base = gen_inputs(rng, n_mat)
    cases, terms = [], []
    reported = set()
    dist = {"containers": {k: 0 for k in KINDS}, "shapes": {}, "sizes": {}, "int_dtype": 0, "nonsquare": 0, "bad_field_length": 0,
            "variants": {"plain": 0, "zeros": 0, "dups": 0}, "stored_zeros_present": 0, "symmetric": 0}
    seen = set()
    n_eval = 0
    for k, b in enumerate(base):
        for kind in KINDS:
            inp = dict(b, kind=kind, variant=variant_for(kind, k))
            rec, obs = run_case(inp)
            if rec.failures:
                report(ctx, inp, run_case, rec, reported)
            cases.append((inp, obs, bool(rec.failures)))
            terms.append(case_lit(inp, obs))
            n, m = len(b["Q"]), len(b["Q"][0])
            dist["containers"][kind] += 1
            dist["variants"][inp["variant"]] += 1
            dist["stored_zeros_present"] += int(obs["stored_zeros"])
            if n == m:
                n_eval += 2 ** n
        n, m = len(b["Q"]), len(b["Q"][0])
        dist["shapes"][b["shape"]] = dist["shapes"].get(b["shape"], 0) + 1
        dist["sizes"][f"{n}x{m}"] = dist["sizes"].get(f"{n}x{m}", 0) + 1
        dist["int_dtype"] += int(b["integer"])
        dist["nonsquare"] += int(n != m)
        dist["bad_field_length"] += int(len(b["h0"]) != n)
        dist["symmetric"] += int(is_symmetric(b["Q"]))
        key = repr((b["Q"], b["c"]))
        if n == m and n >= 2 and not is_symmetric(b["Q"]) and any(b["Q"][i][i] != 0 for i in range(n)) and key not in seen:
            seen.add(key)
            ctx.count(nontrivial=1)
    # value-level purity on non-canonical CSR input (scipy canonicalises such an object in place)
    qt = tools()
    noncanon = {"cases": 0, "representation_changed": 0}
    for b in base[: (20 if ctx.quick else 200)]:
        n, m = len(b["Q"]), len(b["Q"][0])
        for cls in (sp.csr_array, sp.csr_matrix):
            for name, fn in (("QUBO_to_Ising", lambda A: qt.QUBO_to_Ising(A, 0.5)),
                             ("Ising_to_QUBO", lambda A: qt.Ising_to_QUBO(A, [0.5] * n, 0.25)),
                             ("evaluate_QUBO", lambda A: qt.evaluate_QUBO(A, 0.5, np.ones(m)))):
                A = noncanonical_csr(b["Q"], b["integer"], cls)
                full = snap(A)
                rec = Recorder()
                rec.call(name, fn, A, snapper=value_snap)
                noncanon["cases"] += 1
                noncanon["representation_changed"] += int(snap(A) != full)
                if rec.failures:
                    sig, msg, detail = rec.failures[0]
                    if sig + "/noncanonical" not in reported:
                        reported.add(sig + "/noncanonical")
                        ctx.violation(sig + "/noncanonical", msg + " (dense value changed; CSR input with duplicates and unsorted indices)",
                                      jsonable({**detail, "Q": b["Q"], "container": cls.__name__}), True)
    dist["noncanonical_csr"] = noncanon
    ctx.count(evaluations=n_eval, traces=len(cases))
    ctx.cov["input_distribution"] = dist
    ctx.cov["rule"] = ("matrices n x n, n in 1..5, entries k/4 (k in -8..8) or integers (int64 dtype), in 14 forced shapes (full, sparse, zero "
                       "row/column, strictly upper/lower, triangular, symmetric, antisymmetric off-diagonal, diagonal, all-zero, single entry), "
                       "each as ndarray/csr_array/coo_array/lil_array/csr_matrix (also with stored zeros, COO duplicates), evaluated at all 2^n "
                       "assignments; plus non-square shapes and wrong field lengths; evaluations = number of (case, assignment) pairs; "
                       "non-trivial = distinct square non-symmetric matrix with a non-zero diagonal entry and n >= 2")
    ctx.assumptions.append("float arithmetic is exact on the generated inputs (entries k/4, |k| <= 8, n <= 5); results converted with Fraction(float)")
    ctx.assumptions.append("sparse containers are compared at their dense meaning (toarray)")
    for c in cases[:3]:
        ctx.sample(jsonable({k: c[0][k] for k in ("kind", "variant", "integer", "Q", "c", "J0", "h0", "c0")}))
    mism, err = ctx.coq_mismatches("conv", HEADER, "c01case", "check_c01case", terms, shard=150)
    n_rep = 0
    for idx, tags in mism:
        inp, obs, failed = cases[idx]
        if failed:
            continue  # already reported with a concrete failing input by the oracle
        if n_rep >= 3:
            break
        n_rep += 1
        Q = inp["Q"]
        sh = shlit((len(Q), len(Q[0])))
        model = ctx.coq_eval(HEADER, f"(model_q2i {sh} {mlit(Q)} {qlit(inp['c'])}, "
                                     f"model_i2q {sh} {lit.nat(len(inp['h0']))} {mlit(inp['J0'])} {vlit(inp['h0'])} {qlit(inp['c0'])})")
        ctx.violation(f"correspondence/tags{tags}",
                      f"model and implementation disagree (fields {tags}: 1 QUBO_to_Ising, 2 Ising_to_QUBO, 3 x_to_s, 4 s_to_x, "
                      "5 evaluate_QUBO, 6 evaluate_Ising, 7/8 maps on non-integer vectors); the property oracle found no failing input on this case",
                      jsonable({"correspondence": "Qubo.check_c01case", "input": {k: inp[k] for k in ("kind", "variant", "integer", "Q", "c", "J0", "h0", "c0")},
                                "implementation": {"q2i": obs["q2i"], "i2q": obs["i2q"], "maps": obs["maps"]}, "model": model}), False)
    if ctx.tier == "thorough":
        ctx.coqchk("VQP.C01")


def replay_energy(r):
    """Re-evaluate the energy clause on the input stored in a replay file; prints both sides."""
    inp = unjson(r["input"])
    inp.setdefault("maps", [])
    rec, _ = run_case(inp, with_obs=False)
    for sig, msg, _d in rec.failures:
        print(sig, "--", msg)
    if not rec.failures:
        print("no failure on this input")
    return rec.failures


def replay(ctx, data):
    replay_energy(data["replay"])
