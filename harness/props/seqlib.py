"""Shared driver for the sequence-based formulation checks (C07, C18 sequence half).

* generators of construction histories (graph handed to the constructor and/or built through the
  formulation object), vehicle counts, sequence lengths, vehicle costs;
* `observe`: runs the REAL SequenceBasedRoutingProblem and records every observable as exact integers;
* `case_lit`: the Gallina literal of one correspondence case (model: coq/theories/Seq.v, check_scase);
* independent reference computations used by the oracles (classification of tuples, walk assignments).
"""
import contextlib
import io
import itertools
import math

import numpy as np

from vq import lit
from vq.core import exc_cls

HEADER = ("From VQ Require Import Base Vrptw Seq.\n"
          "Close Scope Z_scope.\nSet Printing Width 100000.")   # core.coq_mismatches needs plain numerals on one line
NAMES = ["D", "A", "B", "C", "E", "F"]
CODE = {n: 10 + i for i, n in enumerate(NAMES)}
INF = float("inf")

TAGS = {1: "node_names", 2: "arcs", 3: "fixed_values", 4: "var_mapping", 5: "num_variables",
        6: "get_var_index", 7: "get_var_tuple_index", 8: "get_constraint_data (shapes, A, b, R / AssertionError)",
        9: "get_objective_data (c, Q)", 10: "get_routes", 99: "constructor raised in the model"}


# ---------------------------------------------------------------- running the implementation
def build(case):
    """Construct the real object along the case's history. Returns obj."""
    from vrpqubo.routing_problem.vrptw import VRPTW
    from vrpqubo.routing_problem.formulations.sequence_based_rp import SequenceBasedRoutingProblem
    g = None
    if case["ops0"]:
        g = VRPTW()
        for op in case["ops0"]:
            apply_op(g, op)
    obj = SequenceBasedRoutingProblem(g, strict=case["strict"])
    for op in case["ops1"]:
        apply_op(obj, op)
    obj.set_max_vehicles(case["V"])
    obj.set_max_sequence_length(case["L"])
    obj.vehicle_cost = list(case["vc"])          # as make_feasible does for dummy vehicles
    obj._vq_log = []
    obj._vq_post = []
    if case.get("post"):
        apply_post(obj, case)
    return obj


def apply_post(obj, case):
    """Re-enumeration stream: enumerate once, then change the problem through the public API in ways that
    request a rebuild.  Arc additions (also those make_feasible performs through self.add_arc) are logged as
    history entries, so that the model can be run on the CHANGED instance."""
    try:
        if case.get("lookup_first"):
            obj.get_var_index(0, 0, 0)
        else:
            obj.get_num_variables()
    except IndexError:
        obj.get_num_variables()
    log = obj._vq_log
    for st in case["post"]:
        if st[0] == "rebuild_arc":
            obj.add_arc(st[1], st[2], st[3], st[4])
            obj.reset_build_flags()
            log.append(("arc", st[1], st[2], st[3], st[4]))
            obj._vq_post.append("rebuild_arc")
        elif st[0] == "setV":
            obj.set_max_vehicles(obj.max_vehicles + st[1])
            obj.reset_build_flags()
            obj._vq_post.append("setV")
        elif st[0] == "setL":
            obj.set_max_sequence_length(obj.max_sequence_length + st[1])
            obj.reset_build_flags()
            obj._vq_post.append("setL")
        elif st[0] == "make_feasible":
            orig = obj.add_arc

            def logged(o, d, t, c=0, _orig=orig):
                log.append(("arc", o, d, t, c))
                return _orig(o, d, t, c)
            obj.add_arc = logged
            try:
                obj.make_feasible(st[1])
                obj._vq_post.append("make_feasible ok")
            except Exception as e:  # noqa  (heuristic failed loudly: the object is compared as it is)
                obj._vq_post.append("make_feasible raised " + type(e).__name__)
            finally:
                del obj.add_arc
        obj.get_num_variables()                 # every step is followed by a re-enumeration


def effective(case, out):
    """The instance the object represents after the post steps (== case when there are none)."""
    eff = dict(case)
    eff.update(out["eff"])
    eff["post"] = []
    return eff


def gen_post(rng, case):
    """1-2 rebuild-requesting changes for a case."""
    names = []
    for op in case["ops0"] + case["ops1"]:
        if op[0] == "node" and op[1] not in names and op[3] <= op[4]:
            names.append(op[1])
    steps = []
    for _ in range(rng.randint(1, 2)):
        k = rng.random()
        if k < 0.3 and names:
            steps.append(("rebuild_arc", rng.choice(names), rng.choice(names), rng.randint(0, 2), rng.randint(-2, 5)))
        elif k < 0.5:
            steps.append(("setV", 1))
        elif k < 0.7:
            steps.append(("setL", 1))
        elif names:
            steps.append(("make_feasible", rng.choice([10, 50])))
        else:
            steps.append(("setL", 1))
    return steps


def apply_op(o, op):
    if op[0] == "node":
        return o.add_node(op[1], op[2], (op[3], op[4]))
    if op[0] == "arc":
        return o.add_arc(op[1], op[2], op[3], op[4])
    return o.set_depot(op[1])


def ei(x):
    return lit.exact_int(x)


def dense(M):
    M = M.toarray() if hasattr(M, "toarray") else np.asarray(M)
    return [[ei(v) for v in row] for row in M]


def observe(case, xs=None):
    """All observables of the real object for the case (exact integers)."""
    obj = build(case)
    V, L = int(obj.max_vehicles), int(obj.max_sequence_length)
    N = len(obj.nodes)
    out = {"N": N}
    out["eff"] = {"V": V, "L": L, "vc": [ei(c) for c in obj.vehicle_cost], "ops1": list(case["ops1"]) + list(obj._vq_log)}
    out["post_done"] = list(obj._vq_post)
    out["names"] = list(obj.node_names)
    out["arcs"] = [((i, j), (ei(a.get_travel_time()), ei(a.get_cost()))) for (i, j), a in obj.arcs.items()]
    probes = [(v, s, k) for v in range(V) for s in range(L) for k in range(N)]
    probes += [(V, 0, 0), (0, L, 0), (0, 0, N), (V, L, N), (V + 1, 1, 0), (0, L + 1, 1)]
    if not case.get("lookup_first"):
        obj.get_num_variables()
    # with lookup_first the index lookups are the very first queries on the object (they enumerate themselves)
    pr = []
    for t in probes:
        try:
            r = obj.get_var_index(*t)
            r = None if r is None else int(r)
        except IndexError:
            r = None
        pr.append((t, r))
    out["probe"] = pr
    n = obj.get_num_variables()
    out["n"] = int(n)
    out["fixed"] = [(tuple(int(z) for z in t), ei(v)) for t, v in obj.fixed_values.items()]
    out["vars"] = [tuple(int(z) for z in t) for t in obj.var_mapping]
    out["tup"] = []
    for k in range(n + 3):
        t = obj.get_var_tuple_index(k)
        out["tup"].append(None if t is None else tuple(int(z) for z in t))
    out["tup_fresh"] = None
    if case.get("lookup_first"):
        # the index-to-tuple lookup as the very first query on a fresh object of the same case
        o2 = build(case)
        tf = [o2.get_var_tuple_index(k) for k in range(2)]
        out["tup_fresh"] = [None if t is None else tuple(int(z) for z in t) for t in tf]
    try:
        A, b, R, r_eq = obj.get_constraint_data()
        assert r_eq == 0
        out["con"] = ("ok", (tuple(A.shape), dense(A), [ei(v) for v in b], tuple(R.shape), dense(R)))
    except Exception as e:  # noqa
        out["con"] = ("err", exc_cls(e))
    with contextlib.redirect_stdout(io.StringIO()):      # build_objective prints when a constant term is dropped
        c, Q = obj.get_objective_data()
    out["obj"] = (len(c), [ei(v) for v in c], tuple(Q.shape), dense(Q))
    out["dec"] = []
    for i, x in enumerate(xs or []):
        try:
            # with lookup_first the first decoding is the very first query on a fresh object
            dec_obj = build(case) if (i == 0 and case.get("lookup_first")) else obj
            r = dec_obj.get_routes(np.array(x, dtype=float))
            out["dec"].append((list(x), ("ok", [[int(k) for k in route] for route in r])))
        except Exception as e:  # noqa
            out["dec"].append((list(x), ("err", exc_cls(e))))
    return obj, out


# ---------------------------------------------------------------- literals
def op_lit(op):
    if op[0] == "node":
        return f"OpAddNode {lit.nat(CODE[op[1]])} {lit.z(op[2])} {lit.z(op[3])} {lit.ext(op[4])}"
    if op[0] == "arc":
        return f"OpAddArc {lit.nat(CODE[op[1]])} {lit.nat(CODE[op[2]])} {lit.z(op[3])} {lit.z(op[4])}"
    return f"OpSetDepot {lit.nat(CODE[op[1]])}"


def t_lit(t):
    return lit.tup(lit.nat(t[0]), lit.nat(t[1]), lit.nat(t[2]))


def zl(v):
    return lit.lst([lit.z(x) for x in v])


def zm(m):
    return lit.lst([zl(r) for r in m])


def shape_lit(s):
    s = tuple(s)
    if len(s) == 1:
        s = (s[0], 0)
    return lit.pair(lit.nat(s[0]), lit.nat(s[1]))


def case_lit(case, out):
    case = effective(case, out)
    con = out["con"]
    if con[0] == "ok":
        sa, A, b, sr, R = con[1]
        con_l = lit.ok(lit.tup(shape_lit(sa), zm(A), zl(b), shape_lit(sr), zm(R)))
    else:
        con_l = lit.err(con[1])
    nc, c, sq, Q = out["obj"]
    obj_l = lit.tup(lit.nat(nc), zl(c), shape_lit(sq), zm(Q))
    dec_l = []
    for x, r in out["dec"]:
        if r[0] == "ok":
            rl = lit.ok(lit.lst([lit.lst([lit.nat(k) for k in route]) for route in r[1]]))
        else:
            rl = lit.err(r[1])
        dec_l.append(lit.pair(zl(x), rl))
    parts = [
        lit.boolean(case["strict"]),
        lit.lst([op_lit(o) for o in case["ops0"]]),
        lit.lst([op_lit(o) for o in case["ops1"]]),
        lit.nat(case["V"]), lit.nat(case["L"]), zl(case["vc"]),
        lit.lst([lit.nat(CODE[x]) for x in out["names"]]),
        lit.lst([lit.pair(lit.pair(lit.nat(k[0]), lit.nat(k[1])), lit.pair(lit.z(v[0]), lit.z(v[1]))) for k, v in out["arcs"]]),
        lit.lst([lit.pair(t_lit(t), lit.z(v)) for t, v in out["fixed"]]),
        lit.lst([t_lit(t) for t in out["vars"]]),
        lit.nat(out["n"]),
        lit.lst([lit.pair(t_lit(t), lit.opt(r, lit.nat)) for t, r in out["probe"]]),
        lit.lst([lit.opt(t, t_lit) for t in out["tup"]]),
        con_l, obj_l, lit.lst(dec_l),
    ]
    return "(mkCase " + " ".join(p if p[0] in "([" or p in ("true", "false") else f"({p})" for p in parts) + ")"


def inst_term(case):
    """Gallina term for the model's instance of a case (for replay files)."""
    return (f"case_inst (mkCase {lit.boolean(case['strict'])} {lit.lst([op_lit(o) for o in case['ops0']])} "
            f"{lit.lst([op_lit(o) for o in case['ops1']])} {lit.nat(case['V'])} {lit.nat(case['L'])} {zl(case['vc'])} "
            "[] [] [] [] 0%nat [] [] (Err OtherError) (0%nat, [], (0%nat,0%nat), []) [])")


# ---------------------------------------------------------------- generators
def gen_case(rng, kind=None):
    """One construction history + parameters.
    kinds: ctor   graph (nodes, depot, arcs) handed to the constructor
           mixed  nodes handed over, arcs partly added through the object afterwards
           api    everything through the formulation object (depot chosen before the arcs)
           nodepot everything through the object, set_depot never called (no depot self-arc)
           moved  arcs exist when set_depot moves another node to the front (base graph or object)"""
    if kind is None:
        kind = rng.choice(["ctor", "ctor", "mixed", "mixed", "api", "api", "nodepot", "moved"])
    strict = rng.random() < 0.5
    # rich: wide windows, all node pairs offered as arcs, enough vehicle-positions: instances that have walks
    rich = rng.random() < 0.45
    ncust = rng.randint(1, 3 if rich else 4)
    names = NAMES[:ncust + 1]
    nodes = []
    for i, nm in enumerate(names):
        if i == 0:
            if rich or rng.random() < 0.6:
                lo, hi = 0, INF
            else:
                lo = rng.randint(0, 3)
                hi = lo + rng.randint(2, 8)
        elif rich:
            lo = rng.randint(0, 4)
            hi = rng.randint(lo + 1, 8)
        else:
            lo = rng.randint(0, 8)
            hi = rng.randint(lo, 8)
        nodes.append(("node", nm, rng.randint(-2, 3), lo, hi))
    density = 1.0 if rich else rng.choice([0.2, 0.4, 0.6, 0.8, 1.0])
    arcs = []
    for a in names:
        for b in names:
            if a == b and rng.random() < 0.9:
                continue
            if rng.random() < density:
                arcs.append(("arc", a, b, rng.randint(0, 3 if rich else 4), rng.randint(-3, 6) if rng.random() < 0.8 else 0))
    rng.shuffle(arcs)
    if rng.random() < 0.15 and arcs:
        a = rng.choice(arcs)                     # the same arc given twice with other data: overwritten in place
        arcs.append(("arc", a[1], a[2], rng.randint(0, 4), rng.randint(-3, 6)))
    if strict and kind in ("ctor", "mixed", "api") and rng.random() < 0.25:
        # far from the clock origin: customer windows and the legs out of the depot are moved by t0, so walks keep their
        # relative timing while every arrival time is large and may be late by a single unit
        t0 = 1 << rng.choice([17, 20, 24])
        nodes = [nodes[0]] + [(o[0], o[1], o[2], o[3] + t0, o[4] if o[4] == INF else o[4] + t0) for o in nodes[1:]]
        arcs = [(a[0], a[1], a[2], a[3] + t0 if (a[1] == names[0] and a[2] != names[0]) else a[3], a[4]) for a in arcs]
    if rich:
        V = rng.choice([1, 2, 2, 3])
        L = rng.choice([3, 4, 4, 5])
        while V * (L - 2) < ncust and L < 5:
            L += 1
    else:
        V = rng.choice([0, 1, 1, 2, 2, 2, 3])
        L = rng.choice([2, 3, 3, 3, 4, 4, 5])
    vc = [0] * V
    if V and rng.random() < 0.5:
        vc = [rng.choice([0, 0, 3, 7, -2]) for _ in range(V)]
    depot = ("depot", names[0])
    ops0, ops1 = [], []
    if kind == "ctor":
        ops0 = nodes + ([depot] if rng.random() < 0.5 else []) + arcs
    elif kind == "mixed":
        k = rng.randint(0, len(arcs))
        ops0 = nodes + ([depot] if rng.random() < 0.5 else []) + arcs[:k]
        ops1 = arcs[k:]
        if rng.random() < 0.3 and ncust < 4:     # a customer that appears only after construction
            nm = NAMES[ncust + 1]
            lo = rng.randint(0, 8)
            ops1 = [("node", nm, 1, lo, rng.randint(lo, 8))] + ops1 + \
                   [("arc", names[0], nm, rng.randint(0, 3), rng.randint(0, 4)), ("arc", nm, names[0], rng.randint(0, 3), 1)]
    elif kind == "api":
        ops1 = nodes + [depot] + arcs
    elif kind == "nodepot":
        ops1 = nodes + arcs
    else:  # moved
        other = rng.choice(names[1:])
        k = rng.randint(1, len(arcs)) if arcs else 0
        if rng.random() < 0.5:
            ops0 = nodes + arcs[:k] + [("depot", other)] + arcs[k:]
        else:
            ops1 = nodes + arcs[:k] + [("depot", other)] + arcs[k:]
    return {"kind": kind, "post": [], "rich": rich, "lookup_first": rng.random() < 0.5, "strict": strict, "ops0": ops0, "ops1": ops1, "V": V, "L": L, "vc": vc}


def depot_first(case):
    """True when no set_depot call on the formulation object moves a node after arcs were added
    (the situation in which the strict timing rule was applied to every stored non-depot-origin arc)."""
    seen_arc = False
    first = None
    names = []
    for op in case["ops0"]:
        if op[0] == "node" and op[3] <= op[4] and op[1] not in names:
            names.append(op[1])
        if op[0] == "depot" and op[1] in names:
            names.remove(op[1])
            names.insert(0, op[1])
    for op in case["ops1"]:
        if op[0] == "node" and op[3] <= op[4] and op[1] not in names:
            names.append(op[1])
        if op[0] == "arc":
            seen_arc = True
        if op[0] == "depot" and op[1] in names:
            if names[0] != op[1] and seen_arc:
                return False
            names.remove(op[1])
            names.insert(0, op[1])
    # arcs handed to the constructor are re-filtered by it in strict mode
    return True


# ---------------------------------------------------------------- independent references
def classify(arcset, V, L, N):
    """Independent statement of the fixing rules: {(v,s,n): None (free) | 0 | 1} over V x L x N."""
    res = {}
    for v in range(V):
        for s in range(L):
            for n in range(N):
                if s == 0:
                    val = 1 if n == 0 else 0
                elif s == 1 and (0, n) not in arcset:
                    val = 0
                elif s == L - 1:
                    val = 1 if n == 0 else 0
                elif s == L - 2 and (n, 0) not in arcset:
                    val = 0
                else:
                    val = None
                res[(v, s, n)] = val
    return res


def walk_assignments(arcset, V, L, N, limit=200000):
    """All W: tuple of V walks (tuples of L nodes) with: start and end at 0, every step an arc, depot
    absorbing from position 1 on, every customer 1..N-1 on exactly one (v, s).  Needs L >= 2."""
    if L < 2 or N < 1:
        return []
    succ = {i: [j for j in range(N) if (i, j) in arcset] for i in range(N)}

    def walks_from(used):
        # all single walks avoiding customers in `used`, visiting each customer at most once
        res = []

        def ext(path, mine):
            s = len(path)
            if s == L:
                if path[-1] == 0:
                    res.append((tuple(path), mine))
                return
            cur = path[-1]
            for nx in succ[cur]:
                if cur == 0 and s >= 2 and nx != 0:
                    continue            # at the depot at a position >= 1: stays
                if nx != 0 and (nx in used or nx in mine):
                    continue
                ext(path + [nx], mine | ({nx} if nx else set()))
        ext([0], frozenset())
        return res

    out = []

    def rec(v, used, acc):
        if len(out) >= limit:
            return
        if v == V:
            if len(used) == N - 1:
                out.append(tuple(acc))
            return
        for w, mine in walks_from(used):
            rec(v + 1, used | mine, acc + [w])
    rec(0, frozenset(), [])
    return out


def all_binary(n):
    """(2^n, n) int array of all binary vectors."""
    if n == 0:
        return np.zeros((1, 0), dtype=np.int64)
    idx = np.arange(2 ** n, dtype=np.int64)
    return ((idx[:, None] >> np.arange(n, dtype=np.int64)[None, :]) & 1).astype(np.int64)


def feasible_mask(A, b, R, X):
    """Rows of X (k x n) with A x = b and x'Rx = 0, exact integer arithmetic."""
    A = np.array(A, dtype=np.int64).reshape(len(b), X.shape[1])
    b = np.array(b, dtype=np.int64)
    R = np.array(R, dtype=np.int64).reshape(X.shape[1], X.shape[1])
    lin = np.all(X @ A.T == b[None, :], axis=1) if len(b) else np.ones(len(X), dtype=bool)
    quad = np.einsum("ki,ij,kj->k", X, R, X) == 0 if X.shape[1] else np.ones(len(X), dtype=bool)
    return lin & quad


# ---------------------------------------------------------------- walk checker on the real object
def walk_valid(rp, x):
    """Independent check of the C07 right-hand side on a real SequenceBasedRoutingProblem `rp`
    (max_vehicles, max_sequence_length set; L >= 3, depot set through the class) and a vector `x` over
    its variables.  Returns (True, "") iff x is binary and the assignment it encodes -- tuple (v, s, n)
    is occupied iff it is a variable with x = 1, or it is not a variable and is the depot at the first
    or last position -- gives every vehicle exactly one node at every position, starting and ending at
    the depot, moving only along existing arcs (depot stay = depot self-arc), never leaving the depot
    again once back (positions >= 1), with every customer visited exactly once overall.
    Otherwise (False, reason).  Uses only rp's index lookup (get_var_index), arc keys and sizes; it does
    not read fixed_values or any constraint matrix."""
    V, L, N = int(rp.max_vehicles), int(rp.max_sequence_length), len(rp.nodes)
    n = int(rp.get_num_variables())
    x = [z for z in np.asarray(x).ravel()]
    if len(x) != n:
        return False, f"vector has {len(x)} entries, the model has {n} variables"
    for k, z in enumerate(x):
        if z != 0 and z != 1:
            return False, f"x[{k}] = {z} is not binary"
    if L < 2 or N < 1:
        return False, "no walk exists with fewer than two positions or without a depot"
    arcset = set(rp.arcs.keys())
    visits = [0] * N
    for v in range(V):
        walk = []
        for s in range(L):
            here = []
            for node in range(N):
                k = rp.get_var_index(v, s, node)
                occ = (x[int(k)] == 1) if k is not None else (node == 0 and s in (0, L - 1))
                if occ:
                    here.append(node)
            if len(here) != 1:
                return False, f"vehicle {v} occupies nodes {here} at position {s}"
            walk.append(here[0])
        if walk[0] != 0 or walk[-1] != 0:
            return False, f"vehicle {v} walk {walk} does not start and end at the depot"
        for s in range(L - 1):
            if (walk[s], walk[s + 1]) not in arcset:
                return False, f"vehicle {v} moves {walk[s]} -> {walk[s + 1]} at position {s}, which is not an arc"
            if s >= 1 and walk[s] == 0 and walk[s + 1] != 0:
                return False, f"vehicle {v} leaves the depot again at position {s}: {walk}"
        for node in walk:
            visits[node] += 1
    for c in range(1, N):
        if visits[c] != 1:
            return False, f"customer {c} is visited {visits[c]} times"
    return True, ""
