"""C03 -- Feasibility QUBO is zero exactly on the feasible set, positive elsewhere.

Proof: coq/props/C03.v (value >= 0; value = 0 <-> A x = b and x'Rx = 0; minimum zero iff feasible;
       form of x'Rx for entrywise non-negative R).
Tie:   get_qubo(feasibility=True) of the real arc / path / sequence objects against the Z instance of
       the model evaluated in Coq on the reported (A, b, R); for n <= 8 Coq also enumerates all 2^n
       vectors and its number of zero-value vectors is compared with the implementation's.
Oracle: all 2^n binary vectors on the implementation: value >= 0, value == 0 <=> (A x == b and
       x'Rx == 0), every entry of R >= 0, minimum == 0 <=> some vector is feasible."""
from fractions import Fraction

import numpy as np

from vq import lit
from props import formulation_harness as fh

HEADER = ("From Coq Require Import ZArith QArith Qcanon List.\n"
          "From VQ Require Import Base LinAlg Penalty.\nImport ListNotations.")
COQ_SWEEP_N = 8


def semantic_valid(rp, x):
    """(True/False/None, reason): is x a valid solution in the sense of the formulation?  None = not decidable
    here (degenerate sizes).  Uses the independent checkers of the C05 / C07 harnesses."""
    name = type(rp).__name__
    try:
        if name.startswith("Arc"):
            from props.arc_common import routes_valid
            pos = all(a.travel_time > 0 for (i, j), a in rp.arcs.items() if i != 0 and j != 0)
            return routes_valid(rp, x, require_routes=pos)
        if name.startswith("Sequence"):
            from props.seqlib import walk_valid
            if rp.max_sequence_length < 3:
                return None, ""
            return walk_valid(rp, x)
        # path-based: the selected stored routes visit every customer exactly once
        counts = [0] * len(rp.nodes)
        for xi, r in zip(x, rp.routes):
            if xi:
                for node in r[1:-1]:
                    counts[node] += 1
        badc = [k for k in range(1, len(rp.nodes)) if counts[k] != 1]
        return (not badc), (f"customers {badc} are visited {[counts[k] for k in badc]} times" if badc else "")
    except Exception as e:  # noqa: a checker that cannot run decides nothing
        return None, f"{type(e).__name__}: {e}"


def check_instance(rp):
    """Returns (data, S, out, zeros, nfeasible, problems)."""
    try:
        d = fh.dense_data(rp)
    except Exception as e:  # noqa
        return None, None, None, None, None, [("oracle/data-raises", f"constraint data raised {type(e).__name__}: {e}", {})]
    n = d["n"]
    if n > fh.SWEEP_MAX:
        return None, None, None, None, None, []      # too large for the 2^n sweep (cannot happen for the generated sizes)
    S = fh.sufficient(rp)
    out = fh.qubo_out(rp, True, None)
    problems = []
    if not out["ok"]:
        return d, S, out, None, None, [("oracle/get_qubo-raises", f"get_qubo(feasibility=True) raised {out['msg']} (n={n})", {})]
    if out["shape"] != (n, n) or not fh.shapes_consistent(d):
        return d, S, out, None, None, [("oracle/shapes", f"inconsistent shapes: Q{out['shape']}, n={n}, A{d['A_shape']}, len(b)={len(d['b'])}", {})]
    neg = [(i, j, d["R"][i][j]) for i in range(n) for j in range(n) if d["R"][i][j] < 0]
    if neg:
        i, j, v = neg[0]
        problems.append(("oracle/R-negative", f"quadratic constraint matrix has a negative entry R[{i}][{j}] = {v}",
                         {"R_entry": [i, j, str(v)]}))
    X = fh.all_binary(n)
    den = fh.common_den([v for row in out["Q"] for v in row] + [out["k"]])
    vals = fh.quad_values(fh.int_matrix(out["Q"], den, n, n), X) + int(Fraction(out["k"]) * den)
    res2, xrx = fh.constraint_views(d, X)
    feasible = (res2 == 0) & (xrx == 0)
    zero = (vals == 0)
    bad = np.flatnonzero(vals < 0)
    if len(bad):
        x = [int(v) for v in X[bad[0]]]
        problems.append(("oracle/negative-value", f"feasibility QUBO value {Fraction(int(vals[bad[0]]), den)} < 0 at x={x}",
                         {"x": x, "value": str(Fraction(int(vals[bad[0]]), den))}))
    bad = np.flatnonzero(zero & ~feasible)
    if len(bad):
        x = [int(v) for v in X[bad[0]]]
        problems.append(("oracle/zero-but-infeasible",
                         f"value 0 at x={x} which violates the constraints (|Ax-b|^2={int(res2[bad[0]])}, x'Rx={int(xrx[bad[0]])})",
                         {"x": x}))
    bad = np.flatnonzero(feasible & ~zero)
    if len(bad):
        x = [int(v) for v in X[bad[0]]]
        problems.append(("oracle/feasible-but-nonzero",
                         f"x={x} satisfies A x = b and x'Rx = 0 but has value {Fraction(int(vals[bad[0]]), den)}",
                         {"x": x, "value": str(Fraction(int(vals[bad[0]]), den))}))
    # "every zero-energy assignment is a valid solution": validate zero-value vectors against the
    # meaning of the formulation with checkers that never look at the constraint matrices
    # (independent route decomposition / walk checker / exact cover over the stored routes)
    for idx in np.flatnonzero(zero)[:40]:
        x = [int(v) for v in X[idx]]
        ok, why = semantic_valid(rp, x)
        if ok is False:
            problems.append(("oracle/zero-but-not-a-solution",
                             f"value 0 at x={x}, which is not a valid solution of the routing problem: {why}", {"x": x}))
            break
    # ... and conversely every valid solution has value zero ("minimum zero iff the routing problem is feasible" needs this
    # direction too): vectors the independent checkers accept, among them the heuristic's stored solution, must be zeros
    cand = list(np.flatnonzero(~zero))
    if len(cand) > 300:
        step = max(1, len(cand) // 300)
        cand = cand[::step][:300]
    fs = getattr(rp, "feasible_solution", None)
    if fs is not None and len(fs) == n and n > 0:
        try:
            k = int("".join(str(int(round(float(v)))) for v in fs), 2) if all(float(v) in (0.0, 1.0) for v in fs) else None
        except Exception:  # noqa
            k = None
        if k is not None and [int(v) for v in X[k]] == [int(round(float(v))) for v in fs] and not zero[k]:
            cand = [k] + cand
    for idx in cand:
        x = [int(v) for v in X[idx]]
        ok, why = semantic_valid(rp, x)
        if ok is True:
            problems.append(("oracle/solution-but-nonzero",
                             f"x={x} is a valid solution of the routing problem (independent checker) but has feasibility value "
                             f"{Fraction(int(vals[idx]), den)} (|Ax-b|^2={int(res2[idx])}, x'Rx={int(xrx[idx])} on the reported constraint data)",
                             {"x": x, "value": str(Fraction(int(vals[idx]), den))}))
            break
    if (int(vals.min()) == 0) != bool(feasible.any()):
        problems.append(("oracle/min-zero-iff-feasible",
                         f"minimum value {Fraction(int(vals.min()), den)}, feasible vectors: {int(feasible.sum())}", {}))
    return d, S, out, int(zero.sum()), int(feasible.sum()), problems


def chain_descs(rng, count):
    """Targeted sequence instances: a chain D -> c1 -> ... -> ck whose last customers have no arc back to the depot, enough
    vehicles and positions for the heuristic to serve everybody with regular vehicles, queried BEFORE the heuristic runs
    (so the only thing the heuristic changes is an exit arc); strict and non-strict."""
    INF = float("inf")
    out = []
    for _ in range(count):
        k = rng.randint(1, 3)
        cust = [f"c{i + 1}" for i in range(k)]
        nodes = [("D", 0, 0, INF)] + [(c, rng.randint(-1, 2), 0, INF if rng.random() < 0.7 else rng.randint(6, 9)) for c in cust]
        arcs = [("D", cust[0], rng.randint(0, 2), rng.randint(0, 4))]
        arcs += [(cust[i], cust[i + 1], rng.randint(0, 2), rng.randint(0, 4)) for i in range(k - 1)]
        for c in cust[:-1]:
            if rng.random() < 0.3:
                arcs.append((c, "D", rng.randint(0, 2), rng.randint(0, 4)))
        if rng.random() < 0.3:
            arcs.append(("D", rng.choice(cust), rng.randint(0, 2), rng.randint(0, 4)))
        rng.shuffle(arcs)
        out.append({"nodes": nodes, "depot_first": True, "arcs": arcs, "time_points": [0, 1, 2], "V": rng.randint(1, 2),
                    "L": k + rng.randint(2, 3), "strict": rng.random() < 0.4, "routes": [], "vehicle_cap": 10,
                    "initial_loading": 2, "make_feasible": rng.choice([0, 10]), "mf_mode": "after_query",
                    "np_seed": rng.randrange(2 ** 31), "cost_scale": 1})
    return out


def selfloop_descs(rng, count):
    """Arc-based instances in which a customer carries an arc to itself with travel time zero: the move (k,s,k,s) enters and
    leaves (k,s) at once, so it appears twice in the same flow-conservation row (+1 and -1, which must SUM to 0) and once in
    the visit row.  The independent checker does not require routes here (closed customer cycles are legitimate once a
    customer-to-customer travel time is zero)."""
    INF = float("inf")
    out = [{"nodes": [("D", 0, 0, INF), ("c1", 0, 0, 2)], "depot_first": True,
            "arcs": [("D", "c1", 1, 1), ("c1", "c1", 0, 0), ("c1", "D", 1, 1)], "time_points": [0, 1, 2], "V": 1, "L": 3,
            "strict": False, "routes": [], "vehicle_cap": 5, "initial_loading": 5, "make_feasible": None, "mf_mode": "fresh",
            "np_seed": 1, "cost_scale": 1}]
    for _ in range(count):
        k = rng.randint(1, 2)
        cust = [f"c{i + 1}" for i in range(k)]
        nodes = [("D", 0, 0, INF)] + [(c, 0, rng.randint(0, 1), rng.randint(1, 3)) for c in cust]
        arcs = []
        for c in cust:
            if rng.random() < 0.85:
                arcs.append(("D", c, rng.randint(0, 1), rng.randint(0, 3)))
            if rng.random() < 0.85:
                arcs.append((c, "D", rng.randint(0, 1), rng.randint(0, 3)))
            if rng.random() < 0.8:
                arcs.append((c, c, 0, rng.randint(0, 2)))
        if k == 2 and rng.random() < 0.6:
            arcs.append(("c1", "c2", rng.randint(0, 1), 1))
        rng.shuffle(arcs)
        out.append(dict(out[0], nodes=nodes, arcs=arcs, time_points=sorted(rng.sample([0, 1, 2, 3], rng.randint(2, 3)))))
    return out


def instance_fails(kind, desc, sig):
    rp = fh.BUILDERS[kind](desc)
    try:
        if int(rp.get_num_variables()) < 1:
            return False
    except Exception:  # noqa
        return False
    return any(p[0] == sig for p in check_instance(rp)[5])


def case_lit(d, S, out, zeros):
    z = "None" if (zeros is None or d["n"] > COQ_SWEEP_N) else f"(Some {lit.z(zeros)})"
    return lit.tup(fh.qdata_lit(d), lit.z(lit.exact_int(S)), fh.qout_lit(out), z)


def run(ctx):
    ctx.prove(props=["C03", "C03_forms"])
    # models regenerated from the source: get_qubo (C02_gen, incl. C02_gen_feasibility_value_Z = C03 for the generated term)
    # and the sufficient penalties (C04_gen: 0 in feasibility mode)
    from props import genreg
    genreg.steps(ctx, ("getqubo", "suffpen"))
    rng = ctx.rng
    count = 300 if ctx.quick else 6000
    max_n = 14 if ctx.quick else 18
    stats = {"feasible_instances": 0, "infeasible_instances": 0, "R_nonzero": 0}
    cases, terms = [], []
    reported, seen = set(), set()
    n_eval = 0
    for kind0, desc0 in fh.corner_cases():
        rp0 = fh.BUILDERS[kind0](desc0)
        for sig, msg, extra in check_instance(rp0)[5]:
            ctx.violation(f"{sig}/{kind0}/corner", f"{kind0}: {msg}",
                          dict(fh.describe({"kind": kind0, "desc": desc0, "rp": rp0}), **extra), True)
    for case in fh.gen_objects(rng, count, max_n, stats=stats):
        rp, kind = case["rp"], case["kind"]
        d, S, out, zeros, nfeas, problems = check_instance(rp)
        for sig, msg, extra in problems:
            full = f"{sig}/{kind}"
            if full in reported:
                continue
            reported.add(full)
            small = fh.shrink_desc(case["desc"], lambda c, k=kind, s=sig: instance_fails(k, c, s))
            rp2 = fh.BUILDERS[kind](small)
            hit = [p for p in check_instance(rp2)[5] if p[0] == sig]
            msg2, extra2 = (hit[0][1], hit[0][2]) if hit else (msg, extra)
            ctx.violation(full, f"{kind}: {msg2}",
                          dict(fh.describe(dict(case, desc=small, rp=rp2)), **extra2,
                               python="props.c03.check_instance(fh.BUILDERS[kind](desc))"), True)
        if d is None or out is None:
            continue
        from props.c02 import fh_int
        if not fh_int(d):
            continue
        cases.append((case, d, S, out, bool(problems)))
        terms.append(case_lit(d, S, out, zeros))
        n_eval += 2 ** d["n"]
        if nfeas:
            stats["feasible_instances"] += 1
        else:
            stats["infeasible_instances"] += 1
        if any(v != 0 for row in d["R"] for v in row):
            stats["R_nonzero"] += 1
        key = repr((kind, d))
        if d["n"] >= 2 and 0 < (zeros or 0) < 2 ** d["n"] and key not in seen:
            seen.add(key)
            ctx.count(nontrivial=1)
        ctx.sample({"kind": kind, "n": d["n"], "zero_value_vectors": zeros, "feasible_vectors": nfeas,
                    "make_feasible": case["desc"]["make_feasible"], "mf_outcome": rp.vq_mf})
    # targeted: sequence chains whose exit arc is added by the heuristic after the model was queried
    n_chain = 0
    for desc in chain_descs(rng, 40 if ctx.quick else 600):
        try:
            rp = fh.BUILDERS["seq"](desc)
            if int(rp.get_num_variables()) < 1 or int(rp.get_num_variables()) > max_n:
                continue
        except Exception:  # noqa
            continue
        n_chain += 1
        for sig, msg, extra in check_instance(rp)[5]:
            full = f"{sig}/seq"
            if full in reported:
                continue
            reported.add(full)
            ctx.violation(full, f"seq (chain, queried before the heuristic): {msg}",
                          dict(fh.describe({"kind": "seq", "desc": desc, "rp": rp}), **extra,
                               python="props.c03.check_instance(fh.BUILDERS['seq'](desc))"), True)
    stats["seq_chain_queried_before_heuristic"] = n_chain
    # targeted: arc instances with a zero-time arc from a customer to itself (duplicate entries of one flow row must be summed)
    n_loop = 0
    for desc in selfloop_descs(rng, 25 if ctx.quick else 400):
        try:
            rp = fh.BUILDERS["arc"](desc)
            if int(rp.get_num_variables()) < 1 or int(rp.get_num_variables()) > max_n:
                continue
        except Exception:  # noqa
            continue
        n_loop += 1
        for sig, msg, extra in check_instance(rp)[5]:
            full = f"{sig}/arc/self-loop"
            if full in reported:
                continue
            reported.add(full)
            ctx.violation(full, f"arc (customer with a zero-time arc to itself): {msg}",
                          dict(fh.describe({"kind": "arc", "desc": desc, "rp": rp}), **extra,
                               python="props.c03.check_instance(fh.BUILDERS['arc'](desc))"), True)
    stats["arc_customer_self_loop"] = n_loop
    # path-based problems that grow between two queries (a customer added after the first feasibility QUBO was requested)
    from props import c02_grow

    def check_grown(rp_, rng_):
        r = check_instance(rp_)
        return r[0], r[1], r[2], r[5]
    stats["path_grown_between_queries"] = c02_grow.run_stream(ctx, check_grown, 25 if ctx.quick else 250)
    ctx.count(evaluations=n_eval, traces=len(cases))
    ctx.cov["input_distribution"] = stats
    ctx.cov["rule"] = ("formulation harness instances (see C02) built through the real classes, get_qubo(feasibility=True) with the "
                       "default penalty; evaluations = binary vectors swept on the implementation; non-trivial = distinct instance "
                       "with n >= 2 that has both zero-value and positive-value vectors")
    ctx.assumptions.append("numpy/scipy float arithmetic is exact on the integer data used (magnitudes below 2^52)")
    mism, err = ctx.coq_mismatches("feas", HEADER, "c03case", "check_c03case", terms, shard=30)
    shown = 0
    for idx, tags in mism:
        case, d, S, out, explained = cases[idx]
        if explained or shown >= 3:
            continue
        shown += 1
        model = ctx.coq_eval(HEADER, f"Zget_qubo_impl true None {lit.z(lit.exact_int(S))} {fh.qdata_lit(d)}")
        ctx.violation(f"correspondence/{case['kind']}/tags{tags}",
                      f"model and implementation disagree on get_qubo(feasibility=True) (tags {tags}: 1 outcome, 2 shape, 3 matrix, "
                      "4 constant, 5 non-integral, 6 number of zero-value vectors, 7 zero set vs feasible set); the oracle found no failing vector",
                      dict(fh.describe(case), correspondence="Penalty.check_c03case", data={k: str(v) for k, v in d.items()},
                           implementation=str(out), model=model[-3000:]), False)
    if ctx.tier == "thorough":
        ctx.coqchk("VQP.C03")
        ctx.coqchk("VQP.C03_forms")


def replay(ctx, data):
    kind, desc = fh.undescribe(data["replay"])
    d, S, out, zeros, nfeas, problems = check_instance(fh.BUILDERS[kind](desc))
    print({"n": d and d["n"], "zeros": zeros, "feasible": nfeas, "problems": problems})
