"""C06, extra stream: the depot is chosen AFTER nodes and arcs exist (and was not the first node added).

The path-based class inherits set_depot from the graph class, which has to move the depot to the front and re-file every
arc.  Candidate routes are given BY NAME and judged by a reference computed from the description alone (names, windows,
demands, the arcs that pass the base timing rule), never from the object's own tables.  Oracle only (the Coq model of
Path.v has no set_depot operation); the graph side of this history is property C15's subject.
(Seeded changes C05_k / C06_k re-key the arcs wrongly when the depot was the third or a later node.)"""
import itertools

INF = float("inf")


def reference(desc, route):
    """(valid, cost) of a route given as names, from the description only."""
    win = {n[0]: (n[2], n[3]) for n in desc["nodes"]}
    dem = {n[0]: n[1] for n in desc["nodes"]}
    arcs = {}
    for (o, d, tt, c) in desc["arcs"]:
        if win[o][0] + tt <= win[d][1]:
            arcs[(o, d)] = (tt, c)
    D = desc["depot"]
    if len(route) < 2 or route[0] != D or route[-1] != D:
        return False, None
    seen = set()
    time, load, cost = 0, desc["init"], 0
    for a, b in zip(route, route[1:]):
        if a in seen:
            return False, None
        seen.add(a)
        if (a, b) not in arcs:
            return False, None
        tt, c = arcs[(a, b)]
        time = max(time + tt, win[b][0])
        if time > win[b][1]:
            return False, None
        load = load - dem[b]
        if load > desc["cap"] or load < 0:
            return False, None
        cost += c
    return True, cost


def gen_desc(rng):
    k = rng.randint(2, 3)
    names = ["A", "B", "C"][:k]
    order = names[:]
    order.insert(rng.randint(1, k), "D")                 # the depot is added second, third or last
    nodes = [(nm, 0 if nm == "D" else rng.randint(-1, 1), 0, INF if (nm == "D" or rng.random() < 0.5) else rng.randint(4, 9)) for nm in order]
    arcs = []
    cost = 1
    for o in order:
        for d in order:
            if o != d and rng.random() < 0.85:
                arcs.append((o, d, rng.randint(0, 2), cost))       # all costs distinct: a misfiled arc shows in the cost
                cost += rng.randint(1, 3)
    rng.shuffle(arcs)
    return {"nodes": nodes, "arcs": arcs, "depot": "D", "cap": 3, "init": 1}


def run_stream(ctx, count):
    from vrpqubo.routing_problem.formulations.path_based_rp import PathBasedRoutingProblem
    rng = ctx.rng
    done = 0
    for _ in range(count):
        desc = gen_desc(rng)
        p = PathBasedRoutingProblem()
        p.set_vehicle_cap(desc["cap"])
        p.set_initial_loading(desc["init"])
        for (nm, dem, lo, hi) in desc["nodes"]:
            p.add_node(nm, dem, (lo, hi))
        for (o, d, tt, c) in desc["arcs"]:
            p.add_arc(o, d, tt, c)
        p.set_depot(desc["depot"])
        cust = [n[0] for n in desc["nodes"] if n[0] != "D"]
        for ln in range(1, len(cust) + 1):
            for mid in itertools.permutations(cust, ln):
                route = ["D"] + list(mid) + ["D"]
                want, wcost = reference(desc, route)
                done += 1
                try:
                    feas, cost, _ = p.check_route(list(route))
                except Exception as e:  # noqa
                    feas, cost = None, type(e).__name__
                if bool(feas) != want or (want and cost != wcost):
                    ctx.violation("oracle/check_route/depot-chosen-after-arcs",
                                  f"nodes added in the order {[n[0] for n in desc['nodes']]}, arcs added, then set_depot('D'): route {route} "
                                  f"is {'accepted' if feas else 'rejected'} with cost {cost}; by the route definition on the described graph "
                                  f"it is {'valid with cost ' + str(wcost) if want else 'invalid'}",
                                  {"description": {k: (v if k != 'nodes' else [list(map(str, n)) for n in v]) for k, v in desc.items()},
                                   "route": route, "python": "props.c06_depot.reference(desc, route) vs check_route"}, True)
                    return done
    ctx.count(evaluations=done)
    return done
