"""Shared helpers of the MIRP checks (C11, C12): driving the real MIRP with exact rationals,
snapshots of its state, Gallina literals of the model in coq/theories/Mirp.v."""
import math
import re
from fractions import Fraction

from vq import lit
from vq.core import exc_cls
from props.xq import XQ, frac

HEADER = "From VQ Require Import Base Mirp.\nLocal Open Scope Q_scope."
INF = float("inf")

# port names <-> the model's port numbers
PORT_CODE = {"S1": 1, "S2": 2, "S3": 3, "D1": 11, "D2": 12, "D3": 13, "P": 20, "P-0": 21}


def xq(x):
    return XQ(Fraction(x))


def make_mirp(size, horizon):
    from vrpqubo.applications.mirp import MIRP
    return MIRP(xq(size), xq(horizon))


def parse_name(s):
    """'Depot' | 'Dum<i>' | '<port>-<k>'  ->  ('depot',) | ('dum', i) | ('visit', port, k)"""
    if s == "Depot":
        return ("depot",)
    m = re.fullmatch(r"Dum(\d+)", s)
    if m:
        return ("dum", int(m.group(1)))
    port, _, k = s.rpartition("-")
    if not port or not re.fullmatch(r"\d+", k):
        raise ValueError(f"unexpected node name {s!r}")
    return ("visit", port, int(k))


def name_lit(s):
    p = parse_name(s)
    if p[0] == "depot":
        return "NDepot"
    if p[0] == "dum":
        return f"(NDum {lit.nat(p[1])})"
    return f"(NVisit {lit.nat(PORT_CODE[p[1]])} {lit.nat(p[2])})"


def q_lit(x):
    return lit.q(frac(x))


def qext_lit(x):
    v = frac(x)
    if isinstance(v, float):
        assert math.isinf(v) and v > 0
        return "QInf"
    return f"(QFin {lit.q(v)})"


def snapshot(m):
    """Exact state of a MIRP object: nodes, arcs (dict order), supply_ports, demand_ports, port_mapping."""
    g = m.vrptw
    assert list(g.node_names) == [n.name for n in g.nodes]
    nodes = [(n.name, frac(n.demand), frac(n.time_window[0]), frac(n.time_window[1])) for n in g.nodes]
    arcs = [((i, j), (a.origin.name, a.destination.name, frac(a.travel_time), frac(a.cost)))
            for (i, j), a in g.arcs.items()]
    return {"nodes": nodes, "arcs": arcs, "sports": list(m.supply_ports), "dports": list(m.demand_ports),
            "pmap": [(p, list(l)) for p, l in m.port_mapping.items()]}


def sobs_lit(st):
    nodes = lit.lst([lit.tup(name_lit(n), lit.q(d), lit.q(a), qext_lit(b)) for n, d, a, b in st["nodes"]])
    arcs = lit.lst([lit.pair(lit.pair(lit.nat(k[0]), lit.nat(k[1])),
                             lit.tup(name_lit(v[0]), name_lit(v[1]), lit.q(v[2]), lit.q(v[3])))
                    for k, v in st["arcs"]])
    # a key that is not a port name (e.g. a dummy vessel filed as a port) gets code 99: it can only disagree with the model
    code = lambda p: PORT_CODE.get(p, 99)
    sp = lit.lst([lit.nat(code(p)) for p in st["sports"]])
    dp = lit.lst([lit.nat(code(p)) for p in st["dports"]])
    pm = lit.lst([lit.pair(lit.nat(code(p)), lit.lst([name_lit(x) for x in l])) for p, l in st["pmap"]])
    return lit.tup(nodes, arcs, sp, dp, pm)


def jsonable(x):
    if isinstance(x, Fraction):
        return str(x)
    if isinstance(x, XQ):
        return str(x.v)
    if isinstance(x, float):
        return "inf" if math.isinf(x) else x
    if isinstance(x, (list, tuple)):
        return [jsonable(y) for y in x]
    if isinstance(x, dict):
        return {str(k): jsonable(v) for k, v in x.items()}
    return x


# ---------------- operations ----------------
# ("nodes", port, init, rate, cap)
# ("travel", [((s, d), dist)], speed, unit, [(port, fee)] supply, [(port, fee)] demand)
# ("exit", tt, cost)
# ("entry", limit, tt, cost)
def apply_op(m, op):
    """Run one MIRP method with exact XQ data; returns ('ok', value) or ('err', class name)."""
    try:
        if op[0] == "nodes":
            r = m.add_nodes(op[1], xq(op[2]), xq(op[3]), xq(op[4]))
            # the caller collects the returned names in one list (names = add_nodes(..); names += add_nodes(..)): the
            # returned list is the caller's to edit and must not be the MIRP's own bookkeeping
            if isinstance(r, list):
                mine = list(r)
                if getattr(m, "_vq_names", None) is None:
                    m._vq_names = r
                else:
                    m._vq_names += r
                r = mine
        elif op[0] == "travel":
            table = {k: xq(v) for k, v in op[1]}
            fs = {k: xq(v) for k, v in op[4]}
            fd = {k: xq(v) for k, v in op[5]}
            r = m.add_travel_arcs(lambda a, b: table[(a, b)], xq(op[2]), xq(op[3]), fs, fd)
        elif op[0] == "exit":
            r = m.add_exit_arcs(xq(op[1]), xq(op[2]))
        elif op[0] == "entry":
            r = m.add_entry_arcs(xq(op[1]), xq(op[2]), xq(op[3]))
        else:
            raise AssertionError(op)
        return ("ok", r)
    except Exception as e:  # noqa
        return ("err", exc_cls(e))


def op_lit(op):
    if op[0] == "nodes":
        return f"AddNodes {lit.nat(PORT_CODE[op[1]])} {lit.q(op[2])} {lit.q(op[3])} {lit.q(op[4])}"
    if op[0] == "travel":
        dist = lit.lst([lit.pair(lit.pair(lit.nat(PORT_CODE[k[0]]), lit.nat(PORT_CODE[k[1]])), lit.q(v)) for k, v in op[1]])
        fs = lit.lst([lit.pair(lit.nat(PORT_CODE[k]), lit.q(v)) for k, v in op[4]])
        fd = lit.lst([lit.pair(lit.nat(PORT_CODE[k]), lit.q(v)) for k, v in op[5]])
        return f"AddTravelArcs {dist} {lit.q(op[2])} {lit.q(op[3])} {fs} {fd}"
    if op[0] == "exit":
        return f"AddExitArcs {lit.q(op[1])} {lit.q(op[2])}"
    return f"AddEntryArcs {lit.q(op[1])} {lit.q(op[2])} {lit.q(op[3])}"


def names_lit(names):
    return lit.lst([name_lit(x) for x in names])


def mresult_lit(r):
    if r[0] == "err":
        return lit.err(r[1])
    if r[1] is None:
        return lit.ok("None")
    return lit.ok(f"(Some {names_lit(r[1])})")
