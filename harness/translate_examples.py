"""translate_examples.py -- fail-closed translator of the two example BUILDERS
    examples/mirp_g1.py      : get_mirp(time_horizon)
    examples/mirp_random.py  : RandomMIRP.get_random_mirp(self, reset_seed)
into Gallina: coq/gen/ExamplesGen.v (property C12; C11 for the G1 port data).

A builder creates one MIRP object and calls its methods.  The generated definition is a computation in the builder
monad of coq/theories/PyExamples.v (`B A = log -> log * result A`): every call on the MIRP object appends one entry
(`PInit`, `PAddNodes`, `PTravel`, `PExit`, `PEntry`, arguments as written, port names as strings, the distance closure
as a function) to the log; pure Python between the calls runs in the exception monad `result`.  What the calls DO is the
model of class MIRP (Mirp.v, tied to applications/mirp.py by the `mirp` package).  coq/genprops/C12_examples_gen.v
proves that the log is a canonical build meeting the hypotheses of the C12 theorems.

The translator is a typed printer: it prints each statement / expression 1:1 into combinators DEFINED in PyExamples.v
and knows nothing about what the builders are supposed to do.  Every number, string, operator, argument position and
the order of the statements comes from the ast.

Parameters of a generated function, in this order: the Python parameters (not `self`), then -- in order of first
occurrence in the source --
  d<k>_<field>         the value of the k-th draw  sample(self.<field>[, size=n]) / self.<field>.rvs(size=(a, b));
                       type from the dataclass annotation of the field (Real -> Q, int -> nat, ArrayLike -> list Q with
                       `size=`, matrix for rvs with a pair)
  f_<field>            the field itself where it is used without drawing (np.asarray(self.<field>))
  is_sampleable_<f>    isinstance(self.<f>, Sampleable_Type)         is_none_<f>   self.<f> is None
They are universally quantified in every theorem (oracle parameters).

Accepted fragment (anything else raises Rejected with the line number):
  statements   x = e | d[k] = e (dict local) | m[i, j] = e (matrix local) | x = MIRP(a, b) (once) |
               <mirp>.add_nodes(...) / add_travel_arcs(...) / add_exit_arcs(...) / add_entry_arcs(...) (positional and
               keyword arguments bound to the parameter names and defaults read from applications/mirp.py) |
               np.random.seed(self.<field>) | assert e[, msg] | if/else | for <pattern> in zip(..) / enumerate(..) /
               range(..) / a list | nested def f(a, b) of assignments and a final return (only as the distance function
               argument; translated where it is passed, with the variables as they are bound THERE -- Python closures
               bind late) | return <mirp> (last statement) | ignored: docstrings, pass, comments,
               logger.<level>(constants / names), the annotation of `x: T = e`
  expressions  names, int / float / str constants, True / False, unary minus, not, + - * / on numbers, + * on counters,
               + on lists, and / or of total operands, the six comparisons on numbers and counters, [..] and [[..], ..]
               literals, {} , l[i], m[i][j], m[i, j], d[k], l.index(x), len(x), dict(zip(a, b)), zip, enumerate, range,
               f"..{n}..", (a <cmp> c).all(), m.shape == (a, b), np.zeros(n), np.asarray(self.<field>),
               sample(self.<field>[, size=n]), self.<field>.rvs(size=(a, b)), isinstance(self.<field>, Sampleable_Type),
               self.<field> is None, <mirp>.supply_ports, <mirp>.demand_ports.
Guards: one MIRP object, never aliased, returned at the end; a mutable value (list, dict, matrix) gets no second name; a
loop variable must be new and is not visible after the loop; a loop must not re-assign what it iterates over; no
break / continue / while / try / with / global / nonlocal / lambda / comprehension / starred; float constants are read
as the decimal number written (repr), never rounded.

Public entry: translate() -> {"ExamplesGen.v": text};  crosscheck(ctx, recorded_calls) is the run-time comparison of
the generated G1 log with the calls the real get_mirp makes.
"""
import ast
import copy
import os
from collections import OrderedDict
from fractions import Fraction


class Rejected(Exception):
    pass


def where(node):
    return f"line {getattr(node, 'lineno', '?')}"


def reject(node, msg):
    raise Rejected(f"{where(node)}: {msg}")


# ------------------------------------------------------------------------------------------
# types
# ------------------------------------------------------------------------------------------
Q, NAT, BOOL, STR, UNIT, SDICT = "Q", "nat", "bool", "string", "unit", "sdict"
LQ = ("list", Q)
MAT = ("list", LQ)


class TArr:
    """a numeric array whose rank (1 or 2) is fixed by its first use"""
    def __init__(self):
        self.rank = None


def norm(t):
    if isinstance(t, TArr):
        return {None: t, 1: LQ, 2: MAT}[t.rank]
    if isinstance(t, tuple) and t[0] == "list":
        return ("list", norm(t[1]))
    if isinstance(t, tuple) and t[0] == "tuple":
        return ("tuple", tuple(norm(x) for x in t[1]))
    return t


def unify(a, b, node):
    a, b = norm(a), norm(b)
    if a == b:
        return a
    for x, y in ((a, b), (b, a)):
        if isinstance(x, TArr) and y in (LQ, MAT):
            x.rank = 1 if y == LQ else 2
            return y
    if isinstance(a, tuple) and isinstance(b, tuple) and a[0] == b[0] == "list":
        return ("list", unify(a[1], b[1], node))
    reject(node, f"type mismatch: {show(a)} vs {show(b)}")


def show(t):
    t = norm(t)
    if isinstance(t, TArr):
        return "array of unknown rank"
    if isinstance(t, tuple) and t[0] == "list":
        return f"list ({show(t[1])})"
    if isinstance(t, tuple) and t[0] == "tuple":
        return "(" + " * ".join(show(x) for x in t[1]) + ")"
    return str(t)


def coq_type(t, node=None):
    t = norm(t)
    if isinstance(t, TArr):
        raise Rejected(f"{where(node)}: the rank of an array is never fixed by the source")
    if isinstance(t, tuple) and t[0] == "list":
        return f"(list {coq_type(t[1], node)})"
    if isinstance(t, tuple) and t[0] == "tuple":
        return "(" + " * ".join(coq_type(x, node) for x in t[1]) + ")%type"
    return t


def is_mutable(t):
    t = norm(t)
    return isinstance(t, TArr) or t == SDICT or (isinstance(t, tuple) and t[0] == "list")


def q_lit(v):
    fr = Fraction(repr(v)) if isinstance(v, float) else Fraction(v)
    return f"(Qmake {fr.numerator}%Z {fr.denominator}%positive)"


def str_lit(s, node):
    if not all(c.isalnum() or c in " _-." for c in s):
        reject(node, f"string constant {s!r} outside [A-Za-z0-9 _-.]")
    return f"\"{s}\"%string"


CMP_Q = {ast.Lt: "q_lt", ast.LtE: "q_le", ast.Gt: "q_gt", ast.GtE: "q_ge", ast.Eq: "q_eq", ast.NotEq: "q_ne"}
CMP_N = {ast.Lt: "n_lt", ast.LtE: "n_le", ast.Gt: "n_gt", ast.GtE: "n_ge", ast.Eq: "n_eq", ast.NotEq: "n_ne"}

# constructors of PyExamples.pyop: positional argument types (parameter NAMES and defaults come from applications/mirp.py)
FN2 = ("fn2",)
METHODS = OrderedDict([
    ("__init__", ("PInit", [Q, Q])),
    ("add_nodes", ("PAddNodes", [STR, Q, Q, Q])),
    ("add_travel_arcs", ("PTravel", [FN2, Q, Q, SDICT, SDICT])),
    ("add_exit_arcs", ("PExit", [Q, Q])),
    ("add_entry_arcs", ("PEntry", [Q, Q, Q])),
])


def is_docstring(st):
    return isinstance(st, ast.Expr) and isinstance(st.value, ast.Constant) and isinstance(st.value.value, str)


def is_logger_call(st):
    """logger.<level>(constants and plain names): no effect on the builder"""
    if not (isinstance(st, ast.Expr) and isinstance(st.value, ast.Call)):
        return False
    c = st.value
    return (isinstance(c.func, ast.Attribute) and isinstance(c.func.value, ast.Name) and c.func.value.id == "logger"
            and c.func.attr in ("debug", "info", "warning", "error", "critical") and not c.keywords
            and all(isinstance(a, (ast.Constant, ast.Name)) for a in c.args))


def strip_ignored(stmts):
    out = []
    for s in stmts:
        if is_docstring(s) or isinstance(s, ast.Pass) or is_logger_call(s):
            continue
        if isinstance(s, ast.AnnAssign) and s.simple and isinstance(s.target, ast.Name):
            if s.value is None:
                continue                                     # a bare annotation binds nothing
            s = ast.copy_location(ast.Assign(targets=[s.target], value=s.value), s)
        out.append(s)
    return out


def assigned_names(stmts):
    """names (re)bound by the statements: assignment targets, bases of subscript stores, loop targets, nested defs"""
    out = []

    def add(n):
        if n not in out:
            out.append(n)

    def target(t):
        if isinstance(t, ast.Name):
            add(t.id)
        elif isinstance(t, (ast.Tuple, ast.List)):
            for x in t.elts:
                target(x)
        elif isinstance(t, ast.Subscript):
            b = t.value
            while isinstance(b, ast.Subscript):
                b = b.value
            if isinstance(b, ast.Name):
                add(b.id)
    for st in stmts:
        for n in ast.walk(st):
            if isinstance(n, ast.Assign):
                for t in n.targets:
                    target(t)
            elif isinstance(n, (ast.AugAssign, ast.AnnAssign)):
                target(n.target)
            elif isinstance(n, ast.For):
                target(n.target)
            elif isinstance(n, ast.FunctionDef):
                add(n.name)
            elif isinstance(n, ast.NamedExpr):
                target(n.target)
    return out


class Var:
    def __init__(self, ty, kind="val", node=None):
        self.ty = ty          # type (kind val) / None
        self.kind = kind      # val | mirp | closure
        self.node = node      # FunctionDef of a closure


# ------------------------------------------------------------------------------------------
# one builder function
# ------------------------------------------------------------------------------------------
class Fn:
    def __init__(self, fn, gen_name, ptypes, sigs, fields=None, module_names=()):
        self.fn = fn
        self.gen = gen_name
        self.sigs = sigs                  # MIRP method -> [(param name, default ast or None)]
        self.fields = fields              # dataclass field -> annotation text (None: a plain function)
        self.module_names = module_names  # names the module binds (sample, MIRP, Sampleable_Type, np)
        self.params = []                  # [(coq name, type)]
        self.param_index = {}
        self.ndraws = 0
        self.ntmp = 0
        self.nloops = 0
        self.loop_defs = []               # thunks producing the text of lifted loop bodies
        self.uses = []                    # stack of sets of Python names read
        self.mirp = None                  # Python name of the MIRP object
        self.self_name = None
        args = fn.args
        if args.vararg or args.kwarg or args.kwonlyargs or args.posonlyargs or fn.decorator_list:
            reject(fn, "unsupported signature")
        names = [a.arg for a in args.args]
        if fields is not None:
            if not names or names[0] != "self":
                reject(fn, "method without self")
            self.self_name = names.pop(0)
        if len(names) != len(ptypes):
            reject(fn, f"{fn.name}: expected {len(ptypes)} parameters")
        self.env = OrderedDict()
        for n, t in zip(names, ptypes):
            self.params.append(("v_" + n, t))
            self.env[n] = Var(t)

    # ---- helpers ----
    def tmp(self):
        self.ntmp += 1
        return f"t{self.ntmp}"

    def use(self, name):
        for s in self.uses:
            s.add(name)

    def param(self, key, coq, ty):
        if key not in self.param_index:
            self.param_index[key] = (coq, ty)
            self.params.append((coq, ty))
        return self.param_index[key]

    def field_of(self, e):
        """self.<field> -> field name, else None"""
        if (self.self_name and isinstance(e, ast.Attribute) and isinstance(e.value, ast.Name)
                and e.value.id == self.self_name and isinstance(e.ctx, ast.Load)):
            if e.attr not in self.fields:
                reject(e, f"self.{e.attr} is not a field of the dataclass")
            return e.attr
        return None

    def field_type(self, field, node, sized):
        ann = self.fields[field]
        if "ArrayLike" in ann:
            if sized == "pair":
                return MAT
            if sized == "one":
                return LQ
            if sized == "raw":
                return TArr()
            reject(node, f"an array field ({field}) is drawn without size")
        if sized in ("pair", "raw"):
            reject(node, f"scalar field {field} used as an array")
        if "int" in ann and "Real" not in ann:
            return NAT
        if "Real" in ann:
            return Q
        reject(node, f"field {field}: annotation {ann} is neither int, Real nor ArrayLike")

    def is_mirp_attr(self, e):
        return (isinstance(e, ast.Attribute) and isinstance(e.value, ast.Name) and self.mirp is not None
                and e.value.id == self.mirp)

    def effectful(self, stmts):
        """does the code touch the MIRP object or the generator (then it runs in B, otherwise in `result`)"""
        for st in stmts:
            for n in ast.walk(st):
                if isinstance(n, ast.Name) and (n.id == "MIRP" or (self.mirp is not None and n.id == self.mirp)):
                    return True
                if isinstance(n, ast.Attribute) and n.attr == "seed":
                    return True
        return False

    @staticmethod
    def wrap(pre, body, mode):
        for t, comp, kind in reversed(pre):
            if kind == "B":
                if mode != "B":
                    raise Rejected("a read of the MIRP object inside pure code")
                body = f"bind {comp} (fun {t} =>\n{body})"
            elif mode == "B":
                body = f"bind (lift ({comp})) (fun {t} =>\n{body})"
            else:
                body = f"rbind ({comp}) (fun {t} =>\n{body})"
        return body

    @staticmethod
    def ret(mode, val):
        return f"ret {val}" if mode == "B" else f"rret {val}"

    # ---- number typing ----
    def numtype(self, e, env):
        """Q / nat if the expression fixes it, None for constants"""
        if isinstance(e, ast.Name) and e.id in env and env[e.id].kind == "val":
            t = norm(env[e.id].ty)
            return t if t in (Q, NAT) else None
        if isinstance(e, ast.BinOp):
            if isinstance(e.op, ast.Div):
                return Q
            a, b = self.numtype(e.left, env), self.numtype(e.right, env)
            return a if a in (Q, NAT) else b if b in (Q, NAT) else (a or b)
        if isinstance(e, ast.UnaryOp) and isinstance(e.op, ast.USub):
            return self.numtype(e.operand, env)
        if isinstance(e, ast.Constant) and isinstance(e.value, float):
            return Q
        if isinstance(e, ast.Call) and isinstance(e.func, ast.Name) and e.func.id == "len":
            return NAT
        if isinstance(e, (ast.Subscript, ast.Call, ast.Attribute)):
            return "?"
        return None

    # ---- expressions ----
    def expr(self, e, env, pre, want=None):
        """-> (term, type); partial operations are bound to temporaries through `pre`"""
        if isinstance(e, ast.Name):
            if not isinstance(e.ctx, ast.Load):
                reject(e, "store context")
            if e.id not in env:
                reject(e, f"unknown name {e.id} (not a local visible here)")
            v = env[e.id]
            if v.kind != "val":
                reject(e, f"{e.id} ({v.kind}) used as a value")
            self.use(e.id)
            return "v_" + e.id, v.ty
        if isinstance(e, ast.Constant):
            v = e.value
            if isinstance(v, bool):
                return ("true" if v else "false"), BOOL
            if isinstance(v, int):
                if want == NAT:
                    if v < 0 or v > 1000:
                        reject(e, "counter constant out of range")
                    return f"{v}%nat", NAT
                return q_lit(v), Q
            if isinstance(v, float):
                if v != v or v in (float("inf"), float("-inf")):
                    reject(e, "non-finite float")
                return q_lit(v), Q
            if isinstance(v, str):
                return str_lit(v, e), STR
            reject(e, f"constant {v!r}")
        if isinstance(e, ast.UnaryOp):
            if isinstance(e.op, ast.USub):
                a, t = self.expr(e.operand, env, pre, want)
                if norm(t) != Q:
                    reject(e, "unary minus on a non-number")
                return f"(Qopp {a})", Q
            if isinstance(e.op, ast.Not):
                a, t = self.expr(e.operand, env, pre)
                if norm(t) != BOOL:
                    reject(e, "not on a non-bool")
                return f"(negb {a})", BOOL
            reject(e, "unary operator")
        if isinstance(e, ast.BinOp):
            return self.binop(e, env, pre, want)
        if isinstance(e, ast.BoolOp):
            terms = []
            for k, x in enumerate(e.values):
                n0 = len(pre)
                a, t = self.expr(x, env, pre)
                if norm(t) != BOOL:
                    reject(x, "and/or on a non-bool")
                if k > 0 and len(pre) != n0:
                    reject(x, "and/or operand that may raise (short-circuit evaluation is not modelled)")
                terms.append(a)
            op = "andb" if isinstance(e.op, ast.And) else "orb"
            out = terms[0]
            for a in terms[1:]:
                out = f"({op} {out} {a})"
            return out, BOOL
        if isinstance(e, ast.Compare):
            return self.compare(e, env, pre)
        if isinstance(e, ast.List):
            if not e.elts:
                reject(e, "empty list literal (element type unknown)")
            items = [self.expr(x, env, pre, want[1] if isinstance(want, tuple) and want[0] == "list" else None) for x in e.elts]
            t = items[0][1]
            for (_, t2), x in zip(items[1:], e.elts[1:]):
                t = unify(t, t2, x)
            return "[" + "; ".join(a for a, _ in items) + "]", ("list", t)
        if isinstance(e, ast.Dict):
            if e.keys:
                reject(e, "non-empty dict literal")
            return "(@nil (string * Q))", SDICT
        if isinstance(e, ast.JoinedStr):
            parts = []
            for p in e.values:
                if isinstance(p, ast.Constant) and isinstance(p.value, str):
                    parts.append(f"FS {str_lit(p.value, p)}")
                elif isinstance(p, ast.FormattedValue) and p.conversion == -1 and p.format_spec is None:
                    a, t = self.expr(p.value, env, pre, NAT)
                    if norm(t) != NAT:
                        reject(p, "f-string field that is not a counter")
                    parts.append(f"FN {a}")
                else:
                    reject(p, "f-string piece")
            return "(fstr [" + "; ".join(parts) + "])", STR
        if isinstance(e, ast.Subscript):
            return self.subscript(e, env, pre)
        if isinstance(e, ast.Attribute):
            if self.is_mirp_attr(e) and e.attr in ("supply_ports", "demand_ports"):
                t = self.tmp()
                pre.append((t, f"mirp_{e.attr}", "B"))
                return t, ("list", STR)
            reject(e, f"attribute .{e.attr}")
        if isinstance(e, ast.Call):
            return self.call(e, env, pre, want)
        reject(e, f"expression {type(e).__name__}")

    def binop(self, e, env, pre, want):
        if not isinstance(e.op, (ast.Add, ast.Sub, ast.Mult, ast.Div)):
            reject(e, "binary operator")
        nt = self.numtype(e, env)
        if nt == "?" or nt is None:
            # decide from the operands once translated
            nt = want if want in (Q, NAT) and nt is None else None
        a, ta = self.expr(e.left, env, pre, nt or want)
        ta = norm(ta)
        if isinstance(e.op, ast.Add) and isinstance(ta, tuple) and ta[0] == "list":
            b, tb = self.expr(e.right, env, pre, ta)
            t = unify(ta, tb, e)
            return f"({a} ++ {b})", t
        b, tb = self.expr(e.right, env, pre, ta if ta in (Q, NAT) else want)
        tb = norm(tb)
        if ta != tb or ta not in (Q, NAT):
            reject(e, f"arithmetic on {show(ta)} and {show(tb)}")
        if ta == NAT:
            op = {ast.Add: "Nat.add", ast.Mult: "Nat.mul"}.get(type(e.op))
            if op is None:
                reject(e, "only + and * on counters")
            return f"({op} {a} {b})", NAT
        if isinstance(e.op, ast.Div):
            t = self.tmp()
            pre.append((t, f"q_div {a} {b}", "R"))
            return t, Q
        op = {ast.Add: "Qplus", ast.Sub: "Qminus", ast.Mult: "Qmult"}[type(e.op)]
        return f"({op} {a} {b})", Q

    def compare(self, e, env, pre):
        if len(e.ops) != 1:
            reject(e, "chained comparison")
        op, l, r = e.ops[0], e.left, e.comparators[0]
        # self.<field> is None
        f = self.field_of(l)
        if f is not None and isinstance(r, ast.Constant) and r.value is None and isinstance(op, (ast.Is, ast.IsNot)):
            c, _ = self.param(("none", f), f"is_none_{f}", BOOL)
            return (c if isinstance(op, ast.Is) else f"(negb {c})"), BOOL
        # m.shape == (a, b)
        if isinstance(l, ast.Attribute) and l.attr == "shape" and isinstance(op, ast.Eq) and isinstance(r, ast.Tuple) \
                and len(r.elts) == 2:
            m, tm = self.expr(l.value, env, pre)
            unify(tm, MAT, l)
            a, ta = self.expr(r.elts[0], env, pre, NAT)
            b, tb = self.expr(r.elts[1], env, pre, NAT)
            if norm(ta) != NAT or norm(tb) != NAT:
                reject(e, "shape components must be counters")
            return f"(mat_shape_is {m} {a} {b})", BOOL
        if type(op) not in CMP_Q:
            reject(e, "comparison operator")
        nt = self.numtype(l, env)
        if nt not in (Q, NAT):
            nt2 = self.numtype(r, env)
            nt = nt2 if nt2 in (Q, NAT) else None
        a, ta = self.expr(l, env, pre, nt)
        ta = norm(ta)
        b, tb = self.expr(r, env, pre, ta if ta in (Q, NAT) else None)
        tb = norm(tb)
        if ta != tb or ta not in (Q, NAT):
            reject(e, f"comparison of {show(ta)} with {show(tb)}")
        return f"({(CMP_Q if ta == Q else CMP_N)[type(op)]} {a} {b})", BOOL

    def subscript(self, e, env, pre):
        if not isinstance(e.ctx, ast.Load):
            reject(e, "store context")
        idx = e.slice
        base, tb = self.expr(e.value, env, pre)
        if isinstance(idx, ast.Tuple):
            if len(idx.elts) != 2:
                reject(e, "index tuple")
            unify(tb, MAT, e)
            i, ti = self.expr(idx.elts[0], env, pre, NAT)
            j, tj = self.expr(idx.elts[1], env, pre, NAT)
            if norm(ti) != NAT or norm(tj) != NAT:
                reject(e, "matrix index that is not a counter")
            t = self.tmp()
            pre.append((t, f"mat_getr {base} {i} {j}", "R"))
            return t, Q
        if isinstance(idx, ast.Slice):
            reject(e, "slice")
        tb = norm(tb)
        if tb == SDICT:
            k, tk = self.expr(idx, env, pre)
            if norm(tk) != STR:
                reject(e, "dict key that is not a string")
            t = self.tmp()
            pre.append((t, f"sdict_getr {base} {k}", "R"))
            return t, Q
        if isinstance(tb, TArr):
            reject(e, "index into an array of unknown rank")
        if isinstance(tb, tuple) and tb[0] == "list":
            i, ti = self.expr(idx, env, pre, NAT)
            if norm(ti) != NAT:
                reject(e, "list index that is not a counter (negative / computed indices are not modelled)")
            t = self.tmp()
            pre.append((t, f"list_getr {base} {i}", "R"))
            return t, tb[1]
        reject(e, f"subscript of {show(tb)}")

    def kwargs(self, call, names):
        if any(k.arg is None for k in call.keywords):
            reject(call, "**kwargs")
        extra = [k.arg for k in call.keywords if k.arg not in names]
        if extra or any(isinstance(a, ast.Starred) for a in call.args):
            reject(call, f"unexpected arguments {extra}")
        return {k.arg: k.value for k in call.keywords}

    def call(self, e, env, pre, want):
        f = e.func
        if isinstance(f, ast.Name):
            if f.id in env:
                reject(e, f"call of the local {f.id}")
            if f.id == "len" and len(e.args) == 1 and not e.keywords:
                a, t = self.expr(e.args[0], env, pre)
                t = norm(t)
                if not (isinstance(t, TArr) or (isinstance(t, tuple) and t[0] == "list") or t == SDICT):
                    reject(e, "len of a non-sequence")
                return f"(length {a})", NAT
            if f.id == "dict" and len(e.args) == 1 and not e.keywords and self.is_call(e.args[0], "zip", 2):
                z = e.args[0]
                a, ta = self.expr(z.args[0], env, pre)
                b, tb = self.expr(z.args[1], env, pre)
                unify(ta, ("list", STR), z)
                unify(tb, LQ, z)
                return f"(sdict_of_pairs (py_zip2 {a} {b}))", SDICT
            if f.id == "sample" and "sample" in self.module_names and self.fields is not None:
                kw = self.kwargs(e, ["size"])
                args = list(e.args)
                if not args or len(args) + len(kw) > 2:
                    reject(e, "sample(...) arguments")
                fld = self.field_of(args[0])
                if fld is None:
                    reject(e, "sample of something that is not a field of the generator")
                size = args[1] if len(args) == 2 else kw.get("size")
                self.ndraws += 1
                ty = self.field_type(fld, e, "one" if size is not None else None)
                c, _ = self.param(("draw", self.ndraws), f"d{self.ndraws}_{fld}", ty)
                if size is None:
                    return c, ty
                n, tn = self.expr(size, env, pre, NAT)
                if norm(tn) != NAT:
                    reject(e, "size that is not a counter")
                return f"(sample_sized {c} {n})", ty
            reject(e, f"call of {f.id}")
        if isinstance(f, ast.Attribute):
            # np.zeros(n), np.asarray(self.field)
            if isinstance(f.value, ast.Name) and f.value.id == "np" and "np" in self.module_names and not e.keywords \
                    and len(e.args) == 1:
                if f.attr == "zeros":
                    n, tn = self.expr(e.args[0], env, pre, NAT)
                    if norm(tn) != NAT:
                        reject(e, "np.zeros of a non-counter")
                    return f"(np_zeros {n})", LQ
                if f.attr == "asarray":
                    fld = self.field_of(e.args[0])
                    if fld is None:
                        reject(e, "np.asarray of something that is not a field of the generator")
                    ty = self.field_type(fld, e, "raw")
                    c, ty = self.param(("field", fld), f"f_{fld}", ty)
                    return f"(np_asarray {c})", ty
            # self.<field>.rvs(size=(a, b))
            fld = self.field_of(f.value)
            if fld is not None and f.attr == "rvs":
                kw = self.kwargs(e, ["size"])
                size = e.args[0] if len(e.args) == 1 and not kw else kw.get("size") if not e.args else None
                if not isinstance(size, ast.Tuple) or len(size.elts) != 2:
                    reject(e, ".rvs is accepted with size=(a, b) only")
                self.ndraws += 1
                c, _ = self.param(("draw", self.ndraws), f"d{self.ndraws}_{fld}", self.field_type(fld, e, "pair"))
                a, ta = self.expr(size.elts[0], env, pre, NAT)
                b, tb = self.expr(size.elts[1], env, pre, NAT)
                if norm(ta) != NAT or norm(tb) != NAT:
                    reject(e, "size that is not a pair of counters")
                return f"(sample_sized2 {c} {a} {b})", MAT
            # l.index(x)
            if f.attr == "index" and len(e.args) == 1 and not e.keywords:
                l, tl = self.expr(f.value, env, pre)
                unify(tl, ("list", STR), e)
                x, tx = self.expr(e.args[0], env, pre)
                if norm(tx) != STR:
                    reject(e, ".index of a non-string")
                t = self.tmp()
                pre.append((t, f"list_indexr {l} {x}", "R"))
                return t, NAT
            # (a <cmp> c).all()
            if f.attr == "all" and not e.args and not e.keywords and isinstance(f.value, ast.Compare) \
                    and len(f.value.ops) == 1 and type(f.value.ops[0]) in CMP_Q:
                c = f.value
                a, ta = self.expr(c.left, env, pre)
                ta = norm(ta)
                b, tb = self.expr(c.comparators[0], env, pre, Q)
                if norm(tb) != Q:
                    reject(e, "array compared with a non-number")
                if ta not in (LQ, MAT):
                    reject(e, f"(x <cmp> c).all() on {show(ta)}")
                return f"({'arr_all' if ta == LQ else 'mat_all'} (fun x => {CMP_Q[type(c.ops[0])]} x {b}) {a})", BOOL
        # isinstance(self.<field>, Sampleable_Type)
        reject(e, "call")

    @staticmethod
    def is_call(e, name, nargs=None):
        return (isinstance(e, ast.Call) and isinstance(e.func, ast.Name) and e.func.id == name and not e.keywords
                and (nargs is None or len(e.args) == nargs))

    def condition(self, e, env, pre):
        """test of an if / assert"""
        if self.is_call(e, "isinstance", 2) and self.fields is not None:
            fld = self.field_of(e.args[0])
            if fld is not None and isinstance(e.args[1], ast.Name) and e.args[1].id == "Sampleable_Type" \
                    and "Sampleable_Type" in self.module_names:
                c, _ = self.param(("sampleable", fld), f"is_sampleable_{fld}", BOOL)
                return c
            reject(e, "isinstance test")
        c, t = self.expr(e, env, pre)
        if norm(t) != BOOL:
            reject(e, "condition that is not a bool (truthiness is not modelled)")
        return c

    # ---- statements ----
    @staticmethod
    def tuple_val(names):
        if not names:
            return "tt"
        return "(" + ", ".join("v_" + n for n in names) + ")" if len(names) > 1 else "v_" + names[0]

    @staticmethod
    def tuple_pat(names):
        if not names:
            return "_"
        return "'(" + ", ".join("v_" + n for n in names) + ")" if len(names) > 1 else "v_" + names[0]

    @staticmethod
    def tuple_type(names, env, node):
        if not names:
            return UNIT
        return ("tuple", tuple(env[n].ty for n in names)) if len(names) > 1 else env[names[0]].ty

    def block(self, stmts, env, mode, tail):
        stmts = strip_ignored(stmts)
        if not stmts:
            return tail(env)
        st, rest = stmts[0], stmts[1:]
        cont = lambda env2: self.block(rest, env2, mode, tail)
        if isinstance(st, ast.Return):
            if rest:
                reject(st, "return that is not the last statement")
            return self.return_stmt(st, env, mode)
        if isinstance(st, ast.Assign):
            return self.assign(st, env, mode, cont)
        if isinstance(st, ast.Expr) and isinstance(st.value, ast.Call):
            return self.call_stmt(st, env, mode, cont)
        if isinstance(st, ast.Assert):
            pre = []
            c = self.condition(st.test, env, pre)
            if st.msg is not None and not (isinstance(st.msg, ast.Constant) and isinstance(st.msg.value, str)):
                reject(st, "assert message that is not a string constant")
            comp = f"r_assert {c}"
            body = (f"bind (lift ({comp})) (fun _ =>\n" if mode == "B" else f"rbind ({comp}) (fun _ =>\n") + cont(env) + ")"
            return self.wrap(pre, body, mode)
        if isinstance(st, ast.If):
            return self.if_stmt(st, env, mode, cont)
        if isinstance(st, ast.For):
            return self.for_stmt(st, env, mode, cont)
        if isinstance(st, ast.FunctionDef):
            if st.name in env:
                reject(st, f"{st.name} is defined twice")
            if mode != "B":
                reject(st, "nested def inside pure code")
            env2 = OrderedDict(env)
            env2[st.name] = Var(None, "closure", st)
            return cont(env2)
        reject(st, f"statement {type(st).__name__}")

    def return_stmt(self, st, env, mode):
        if self.in_closure:
            pre = []
            if st.value is None:
                reject(st, "closure returns nothing")
            a, t = self.expr(st.value, env, pre, Q)
            if norm(t) != Q:
                reject(st, "the distance function must return a number")
            return self.wrap(pre, f"rret {a}", "R")
        if mode != "B" or self.depth != 0:
            reject(st, "return inside a loop / branch")
        if not (isinstance(st.value, ast.Name) and self.mirp is not None and st.value.id == self.mirp):
            reject(st, "the builder must return its MIRP object")
        self.returned = True
        return "ret tt"

    def assign(self, st, env, mode, cont):
        if len(st.targets) != 1:
            reject(st, "multiple assignment targets")
        tgt = st.targets[0]
        pre = []
        if isinstance(tgt, ast.Subscript):
            if not isinstance(tgt.value, ast.Name):
                reject(st, "nested subscript store")
            name = tgt.value.id
            if name not in env or env[name].kind != "val":
                reject(st, f"store into {name}")
            if getattr(env[name], "field_alias", False):
                reject(st, f"store into {name}, which may be the generator's own field (np.asarray does not copy)")
            base, tb = self.expr(tgt.value, env, pre)
            tb = norm(tb)
            if tb == SDICT:
                k, tk = self.expr(tgt.slice, env, pre)
                if norm(tk) != STR:
                    reject(st, "dict key that is not a string")
                v, tv = self.expr(st.value, env, pre, Q)
                if norm(tv) != Q:
                    reject(st, "dict value that is not a number")
                body = f"let v_{name} := sdict_set {k} {v} {base} in\n" + cont(env)
                return self.wrap(pre, body, mode)
            if isinstance(tgt.slice, ast.Tuple) and len(tgt.slice.elts) == 2:
                unify(tb, MAT, st)
                i, ti = self.expr(tgt.slice.elts[0], env, pre, NAT)
                j, tj = self.expr(tgt.slice.elts[1], env, pre, NAT)
                if norm(ti) != NAT or norm(tj) != NAT:
                    reject(st, "matrix index that is not a counter")
                v, tv = self.expr(st.value, env, pre, Q)
                if norm(tv) != Q:
                    reject(st, "matrix entry that is not a number")
                comp = f"mat_setr {base} {i} {j} {v}"
                body = (f"bind (lift ({comp})) (fun v_{name} =>\n" if mode == "B" else f"rbind ({comp}) (fun v_{name} =>\n") \
                    + cont(env) + ")"
                return self.wrap(pre, body, mode)
            reject(st, f"store into a {show(tb)}")
        if not isinstance(tgt, ast.Name):
            reject(st, "assignment target")
        name = tgt.id
        if name in env and env[name].kind != "val":
            reject(st, f"{name} ({env[name].kind}) is re-assigned")
        if name == self.self_name:
            reject(st, "self is re-assigned")
        val = st.value
        # the MIRP object
        if self.is_call_any(val, "MIRP"):
            if self.mirp is not None or mode != "B" or self.depth != 0 or "MIRP" not in self.module_names or name in env:
                reject(st, "exactly one MIRP object, created at the top level of the builder")
            term = self.method_call("__init__", val, env, pre)
            self.mirp = name
            env2 = OrderedDict(env)
            env2[name] = Var(None, "mirp")
            return self.wrap(pre, f"bind (emit {term}) (fun _ =>\n" + cont(env2) + ")", mode)
        if isinstance(val, ast.Name) and val.id in env and (env[val.id].kind != "val" or is_mutable(env[val.id].ty)):
            reject(st, f"second name for {val.id} (aliasing is not modelled)")
        old = env[name].ty if name in env else None
        a, t = self.expr(val, env, pre, old if norm(old) in (Q, NAT) else None)
        if old is not None:
            t = unify(old, t, st)
        env2 = OrderedDict(env)
        env2[name] = Var(t)
        if isinstance(val, ast.Call) and isinstance(val.func, ast.Attribute) and val.func.attr == "asarray":
            env2[name].field_alias = True
        self.use(name)
        return self.wrap(pre, f"let v_{name} := {a} in\n" + cont(env2), mode)

    @staticmethod
    def is_call_any(e, name):
        return isinstance(e, ast.Call) and isinstance(e.func, ast.Name) and e.func.id == name

    def method_call(self, meth, call, env, pre):
        """bind positional / keyword arguments to the parameters of MIRP.<meth> -> constructor application"""
        ctor, types = METHODS[meth]
        sig = self.sigs[meth]
        if len(sig) != len(types):
            reject(call, f"MIRP.{meth} has {len(sig)} parameters, the model of the call has {len(types)}")
        names = [n for n, _ in sig]
        kw = self.kwargs(call, names)
        if len(call.args) > len(names):
            reject(call, "too many positional arguments")
        given = dict(zip(names, call.args))
        for k, v in kw.items():
            if k in given:
                reject(call, f"argument {k} given twice")
            given[k] = v
        terms = {}
        # Python evaluates positional arguments, then keyword arguments, each group in the order written
        for k in list(names[:len(call.args)]) + list(kw):
            terms[k] = self.argument(given[k], types[names.index(k)], env, pre)
        out = []
        for (n, dflt), ty in zip(sig, types):
            if n in terms:
                out.append(terms[n])
            elif dflt is not None:
                out.append(self.argument(dflt, ty, {}, []))
            else:
                reject(call, f"argument {n} of MIRP.{meth} is missing")
        return "(" + ctor + " " + " ".join(out) + ")"

    def argument(self, e, ty, env, pre):
        if ty == FN2:
            if not (isinstance(e, ast.Name) and e.id in env and env[e.id].kind == "closure"):
                reject(e, "the distance function must be a function defined in the builder")
            self.use(e.id)
            return self.closure(env[e.id].node, env)
        a, t = self.expr(e, env, pre, ty if ty in (Q, NAT) else None)
        unify(ty, t, e)
        return a

    def closure(self, fn, env):
        """def f(a, b): x = e ...; return e  -- translated where it is passed, in the environment of that place"""
        a = fn.args
        if a.vararg or a.kwarg or a.kwonlyargs or a.posonlyargs or a.defaults or fn.decorator_list or len(a.args) != 2:
            reject(fn, "the distance function must take exactly two plain parameters")
        if self.in_closure:
            reject(fn, "nested closures")
        cenv = OrderedDict((n, v) for n, v in env.items() if v.kind == "val")
        for p in a.args:
            cenv[p.arg] = Var(STR)
        body = strip_ignored(fn.body)
        for st in body:
            for n in ast.walk(st):
                if isinstance(n, (ast.Global, ast.Nonlocal, ast.For, ast.If, ast.FunctionDef, ast.Lambda)) and n is not st:
                    reject(n, "statement inside the distance function")
            if not isinstance(st, (ast.Assign, ast.Return)):
                reject(st, "only assignments and a final return inside the distance function")
            if isinstance(st, ast.Assign) and not (len(st.targets) == 1 and isinstance(st.targets[0], ast.Name)):
                reject(st, "store inside the distance function")
        if not body or not isinstance(body[-1], ast.Return):
            reject(fn, "the distance function must end with return")
        self.in_closure = True
        try:
            text = self.block(body, cenv, "R", lambda e: reject(fn, "no return"))
        finally:
            self.in_closure = False
        return f"(fun v_{a.args[0].arg} v_{a.args[1].arg} =>\n{text})"

    def call_stmt(self, st, env, mode, cont):
        call = st.value
        f = call.func
        if self.is_mirp_attr(f) and f.attr in METHODS and f.attr != "__init__":
            if mode != "B":
                reject(st, "call on the MIRP object inside pure code")
            pre = []
            term = self.method_call(f.attr, call, env, pre)
            return self.wrap(pre, f"bind (emit {term}) (fun _ =>\n" + cont(env) + ")", mode)
        # np.random.seed(self.<field>)
        if (isinstance(f, ast.Attribute) and f.attr == "seed" and isinstance(f.value, ast.Attribute)
                and f.value.attr == "random" and isinstance(f.value.value, ast.Name) and f.value.value.id == "np"
                and "np" in self.module_names and len(call.args) == 1 and not call.keywords
                and self.fields is not None and self.field_of(call.args[0]) is not None):
            if mode != "B":
                reject(st, "np.random.seed inside pure code")
            return "bind np_random_seed (fun _ =>\n" + cont(env) + ")"
        reject(st, "call statement")

    def if_stmt(self, st, env, mode, cont):
        pre = []
        c = self.condition(st.test, env, pre)
        body, orelse = strip_ignored(st.body), strip_ignored(st.orelse)
        a1, a2 = assigned_names(body), assigned_names(orelse)
        out = [n for n in list(env) + [m for m in a1 if m not in env]
               if (n in a1 or n in a2) and (n in env or (n in a1 and n in a2))]
        for n in out:
            if n in env and env[n].kind != "val":
                reject(st, f"{n} ({env[n].kind}) is re-assigned in a branch")
        bmode = "B" if self.effectful(body + orelse) else "R"
        if bmode == "B" and mode != "B":
            reject(st, "call on the MIRP object inside pure code")
        self.depth += 1
        envs = []

        def tail(e):
            for n in out:
                if n not in e or e[n].kind != "val":
                    reject(st, f"{n} is not a plain value at the end of a branch")
            envs.append(e)
            return self.ret(bmode, self.tuple_val(out))
        t1 = self.block(body, OrderedDict(env), bmode, tail)
        t2 = self.block(orelse, OrderedDict(env), bmode, tail)
        self.depth -= 1
        env2 = OrderedDict((n, v) for n, v in env.items())
        for n in out:
            ty = unify(envs[0][n].ty, envs[1][n].ty, st)
            env2[n] = Var(ty)
            if getattr(envs[0][n], "field_alias", False) or getattr(envs[1][n], "field_alias", False):
                env2[n].field_alias = True
        for n in a1 + a2:
            if n not in out and n in env2:
                del env2[n]
        comp = f"(if {c}\n then ({t1})\n else ({t2}))"
        if bmode == "R" and mode == "B":
            comp = f"(lift {comp})"
        binder = "bind" if mode == "B" else "rbind"
        return self.wrap(pre, f"{binder} {comp} (fun {self.tuple_pat(out)} =>\n" + cont(env2) + ")", mode)

    def iterable(self, e, env, pre):
        """-> (term, element type)"""
        if self.is_call_any(e, "zip") and not e.keywords and 2 <= len(e.args) <= 4:
            parts = [self.expr(x, env, pre) for x in e.args]
            tys = []
            for (a, t), x in zip(parts, e.args):
                t = norm(t)
                if not (isinstance(t, tuple) and t[0] == "list"):
                    reject(x, f"zip over {show(t)}")
                tys.append(t[1])
            return f"(py_zip{len(parts)} " + " ".join(a for a, _ in parts) + ")", ("tuple", tuple(tys))
        if self.is_call_any(e, "enumerate") and not e.keywords and len(e.args) == 1:
            a, t = self.iterable(e.args[0], env, pre)
            return f"(py_enumerate {a})", ("tuple", (NAT, t))
        if self.is_call_any(e, "range") and not e.keywords and 1 <= len(e.args) <= 2:
            bounds = [self.expr(x, env, pre, NAT) for x in e.args]
            if any(norm(t) != NAT for _, t in bounds):
                reject(e, "range over non-counters")
            lo = "0%nat" if len(bounds) == 1 else bounds[0][0]
            return f"(py_range {lo} {bounds[-1][0]})", NAT
        if isinstance(e, ast.Name):
            a, t = self.expr(e, env, pre)
            t = norm(t)
            if isinstance(t, tuple) and t[0] == "list":
                return a, t[1]
        reject(e, "iterable")

    def pattern(self, tgt, ty, binds):
        ty = norm(ty)
        if isinstance(tgt, ast.Name):
            binds.append((tgt.id, ty))
            return "v_" + tgt.id
        if isinstance(tgt, (ast.Tuple, ast.List)) and isinstance(ty, tuple) and ty[0] == "tuple" \
                and len(ty[1]) == len(tgt.elts):
            return "(" + ", ".join(self.pattern(x, t, binds) for x, t in zip(tgt.elts, ty[1])) + ")"
        reject(tgt, "loop target does not match the shape of the elements")

    def for_stmt(self, st, env, mode, cont):
        if st.orelse:
            reject(st, "for ... else")
        pre = []
        it, ety = self.iterable(st.iter, env, pre)
        binds = []
        pat = self.pattern(st.target, ety, binds)
        names = [n for n, _ in binds]
        if len(set(names)) != len(names) or any(n in env for n in names):
            reject(st, "a loop variable must be a new name")
        body = strip_ignored(st.body)
        for n in ast.walk(ast.Module(body=body, type_ignores=[])):
            if isinstance(n, (ast.Break, ast.Continue, ast.Return, ast.FunctionDef)):
                reject(n, f"{type(n).__name__} inside a loop")
        assigned = assigned_names(body)
        if any(n in assigned for n in names):
            reject(st, "the loop body re-assigns a loop variable")
        iter_names = {n.id for n in ast.walk(st.iter) if isinstance(n, ast.Name)}
        if iter_names & set(assigned):
            reject(st, "the loop body re-assigns what the loop iterates over")
        carried = [n for n in env if n in assigned]
        for n in carried:
            if env[n].kind != "val":
                reject(st, f"{n} ({env[n].kind}) is re-assigned in a loop")
        lmode = "B" if self.effectful(body) else "R"
        if lmode == "B" and mode != "B":
            reject(st, "call on the MIRP object inside pure code")
        benv = OrderedDict(env)
        for n, t in binds:
            benv[n] = Var(t)
        self.nloops += 1
        lname = f"{self.gen}_loop{self.nloops}"
        used = set()
        self.uses.append(used)
        self.depth += 1
        ends = []

        def tail(e):
            for n in carried:
                unify(env[n].ty, e[n].ty, st)
            ends.append(e)
            return self.ret(lmode, self.tuple_val(carried))
        btext = self.block(body, benv, lmode, tail)
        self.depth -= 1
        self.uses.pop()
        free = [n for n in env if n in used and n not in carried and env[n].kind == "val"]
        for n in free:
            self.use(n)
        cty = self.tuple_type(carried, env, st)
        monad = "B" if lmode == "B" else "result"

        def render():
            ps = "".join(f" (v_{n} : {coq_type(env[n].ty, st)})" for n in free)
            cpat = "tt" if not carried else self.tuple_val(carried)
            return (f"Definition {lname}{ps} (elem : {coq_type(ety, st)}) (carried : {coq_type(cty, st)})"
                    f" : {monad} {coq_type(cty, st)} :=\n"
                    f"let '{pat} := elem in\nlet '{cpat} := carried in\n{btext}.\n")
        self.loop_defs.append(render)
        fe = "for_each" if lmode == "B" else "rfor_each"
        comp = f"({fe} {it} ({lname}" + "".join(f" v_{n}" for n in free) + f") {self.tuple_val(carried)})"
        if lmode == "R" and mode == "B":
            comp = f"(lift {comp})"
        binder = "bind" if mode == "B" else "rbind"
        return self.wrap(pre, f"{binder} {comp} (fun {self.tuple_pat(carried)} =>\n" + cont(env) + ")", mode)

    def translate(self):
        self.in_closure = False
        self.depth = 0
        self.returned = False
        body = strip_ignored(self.fn.body)
        for n in ast.walk(self.fn):
            if isinstance(n, (ast.While, ast.Try, ast.With, ast.Global, ast.Nonlocal, ast.Lambda, ast.ListComp, ast.DictComp,
                              ast.SetComp, ast.GeneratorExp, ast.Starred, ast.AugAssign, ast.NamedExpr,
                              ast.Delete, ast.Raise, ast.Yield, ast.YieldFrom, ast.Await, ast.IfExp, ast.ClassDef,
                              ast.Import, ast.ImportFrom)):
                reject(n, f"{type(n).__name__} is outside the accepted fragment")
        uses_logger = any(isinstance(n, ast.Name) and n.id == "logger" for n in ast.walk(self.fn))
        if uses_logger and ("logger:logging" not in self.module_names or "logger" in assigned_names(self.fn.body)
                            or any(a.arg == "logger" for a in self.fn.args.args)):
            reject(self.fn, "`logger` is not the module-level logging.getLogger(..) object")
        text = self.block(body, self.env, "B", lambda e: reject(self.fn, "the builder does not end with return"))
        if not self.returned or self.mirp is None:
            reject(self.fn, "the builder must create a MIRP object and return it")
        ps = "".join(f" ({c} : {coq_type(t, self.fn)})" for c, t in self.params)
        out = [r() for r in self.loop_defs]
        out.append(f"Definition {self.gen}{ps} : B unit :=\n{text}.\n")
        return "\n".join(out)


# ------------------------------------------------------------------------------------------
# modules
# ------------------------------------------------------------------------------------------
HEADER = """(* GENERATED by harness/translate_examples.py from examples/mirp_g1.py and examples/mirp_random.py -- do not edit.
   The builders as computations that log the calls they make on their MIRP object (PyExamples.v). *)
From Coq Require Import QArith String List.
From VQ Require Import Base Mirp PyExamples.
Import ListNotations.
Local Open Scope Q_scope.

"""


def repo_file(rel):
    from vq import core
    return os.path.join(core.REPO, "src/vrpqubo", rel)


def mirp_signatures():
    """parameter names and defaults of the MIRP methods a builder calls, read from applications/mirp.py"""
    path = repo_file("applications/mirp.py")
    tree = ast.parse(open(path).read(), path)
    cls = [n for n in tree.body if isinstance(n, ast.ClassDef) and n.name == "MIRP"]
    if len(cls) != 1:
        raise Rejected("applications/mirp.py: class MIRP not found exactly once")
    sigs = {}
    for n in cls[0].body:
        if isinstance(n, ast.FunctionDef) and n.name in METHODS:
            if n.name in sigs:
                raise Rejected(f"MIRP.{n.name} is defined twice")
            a = n.args
            if a.vararg or a.kwarg or a.kwonlyargs or a.posonlyargs or not a.args or a.args[0].arg != "self":
                reject(n, f"signature of MIRP.{n.name}")
            names = [x.arg for x in a.args[1:]]
            dflts = [None] * (len(names) - len(a.defaults)) + list(a.defaults)
            if len(dflts) != len(names):
                reject(n, "a default for self")
            for d in dflts:
                if d is not None and not (isinstance(d, ast.Constant) and isinstance(d.value, (int, float))
                                          and not isinstance(d.value, bool)):
                    reject(n, "a default that is not a number")
            sigs[n.name] = list(zip(names, dflts))
    missing = [m for m in METHODS if m not in sigs]
    if missing:
        raise Rejected(f"applications/mirp.py: MIRP has no method {missing}")
    return sigs


def module_bindings(tree, origin):
    """names bound at module level; MIRP must be the class of ..applications, np must be numpy"""
    names = set()
    for n in tree.body:
        if isinstance(n, ast.ImportFrom):
            for a in n.names:
                bound = a.asname or a.name
                if bound == "MIRP" and not (a.name == "MIRP" and n.level == 2 and n.module == "applications"):
                    raise Rejected(f"{origin}: MIRP is not the class of ..applications")
                names.add(bound)
        elif isinstance(n, ast.Import):
            for a in n.names:
                bound = a.asname or a.name.split(".")[0]
                if bound == "np" and a.name != "numpy":
                    raise Rejected(f"{origin}: np is not numpy")
                names.add(bound)
        elif isinstance(n, (ast.FunctionDef, ast.ClassDef)):
            if n.name in names:
                raise Rejected(f"{origin}: {n.name} is bound twice")
            names.add(n.name)
        elif is_docstring(n):
            pass
        elif isinstance(n, ast.Assign) and all(isinstance(t, ast.Name) for t in n.targets):
            if [t.id for t in n.targets] == ["logger"] and ast.unparse(n.value).startswith("logging.getLogger("):
                names.add("logger:logging")                  # only then are logger.<level>(..) lines ignored
            for t in n.targets:
                if t.id in ("MIRP", "np", "sample", "Sampleable_Type"):
                    raise Rejected(f"{origin}: {t.id} is re-bound at module level")
                names.add(t.id)
        else:
            raise Rejected(f"{origin} {where(n)}: module-level statement {type(n).__name__}")
    return names


def translate_g1(sigs):
    path = repo_file("examples/mirp_g1.py")
    tree = ast.parse(open(path).read(), path)
    names = module_bindings(tree, "examples/mirp_g1.py")
    fns = [n for n in tree.body if isinstance(n, ast.FunctionDef) and n.name == "get_mirp"]
    if len(fns) != 1 or "MIRP" not in names:
        raise Rejected("examples/mirp_g1.py: get_mirp / MIRP not found")
    return Fn(fns[0], "gen_get_mirp", [Q], sigs, None, names).translate()


def translate_random(sigs):
    path = repo_file("examples/mirp_random.py")
    tree = ast.parse(open(path).read(), path)
    names = module_bindings(tree, "examples/mirp_random.py")
    cls = [n for n in tree.body if isinstance(n, ast.ClassDef) and n.name == "RandomMIRP"]
    if len(cls) != 1 or "MIRP" not in names:
        raise Rejected("examples/mirp_random.py: class RandomMIRP / MIRP not found")
    fields = OrderedDict()
    fns = []
    for n in cls[0].body:
        if isinstance(n, ast.AnnAssign) and isinstance(n.target, ast.Name):
            fields[n.target.id] = ast.unparse(n.annotation)
        elif isinstance(n, ast.FunctionDef):
            if n.name == "get_random_mirp":
                fns.append(n)
            if n.name in fields:
                raise Rejected(f"RandomMIRP.{n.name} is both a field and a method")
        elif not is_docstring(n):
            raise Rejected(f"examples/mirp_random.py {where(n)}: class-level statement {type(n).__name__}")
    if len(fns) != 1:
        raise Rejected("RandomMIRP.get_random_mirp not found exactly once")
    return Fn(fns[0], "gen_get_random_mirp", [BOOL], sigs, fields, names).translate()


def translate():
    sigs = mirp_signatures()
    text = HEADER + translate_g1(sigs) + "\n" + translate_random(sigs)
    return OrderedDict([("ExamplesGen.v", text)])


if __name__ == "__main__":
    import sys
    sys.stdout.write(translate()["ExamplesGen.v"])


# ------------------------------------------------------------------------------------------
# run-time cross-check: the generated G1 log == the calls the real get_mirp(h) makes
# ------------------------------------------------------------------------------------------
CROSS_HEADER = ("From Coq Require Import QArith String List.\nFrom VQ Require Import Base Mirp PyExamples.\n"
                "From VQG Require Import ExamplesGen.\nImport ListNotations.\nLocal Open Scope Q_scope.")


def _q(x):
    import numbers
    if isinstance(x, bool) or not isinstance(x, numbers.Real):
        raise ValueError(f"not a number: {x!r}")
    fr = Fraction(repr(float(x))) if isinstance(x, float) else Fraction(int(x))
    return f"(Qmake {'(' + str(fr.numerator) + ')' if fr.numerator < 0 else fr.numerator}%Z {fr.denominator}%positive)"


def _s(x):
    if not isinstance(x, str) or not all(c.isalnum() or c in " _-." for c in x):
        raise ValueError(f"unexpected port name {x!r}")
    return f"\"{x}\"%string"


def _fees(d):
    return "[" + "; ".join(f"({_s(k)}, {_q(v)})" for k, v in d.items()) + "]"


def calls_literal(h, mirp, log):
    """(horizon, observation of the calls recorded on the real object) as a Gallina literal of type Q * list opobs"""
    import inspect
    from vq import core
    from vrpqubo.applications.mirp import MIRP
    names = [inspect.signature(getattr(MIRP, c[0])).bind(mirp, *c[1], **c[2]).arguments["name"]
             for c in log if c[0] == "add_nodes"]
    obs = [f"OInit {_q(mirp.cargo_size)} {_q(mirp.time_horizon)}"]
    for meth, a, k in log:
        ba = inspect.signature(getattr(MIRP, meth)).bind(mirp, *a, **k)
        ba.apply_defaults()
        v = list(ba.arguments.values())[1:]
        if meth == "add_nodes":
            obs.append(f"ONodes {_s(v[0])} {_q(v[1])} {_q(v[2])} {_q(v[3])}")
        elif meth == "add_travel_arcs":
            rows = []
            for p1 in names:
                for p2 in names:
                    try:
                        r = f"Ok {_q(v[0](p1, p2))}"
                    except Exception as e:  # noqa: the class is what is compared
                        r = f"Err {core.exc_cls(e)}"
                    rows.append(f"({_s(p1)}, {_s(p2)}, {r})")
            obs.append(f"OTravel [{'; '.join(rows)}] {_q(v[1])} {_q(v[2])} {_fees(v[3])} {_fees(v[4])}")
        elif meth == "add_exit_arcs":
            obs.append(f"OExit {_q(v[0])} {_q(v[1])}")
        elif meth == "add_entry_arcs":
            obs.append(f"OEntry {_q(v[0])} {_q(v[1])} {_q(v[2])}")
        else:
            raise ValueError(meth)
    return f"({_q(h)}, [" + "; ".join(obs) + "])"


def crosscheck(ctx, gen_result, recorded_calls, horizons=(10.0, 22.5, 40.0)):
    """Evaluate the generated gen_get_mirp at three horizons inside Coq and compare the logged calls (constructor
    arguments, every add_nodes, the distance function tabulated on all pairs of port names, speed, unit cost, both fee
    dictionaries in insertion order, exit and entry arguments) with the calls recorded on the real get_mirp(h).
    Float constants are compared as the decimal numbers written (repr).  A mismatch is a deferred violation."""
    if not gen_result or gen_result.get("status") != "ok":
        return None                      # no generated model to compare with: already deferred by gen_step
    from vrpqubo.examples.mirp_g1 import get_mirp
    terms, shown = [], []
    try:
        for h in horizons:
            log = []
            with recorded_calls(log):
                m = get_mirp(h)
            terms.append(calls_literal(h, m, log))
            shown.append({"time_horizon": h, "calls": [c[0] for c in log]})
    except Exception as e:  # noqa
        ctx.defer_violation("crosscheck/examples/g1-calls",
                            f"the calls of the real get_mirp cannot be observed: {type(e).__name__}: {e}", {"horizons": list(horizons)})
        return False
    mism, err = ctx.coq_mismatches("g1calls", CROSS_HEADER, "(Q * list opobs)%type", "check_builder_case gen_get_mirp", terms, shard=8)
    ctx.cov.setdefault("examples_crosscheck", {"g1_horizons": list(horizons), "mismatches": len(mism), "error": bool(err)})
    if err or mism:
        what = (f"coqc failed on the comparison: {err[:300]}" if err else
                f"at horizon {horizons[mism[0][0]]} the calls differ (tags {mism[0][1]}: 1 number of calls, 2 the generated "
                "builder raises, 10+i the i-th call counting the constructor as 0)")
        ctx.defer_violation("crosscheck/examples/g1-calls",
                            "the operation list generated from examples/mirp_g1.py is not the list of calls the real get_mirp makes: " + what,
                            {"correspondence": "PyExamples.check_builder_case gen_get_mirp", "cases": shown,
                             "mismatches": [[i, t] for i, t in mism]})
        return False
    return True
