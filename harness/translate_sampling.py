"""Translator tools/sampling.py -> coq/gen/SamplerGen.v  (property C19).

Walks the Python `ast` of the module and accepts exactly the statement shapes that the
dunder methods of SimpleSampler, RatioSampler.__init__ and the rvs methods of the
combinators are written in.  Anything else raises `Abort` (fail-closed): the caller then
reports the translator as broken and relies on the hand model + correspondence.

Operator methods are executed symbolically once per kind of the right operand
(`isinstance(other, Real)` true / false), which yields one Gallina `match` per method:

    gen_<op> K k1 kadd kmul kdiv kopp : sampler K -> operand K -> sampler K

The rvs methods become computations in the draw-log monad of Sampler.v, parameterised by the
already-formed calls `self.<field>.rvs(size)`:

    gen_rvs_Sum ... (summands_rvs : list (M (list K))) : M (list K)   etc.

Trusted: this file (the shapes it accepts and the Gallina it prints for them).
"""
import ast
import hashlib

BINDERS = "(K : Type) (k1 : K) (kadd kmul kdiv : K -> K -> K) (kopp : K -> K)"
ARGS = "K k1 kadd kmul kdiv kopp"
COQ_RESERVED = {"at", "in", "fun", "let", "match", "end", "with", "as", "if", "then", "else", "fix", "forall",
                "exists", "return", "Type", "Set", "Prop", "where", "for", "using", "cofix", "struct", "IF"}

OPERATOR_METHODS = ["__neg__", "__add__", "__radd__", "__sub__", "__rsub__", "__mul__", "__rmul__",
                    "__truediv__", "__rtruediv__"]
# class -> fields in constructor order with their kind
SCHEMA = {
    "WrapperSampler": [("underlying", "leaf")],
    "ConstantSampler": [("constant", "scal")],
    "NegatedSampler": [("positive", "sampler")],
    "SumSampler": [("summands", "tuple")],
    "ProductSampler": [("multiplicands", "tuple")],
    "RatioSampler": [("numerator", "sampler"), ("denominator", "sampler")],
}
ALLOWED_EXTRA_METHODS = {"WrapperSampler": {"mean"}}
TUPLE_CTOR = {"SumSampler": "Sum", "ProductSampler": "Prod"}


class Abort(Exception):
    pass


def where(node):
    return f"line {getattr(node, 'lineno', '?')}"


def ident(name):
    return name + "_" if name in COQ_RESERVED else name


def is_docstring(st):
    return isinstance(st, ast.Expr) and isinstance(st.value, ast.Constant) and isinstance(st.value.value, str)


def is_name(node, name=None):
    return isinstance(node, ast.Name) and (name is None or node.id == name)


def is_isinstance_real(test):
    """isinstance(<Name>, Real) -> the name, else None"""
    if (isinstance(test, ast.Call) and is_name(test.func, "isinstance") and len(test.args) == 2
            and not test.keywords and is_name(test.args[0]) and is_name(test.args[1], "Real")):
        return test.args[0].id
    return None


def plain_params(fn, expected=None):
    a = fn.args
    if a.vararg or a.kwarg or a.kwonlyargs or a.posonlyargs:
        raise Abort(f"{fn.name} {where(fn)}: unsupported parameter list")
    names = [x.arg for x in a.args]
    if expected is not None and names != expected:
        raise Abort(f"{fn.name} {where(fn)}: parameters {names}, expected {expected}")
    return names


# --------------------------------------------------------------------------------------
# operator methods and RatioSampler.__init__ : symbolic execution
# values: ("S", term) a sampler, ("C", term) a real constant, ("T", [values]) a tuple
# --------------------------------------------------------------------------------------
class Sym:
    def __init__(self, have_neg, have_ratio_init):
        self.have_neg = have_neg
        self.have_ratio_init = have_ratio_init

    def expr(self, node, env):
        if isinstance(node, ast.Name):
            if node.id not in env:
                raise Abort(f"{where(node)}: unknown name {node.id}")
            return env[node.id]
        if isinstance(node, ast.UnaryOp) and isinstance(node.op, ast.USub) and is_name(node.operand):
            kind, t = self.expr(node.operand, env)
            if kind == "C":
                return ("C", f"(kopp {t})")
            if kind == "S":
                if not self.have_neg:
                    raise Abort(f"{where(node)}: unary minus on a sampler but __neg__ was not translated")
                return ("S", f"(gen_neg {ARGS} {t})")
            raise Abort(f"{where(node)}: unary minus on a tuple")
        if isinstance(node, ast.Tuple):
            return ("T", [self.expr(e, env) for e in node.elts])
        if isinstance(node, ast.Call) and is_name(node.func) and not node.keywords:
            f = node.func.id
            args = [self.expr(a, env) for a in node.args]
            if f == "ConstantSampler" and len(args) == 1:
                if args[0][0] != "C":
                    raise Abort(f"{where(node)}: ConstantSampler applied to something that is not a real constant")
                return ("S", f"(Const {args[0][1]})")
            if f == "NegatedSampler" and len(args) == 1:
                if args[0][0] != "S":
                    raise Abort(f"{where(node)}: NegatedSampler holds something that is not a sampler (its rvs would fail)")
                return ("S", f"(Neg {args[0][1]})")
            if f in TUPLE_CTOR and len(args) == 1 and args[0][0] == "T":
                elts = args[0][1]
                for k, e in enumerate(elts):
                    if e[0] != "S":
                        raise Abort(f"{where(node)}: entry {k} of the tuple given to {f} is a raw number, not a sampler "
                                    "(its rvs would raise AttributeError)")
                return ("S", f"({TUPLE_CTOR[f]} [" + "; ".join(e[1] for e in elts) + "])")
            if f == "RatioSampler" and len(args) == 2:
                if not self.have_ratio_init:
                    raise Abort(f"{where(node)}: RatioSampler used but its __init__ was not translated")
                ops = []
                for a in args:
                    if a[0] == "S":
                        ops.append(f"(OS {a[1]})")
                    elif a[0] == "C":
                        ops.append(f"(OC {a[1]})")
                    else:
                        raise Abort(f"{where(node)}: tuple passed to RatioSampler")
                return ("S", f"(gen_ratio_init {ARGS} {ops[0]} {ops[1]})")
        raise Abort(f"{where(node)}: unsupported expression {ast.dump(node)[:120]}")

    def block(self, stmts, env, fields, in_if):
        """Execute statements; return a value when a `return` is reached, else None."""
        for st in stmts:
            if is_docstring(st):
                continue
            if isinstance(st, ast.If):
                nm = is_isinstance_real(st.test)
                if nm is None or st.orelse or in_if:
                    raise Abort(f"{where(st)}: only `if isinstance(<name>, Real):` without else is accepted")
                if nm not in env:
                    raise Abort(f"{where(st)}: unknown name {nm}")
                kind = env[nm][0]
                if kind not in ("S", "C"):
                    raise Abort(f"{where(st)}: isinstance test on a tuple")
                if kind == "C":
                    r = self.block(st.body, env, fields, True)
                    if r is not None:
                        return r
                continue
            if isinstance(st, ast.Assign) and len(st.targets) == 1:
                tgt = st.targets[0]
                if is_name(tgt):
                    # <name> = ConstantSampler(<expr>)
                    v = st.value
                    if not (isinstance(v, ast.Call) and is_name(v.func, "ConstantSampler")):
                        raise Abort(f"{where(st)}: only `<name> = ConstantSampler(<expr>)` is accepted as an assignment")
                    env[tgt.id] = self.expr(v, env)
                    continue
                if (fields is not None and isinstance(tgt, ast.Attribute) and is_name(tgt.value, "self")
                        and is_name(st.value)):
                    fields[tgt.attr] = self.expr(st.value, env)
                    continue
            if isinstance(st, ast.Return) and st.value is not None and fields is None:
                v = self.expr(st.value, env)
                if v[0] != "S":
                    raise Abort(f"{where(st)}: the method does not return a sampler")
                return v
            raise Abort(f"{where(st)}: unsupported statement {ast.dump(st)[:120]}")
        return None


def cases_of(params):
    """All assignments of kinds to the operand parameters."""
    out = [[]]
    for p in params:
        out = [c + [(p, k)] for c in out for k in ("C", "S")]
    return out


def render_match(params, leaf_terms):
    """Nested match over the operand parameters; leaf_terms maps a tuple of kinds to a term."""
    def go(i, kinds, indent):
        if i == len(params):
            return leaf_terms[tuple(kinds)]
        p = ident(params[i])
        pad = " " * indent
        return (f"match {p} with\n"
                f"{pad}| OC {p}_c => {go(i + 1, kinds + ['C'], indent + 4)}\n"
                f"{pad}| OS {p}_s => {go(i + 1, kinds + ['S'], indent + 4)}\n"
                f"{pad}end")
    return go(0, [], 4)


def translate_operator(fn, sym):
    params = plain_params(fn)
    if params[0] != "self":
        raise Abort(f"{fn.name}: first parameter is not self")
    ops = params[1:]
    if fn.name == "__neg__" and ops:
        raise Abort("__neg__ takes an operand")
    if fn.name != "__neg__" and ops != ["other"]:
        raise Abort(f"{fn.name}: parameters {params}")
    leaf = {}
    for case in cases_of(ops):
        env = {"self": ("S", "self")}
        for p, k in case:
            env[p] = (k, f"{ident(p)}_{'c' if k == 'C' else 's'}")
        r = sym.block(fn.body, env, None, False)
        if r is None:
            raise Abort(f"{fn.name}: falls off the end without return when "
                        + ", ".join(f"{p} is a {'Real' if k == 'C' else 'sampler'}" for p, k in case))
        leaf[tuple(k for _, k in case)] = r[1]
    name = "gen_" + fn.name.strip("_")
    sig = " ".join(f"({ident(p)} : operand K)" for p in ops)
    body = render_match(ops, leaf)
    return name, (f"(* {fn.name}, line {fn.lineno} *)\n"
                  f"Definition {name} {BINDERS} (self : sampler K) {sig} : sampler K :=\n    {body}.\n")


def translate_ratio_init(fn, sym):
    params = plain_params(fn, ["self", "numerator", "denominator"])
    ops = params[1:]
    leaf = {}
    for case in cases_of(ops):
        env = {"self": ("S", "self")}
        for p, k in case:
            env[p] = (k, f"{ident(p)}_{'c' if k == 'C' else 's'}")
        fields = {}
        r = sym.block(fn.body, env, fields, False)
        if r is not None or sorted(fields) != ["denominator", "numerator"]:
            raise Abort(f"RatioSampler.__init__: fields set {sorted(fields)}")
        for f in ("numerator", "denominator"):
            if fields[f][0] != "S":
                desc = ", ".join(f"{p} is a {'Real' if k == 'C' else 'sampler'}" for p, k in case)
                raise Abort(f"RatioSampler.__init__ stores a raw number in self.{f} when {desc}: "
                            "RatioSampler.rvs would raise AttributeError on it")
        leaf[tuple(k for _, k in case)] = f"Ratio {fields['numerator'][1]} {fields['denominator'][1]}"
    body = render_match(ops, leaf)
    return (f"(* RatioSampler.__init__, line {fn.lineno} *)\n"
            f"Definition gen_ratio_init {BINDERS} (numerator denominator : operand K) : sampler K :=\n    {body}.\n")


def check_plain_init(cls, fn):
    """__init__(self, f) with the single statement self.f = f."""
    fields = [f for f, _ in SCHEMA[cls.name]]
    plain_params(fn, ["self"] + fields)
    body = [s for s in fn.body if not is_docstring(s)]
    if len(body) != len(fields):
        raise Abort(f"{cls.name}.__init__ {where(fn)}: unexpected body")
    for st, f in zip(body, fields):
        ok = (isinstance(st, ast.Assign) and len(st.targets) == 1 and isinstance(st.targets[0], ast.Attribute)
              and is_name(st.targets[0].value, "self") and st.targets[0].attr == f and is_name(st.value, f))
        if not ok:
            raise Abort(f"{cls.name}.__init__ {where(st)}: expected `self.{f} = {f}`")


# --------------------------------------------------------------------------------------
# rvs methods
# --------------------------------------------------------------------------------------
class Rvs:
    def __init__(self, cls):
        self.cls = cls
        self.kinds = dict(SCHEMA[cls])
        self.steps = []          # ("bind", var, computation) | ("let", var, term)
        self.n = 0
        self.used = set()

    def fresh(self):
        self.n += 1
        return f"t{self.n}"

    def is_size(self, node):
        return is_name(node, "size")

    def self_field(self, node):
        if isinstance(node, ast.Attribute) and is_name(node.value, "self") and node.attr in self.kinds:
            return node.attr
        return None

    def expr(self, node, env):
        """-> (type, pure term); effects are appended to self.steps in evaluation order"""
        if isinstance(node, ast.Name):
            if node.id in env:
                return env[node.id]
            raise Abort(f"{self.cls}.rvs {where(node)}: unknown name {node.id}")
        f = self.self_field(node)
        if f is not None and self.kinds[f] == "scal":
            self.used.add(f)
            return ("scal", ident(f))
        if isinstance(node, ast.Call) and not node.keywords and isinstance(node.func, ast.Attribute) \
                and node.func.attr == "rvs" and len(node.args) == 1 and self.is_size(node.args[0]):
            f = self.self_field(node.func.value)
            if f is not None and self.kinds[f] in ("sampler", "leaf"):
                self.used.add(f)
                t = self.fresh()
                self.steps.append(("bind", t, f"{f}_rvs"))
                return ("arr", t)
        if isinstance(node, ast.ListComp) and len(node.generators) == 1:
            g = node.generators[0]
            f = self.self_field(g.iter)
            e = node.elt
            ok = (f is not None and self.kinds[f] == "tuple" and not g.ifs and not g.is_async and is_name(g.target)
                  and isinstance(e, ast.Call) and not e.keywords and isinstance(e.func, ast.Attribute)
                  and e.func.attr == "rvs" and is_name(e.func.value, g.target.id)
                  and len(e.args) == 1 and self.is_size(e.args[0]))
            if ok:
                self.used.add(f)
                t = self.fresh()
                self.steps.append(("bind", t, f"(mseq {f}_rvs)"))
                return ("arrs", t)
        if isinstance(node, ast.UnaryOp) and isinstance(node.op, ast.USub):
            ty, t = self.expr(node.operand, env)
            if ty == "arr":
                return ("arr", f"(vneg kopp {t})")
        if isinstance(node, ast.BinOp):
            lt, l = self.expr(node.left, env)
            rt, r = self.expr(node.right, env)
            if isinstance(node.op, ast.Div) and lt == "arr" and rt == "arr":
                return ("arr", f"(vdiv kdiv {l} {r})")
            if isinstance(node.op, ast.Mult) and lt == "scal" and rt == "arr":
                return ("arr", f"(vscale kmul {l} {r})")
        if isinstance(node, ast.Call) and isinstance(node.func, ast.Attribute) and is_name(node.func.value, "np"):
            fn = node.func.attr
            if fn == "ones" and len(node.args) == 1 and not node.keywords and self.is_size(node.args[0]):
                return ("arr", "(np_ones k1 size)")
            if fn in ("sum", "prod") and len(node.args) == 1 and len(node.keywords) == 1 \
                    and node.keywords[0].arg == "axis" and isinstance(node.keywords[0].value, ast.Constant) \
                    and node.keywords[0].value.value == 0 and type(node.keywords[0].value.value) is int:
                ty, t = self.expr(node.args[0], env)
                if ty == "arrs":
                    return ("arr", f"(np_sum_axis0 kadd {t})" if fn == "sum" else f"(np_prod_axis0 kmul {t})")
        raise Abort(f"{self.cls}.rvs {where(node)}: unsupported expression {ast.dump(node)[:160]}")

    def translate(self, fn):
        plain_params(fn, ["self", "size"])
        env = {}
        result = None
        body = [s for s in fn.body if not is_docstring(s)]
        for k, st in enumerate(body):
            if isinstance(st, ast.Assign) and len(st.targets) == 1 and is_name(st.targets[0]):
                nm = st.targets[0].id
                if nm in ("self", "size", "np"):
                    raise Abort(f"{self.cls}.rvs {where(st)}: assignment to {nm}")
                ty, t = self.expr(st.value, env)
                v = ident(nm)
                if self.steps and self.steps[-1][0] == "bind" and self.steps[-1][1] == t:
                    self.steps[-1] = ("bind", v, self.steps[-1][2])
                else:
                    self.steps.append(("let", v, t))
                env[nm] = (ty, v)
                continue
            if isinstance(st, ast.Return) and st.value is not None and k == len(body) - 1:
                ty, t = self.expr(st.value, env)
                if ty != "arr":
                    raise Abort(f"{self.cls}.rvs {where(st)}: does not return an array")
                result = t
                continue
            raise Abort(f"{self.cls}.rvs {where(st)}: unsupported statement {ast.dump(st)[:120]}")
        if result is None:
            raise Abort(f"{self.cls}.rvs: no return")
        missing = [f for f, _ in SCHEMA[self.cls] if f not in self.used]
        if missing:
            raise Abort(f"{self.cls}.rvs does not use field(s) {missing}")
        term = f"ret {result}"
        for kind, v, t in reversed(self.steps):
            if kind == "bind":
                term = f"bind {t} (fun {v} => {term})"
            else:
                term = f"let {v} := {t} in {term}"
        return term


RVS_SIG = {
    "ConstantSampler": ("gen_rvs_Constant", "(constant : K) (size : nat)"),
    "NegatedSampler": ("gen_rvs_Negated", "(positive_rvs : M (list K))"),
    "SumSampler": ("gen_rvs_Sum", "(summands_rvs : list (M (list K)))"),
    "ProductSampler": ("gen_rvs_Product", "(multiplicands_rvs : list (M (list K)))"),
    "RatioSampler": ("gen_rvs_Ratio", "(numerator_rvs denominator_rvs : M (list K))"),
}


# --------------------------------------------------------------------------------------
def translate_source(src, origin="tools/sampling.py"):
    """Return the text of SamplerGen.v.  Raises Abort."""
    tree = ast.parse(src)
    classes = {n.name: n for n in tree.body if isinstance(n, ast.ClassDef)}
    real_ok = any(isinstance(n, ast.ImportFrom) and n.module == "numbers" and any(a.name == "Real" and a.asname is None for a in n.names)
                  for n in tree.body)
    if not real_ok:
        raise Abort("`from numbers import Real` not found")
    for n in tree.body:
        if isinstance(n, (ast.FunctionDef, ast.AsyncFunctionDef)):
            raise Abort(f"module-level function {n.name} {where(n)}")
        if isinstance(n, ast.Assign):
            for t in n.targets:
                if is_name(t) and t.id in list(SCHEMA) + ["SimpleSampler", "Real", "np", "isinstance"]:
                    raise Abort(f"{where(n)}: {t.id} is rebound at module level")
    for c in ["SimpleSampler"] + list(SCHEMA):
        if c not in classes:
            raise Abort(f"class {c} not found")
    extra = set(classes) - set(SCHEMA) - {"SimpleSampler"}
    if extra:
        raise Abort(f"unexpected classes {sorted(extra)}")

    def methods(cls):
        out = {}
        for n in cls.body:
            if is_docstring(n):
                continue
            if isinstance(n, ast.FunctionDef) and not n.decorator_list:
                if n.name in out:
                    raise Abort(f"{cls.name}.{n.name} defined twice")
                out[n.name] = n
            else:
                raise Abort(f"{cls.name} {where(n)}: unsupported class member")
        return out

    base = classes["SimpleSampler"]
    if base.bases or base.keywords:
        raise Abort("SimpleSampler has base classes")
    bm = methods(base)
    if set(bm) != set(OPERATOR_METHODS) | {"rvs"}:
        raise Abort(f"SimpleSampler defines {sorted(bm)}; expected rvs and {OPERATOR_METHODS}")

    out = []
    sha = hashlib.sha256(src.encode()).hexdigest()[:16]
    out.append(f"(* GENERATED by harness/translate_sampling.py from {origin} (sha256 {sha}).  Do not edit. *)")
    out.append("From Coq Require Import List.")
    out.append("From VQ Require Import Base Sampler.")
    out.append("Import ListNotations.\n")

    # subclasses: only __init__ / rvs (no operator overrides), bases = SimpleSampler
    for cname in SCHEMA:
        c = classes[cname]
        if len(c.bases) != 1 or not is_name(c.bases[0], "SimpleSampler") or c.keywords:
            raise Abort(f"{cname} does not derive from SimpleSampler only")
        m = methods(c)
        allowed = {"__init__", "rvs"} | ALLOWED_EXTRA_METHODS.get(cname, set())
        if not set(m) <= allowed or "__init__" not in m or "rvs" not in m:
            raise Abort(f"{cname} defines {sorted(m)}")
        if cname != "RatioSampler":
            check_plain_init(c, m["__init__"])

    sym = Sym(False, False)
    name, text = translate_operator(bm["__neg__"], sym)
    out.append(text)
    sym.have_neg = True
    out.append(translate_ratio_init(methods(classes["RatioSampler"])["__init__"], sym))
    sym.have_ratio_init = True
    names = [name]
    for mname in OPERATOR_METHODS[1:]:
        name, text = translate_operator(bm[mname], sym)
        names.append(name)
        out.append(text)
    out.append(f"Definition gen_table {BINDERS} : overloads K :=\n    mkOv "
               + " ".join(f"({n} {ARGS})" for n in names) + ".\n")

    # rvs
    w = Rvs("WrapperSampler")
    term = w.translate(methods(classes["WrapperSampler"])["rvs"])
    if term != "bind underlying_rvs (fun t1 => ret t1)":
        raise Abort(f"WrapperSampler.rvs is not `return self.underlying.rvs(size)`: {term}")
    for cname, (gname, sig) in RVS_SIG.items():
        r = Rvs(cname)
        fn = methods(classes[cname])["rvs"]
        term = r.translate(fn)
        out.append(f"(* {cname}.rvs, line {fn.lineno} *)\n"
                   f"Definition {gname} {BINDERS} {sig} : M (list K) :=\n    {term}.\n")
    return "\n".join(out)


def translate_file(path):
    with open(path) as fh:
        src = fh.read()
    return translate_source(src, origin=path)


if __name__ == "__main__":
    import sys
    print(translate_file(sys.argv[1]))
