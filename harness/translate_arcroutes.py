"""translate_arcroutes.py -- package `arcroutes`: ArcBasedRoutingProblem.get_routes(self, solution) of
src/vrpqubo/routing_problem/formulations/arc_based_rp.py (tree under test) -> coq/gen/ArcRoutesGen.v, on top of
coq/gen/ArcGen.v (package `arcenum`, produced here too so that both files are written in one gen_step).  [C05]

The printer is translate_routes.py (fail-closed; accepted fragment in its docstring and in
notes/C05_routes_gen.md); the meaning of every emitted combinator -- numpy calls included -- is defined in
coq/theories/PyRoutes.v.  coq/genprops/C05_routes_gen.v proves the generated method equal to the hand model
Arc.get_routes for every object state, vector and sufficient fuel.
"""
import os
from collections import OrderedDict   # noqa: F401

import translate_arcenum as TA
import translate_routes as R
from translate_enumcore import Rejected   # noqa: F401

REL = TA.REL


def source_path():
    from vq import core
    return os.path.join(core.REPO, REL)


def translate_source(src):
    return R.translate_arc_source(src)


def translate():
    with open(source_path()) as fh:
        src = fh.read()
    return translate_source(src)


if __name__ == "__main__":
    import sys
    print(translate_source(open(sys.argv[1]).read())["ArcRoutesGen.v"])
