"""translate_seqroutes.py -- package `seqroutes`: SequenceBasedRoutingProblem.get_routes(self, solution) of
src/vrpqubo/routing_problem/formulations/sequence_based_rp.py (tree under test) -> coq/gen/SeqRoutesGen.v, on top
of coq/gen/SeqGen.v (package `seqenum`, produced here too so that both files are written in one gen_step).  [C07]

The printer is translate_routes.py (fail-closed; accepted fragment in its docstring and in
notes/C05_routes_gen.md); the meaning of every emitted combinator -- numpy calls included -- is defined in
coq/theories/PyRoutes.v.  coq/genprops/C07_routes_gen.v proves the generated method equal to the hand model
Seq.decode for every object state and every vector with at most one entry per variable.
"""
import os
from collections import OrderedDict   # noqa: F401

import translate_seqenum as SQ
import translate_routes as R
from translate_enumcore import Rejected   # noqa: F401

REL = SQ.REL


def source_path():
    from vq import core
    return os.path.join(core.REPO, REL)


def translate_source(src):
    return R.translate_seq_source(src)


def translate():
    with open(source_path()) as fh:
        src = fh.read()
    return translate_source(src)


if __name__ == "__main__":
    import sys
    print(translate_source(open(sys.argv[1]).read())["SeqRoutesGen.v"])
