"""translate_testset.py -- fail-closed translator  Python ast -> Gallina  for the test-set half of C10.

Translated functions (read from the tree under test, `core.REPO`):

    test_feasibility, convenience, do_all, print_summary        src/vrpqubo/test_feasibility.py
    gen                                                         src/vrpqubo/generate_test_set.py

Entry:  translate() -> {"TestSetGen.v": text}      (obligations in coq/genprops/C10_testset_gen.v)

The translator is a PRINTER without types.  Every expression node becomes the combinator of
coq/theories/PyTestSet.v of the same shape over ONE dynamically typed value universe (`tv`), in the monad
`M` = log of external calls + exceptions; dispatch on values, broadcasting, exception classes and the table
of interpreted library functions live in Coq.  The printer only resolves NAMES:

    local variable x                      e_val v_x
    import alias / from-import            e_global "<canonical dotted name>"   (np.dot -> "numpy.dot",
                                          load_spins -> ".tools.load_tools.load_spins", os.path.join -> "os.path.join")
    Python builtin                        e_global "builtins.<name>"
    other module-level variable           parameter g_<name> of the generated definition (HAVE_CPLEX)
    f(a, b) for a translated function f   direct call of gen_f

    x = E                                 m_bind E (fun v_x => REST)
    a, b = E                              m_unpack2 E (fun v_a v_b => REST)          (2..4 names)
    d[k] = E                              m_bind (m_setitem v_d K E) (fun v_d => REST)   (d a local dict() that is never aliased)
    E                                     m_bind E (fun _ => REST)
    if T: A else: B ; REST                m_bind (m_if T (A; m_ret W) (B; m_ret W)) (fun W => REST)   W = names (re)bound in A / B
                                          m_if T (A; REST) (B; REST) when A or B contains return / continue / break
    for x in IT: BODY ; REST              m_bind (m_for IT (fun S v_x => BODY; m_ret (CNext, S)) S0) (fun S => REST)
                                          S = the names bound before the loop that BODY rebinds
    continue / break                      m_ret (CNext, S) / m_ret (CBreak, S)
    with C as h: BODY ; REST              m_bind (m_with o C (fun v_h => BODY; m_ret W)) (fun W => REST)
    try: B except C as e: H ; REST        m_bind (m_try (B; m_ret (inl W)) C (fun v_e => H; m_ret (inl W))) (fun r => match r with
                                          inl W => REST | inr out => m_ret out end);   `continue` inside B / H is m_ret (inr (CNext, S))
    return E / return / end of function   E / e_none

Ignored: docstrings, comments, `pass`, `logger.*(...)` calls, annotations.  Everything else raises `Rejected`
(with the line number).
"""
import ast
import os
from collections import OrderedDict

try:
    from vq import core
    _REPO = core.REPO
except Exception:  # noqa  (stand-alone use)
    _REPO = os.environ.get("VQ_REPO", "/repo")

SOURCES = OrderedDict([
    ("src/vrpqubo/test_feasibility.py", ["test_feasibility", "convenience", "do_all", "print_summary"]),
    ("src/vrpqubo/generate_test_set.py", ["gen"]),
])

BUILTINS = {"len", "sum", "int", "dict", "zip", "print", "open", "str", "float", "list", "tuple", "range", "abs", "min", "max",
            "sorted", "enumerate", "bool", "set", "isinstance", "ValueError", "IndexError", "KeyError", "AssertionError",
            "AttributeError", "TypeError", "Exception", "ImportError", "OSError"}
BINOPS = {ast.Add: "p_add", ast.Sub: "p_sub", ast.Mult: "p_mul"}
CMPOPS = {ast.Eq: "p_eq", ast.NotEq: "p_ne", ast.Lt: "p_lt", ast.LtE: "p_le", ast.Gt: "p_gt", ast.GtE: "p_ge"}


class Rejected(Exception):
    pass


def where(node):
    return f"line {getattr(node, 'lineno', '?')}"


def is_name(node, name=None):
    return isinstance(node, ast.Name) and (name is None or node.id == name)


def coq_string(s):
    """A Gallina term of type string for the Python string s (Coq literals have no escapes)."""
    parts, cur = [], ""
    for ch in s:
        k = ord(ch)
        if k > 255:
            raise Rejected(f"non-latin-1 character {ch!r} in a string constant")
        if 32 <= k <= 126:
            cur += '""' if ch == '"' else ch
        else:
            if cur:
                parts.append(f'"{cur}"')
                cur = ""
            parts.append(f'(String (Ascii.ascii_of_nat {k}) "")')
    if cur or not parts:
        parts.append(f'"{cur}"')
    if len(parts) == 1:
        return f"{parts[0]}%string" if parts[0].startswith('"') else parts[0]
    return "(" + " ++ ".join(parts) + ")%string"


def ident_ok(name):
    return name.isidentifier() and name.isascii() and "__" not in name


def is_docstring(st):
    return isinstance(st, ast.Expr) and isinstance(st.value, ast.Constant) and isinstance(st.value.value, str)


def is_logger_call(st):
    return (isinstance(st, ast.Expr) and isinstance(st.value, ast.Call) and isinstance(st.value.func, ast.Attribute)
            and is_name(st.value.func.value, "logger"))


def ignorable(st):
    return is_docstring(st) or is_logger_call(st) or isinstance(st, ast.Pass)


def has_control(stmts):
    """return / continue / break somewhere inside (not descending into nested function definitions)."""
    for st in stmts:
        for n in ast.walk(st):
            if isinstance(n, (ast.Return, ast.Continue, ast.Break)):
                return True
    return False


def target_names(t, st):
    if is_name(t):
        return [t.id]
    if isinstance(t, ast.Tuple) and all(is_name(e) for e in t.elts):
        return [e.id for e in t.elts]
    if isinstance(t, ast.Subscript) and is_name(t.value):
        return [t.value.id]
    raise Rejected(f"{where(st)}: assignment target {ast.dump(t)[:80]} is not a name, a tuple of names or name[...]")


def assigned(stmts, sure=False):
    """Names (re)bound by the statements: all of them, or (sure=True) those bound on every path that ends normally."""
    out = set()
    for st in stmts:
        if isinstance(st, ast.Assign):
            for t in st.targets:
                out.update(target_names(t, st))
        elif isinstance(st, ast.AnnAssign) and st.value is not None:
            out.update(target_names(st.target, st))
        elif isinstance(st, ast.AugAssign):
            out.update(target_names(st.target, st))
        elif isinstance(st, ast.If):
            a, b = assigned(st.body, sure), assigned(st.orelse, sure)
            out |= (a & b) if sure else (a | b)
        elif isinstance(st, (ast.For, ast.While)):
            if not sure:
                out |= assigned(st.body) | assigned(st.orelse)
                if isinstance(st, ast.For):
                    out.update(target_names(st.target, st))
        elif isinstance(st, ast.With):
            out |= assigned(st.body, sure)
            for it in st.items:
                if it.optional_vars is not None:
                    out.update(target_names(it.optional_vars, st))
        elif isinstance(st, ast.Try):
            if not sure:
                out |= assigned(st.body) | assigned(st.orelse) | assigned(st.finalbody)
                for h in st.handlers:
                    out |= assigned(h.body)
                    if h.name:
                        out.add(h.name)
    return out


class Module:
    """Module-level names of one source file: import aliases, from-imports, functions, other variables."""

    def __init__(self, tree, rel):
        self.rel = rel
        self.modules = {}      # alias -> dotted module name
        self.objects = {}      # name -> canonical dotted name of a from-import
        self.functions = {}    # name -> FunctionDef
        self.variables = set()
        self.clash = set()
        self.scan(tree.body)
        for n in ast.walk(tree):
            if isinstance(n, (ast.Global, ast.Nonlocal)):
                raise Rejected(f"{rel} {where(n)}: global / nonlocal statement")

    def bind(self, name, table, value):
        for t in (self.modules, self.objects, self.functions):
            if name in t and (t is not table or t[name] != value):
                self.clash.add(name)
        if name in self.variables and table is not None:
            self.clash.add(name)
        if table is None:
            if name in self.modules or name in self.objects or name in self.functions:
                self.clash.add(name)
            self.variables.add(name)
        else:
            table[name] = value

    def scan(self, stmts):
        for n in stmts:
            if isinstance(n, ast.Import):
                for a in n.names:
                    if a.asname:
                        self.bind(a.asname, self.modules, a.name)
                    else:
                        top = a.name.split(".")[0]
                        self.bind(top, self.modules, top)
            elif isinstance(n, ast.ImportFrom):
                for a in n.names:
                    if a.name == "*":
                        raise Rejected(f"{self.rel} {where(n)}: star import")
                    self.bind(a.asname or a.name, self.objects, "." * n.level + (n.module or "") + "." + a.name)
            elif isinstance(n, (ast.FunctionDef, ast.AsyncFunctionDef)):
                self.bind(n.name, self.functions, n)
            elif isinstance(n, ast.ClassDef):
                self.bind(n.name, None, None)
            elif isinstance(n, (ast.Assign, ast.AnnAssign, ast.AugAssign)):
                for t in (n.targets if isinstance(n, ast.Assign) else [n.target]):
                    for m in ast.walk(t):
                        if isinstance(m, ast.Name):
                            self.bind(m.id, None, None)
            elif isinstance(n, ast.Try):
                self.scan(n.body)
                for h in n.handlers:
                    self.scan(h.body)
                self.scan(n.orelse)
                self.scan(n.finalbody)
            elif isinstance(n, ast.If):
                self.scan(n.body)
                self.scan(n.orelse)
            elif isinstance(n, (ast.For, ast.While, ast.With)):
                raise Rejected(f"{self.rel} {where(n)}: loop / with at module level")


class Ctx:
    """Where a block is: what `continue` / `break` / `return` / falling off the end print as."""

    def __init__(self, cont=None, brk=None, ret=None, out=None):
        # cont / brk: the VALUE a loop body ends with on continue / break (None: not allowed here);
        # out: how such a value leaves the current block; ret: text of `return E` (None: not allowed here)
        self.cont, self.brk, self.ret = cont, brk, ret
        self.out = out or (lambda v: f"m_ret {v}")


class Fn:
    """Translation of one module-level function."""

    def __init__(self, fn, module, translated, gparams_of):
        self.fn = fn
        self.module = module
        self.translated = translated        # name -> (gen name, number of parameters) of the functions translated so far
        self.gparams_of = gparams_of        # name -> list of g_ parameters of those functions
        self.gparams = set()
        self.locals = set(a.arg for a in fn.args.args) | assigned(fn.body)
        for n in ast.walk(fn):
            if isinstance(n, (ast.FunctionDef, ast.AsyncFunctionDef, ast.Lambda, ast.ClassDef)) and n is not fn:
                raise Rejected(f"{fn.name} {where(n)}: nested function / class / lambda")
            if isinstance(n, (ast.ListComp, ast.GeneratorExp, ast.SetComp, ast.DictComp)):
                for c in n.generators:
                    if not is_name(c.target):
                        raise Rejected(f"{fn.name} {where(n)}: comprehension target is not a plain name")
            if isinstance(n, ast.NamedExpr):
                raise Rejected(f"{fn.name} {where(n)}: walrus")
        self.parents = {}
        for p in ast.walk(fn):
            for c in ast.iter_child_nodes(p):
                self.parents[c] = p
        self.n_tmp = 0

    # ---------------- names ----------------
    def var(self, name, node):
        if not ident_ok(name):
            raise Rejected(f"{where(node)}: the name {name!r} cannot be used in a Gallina identifier")
        return "v_" + name

    def tmp(self):
        self.n_tmp += 1
        return f"t{self.n_tmp}_"

    def dotted(self, e):
        """An attribute chain rooted at an import alias (not shadowed): its canonical dotted name, else None."""
        chain = []
        while isinstance(e, ast.Attribute):
            chain.append(e.attr)
            e = e.value
        if is_name(e) and e.id not in self.locals and e.id in self.module.modules and e.id not in self.module.clash:
            return ".".join([self.module.modules[e.id]] + list(reversed(chain)))
        return None

    def name(self, e, env):
        """A name in load position: an ATOM (a Gallina term of type tv)."""
        x = e.id
        if x in env:
            return self.var(x, e)
        if x in self.locals:
            raise Rejected(f"{where(e)}: local name {x!r} may be unbound here")
        m = self.module
        if x in m.clash:
            raise Rejected(f"{where(e)}: module-level name {x!r} is bound in more than one way")
        if x in m.modules:
            return f"(TGlobal {coq_string(m.modules[x])})"
        if x in m.objects:
            return f"(TGlobal {coq_string(m.objects[x])})"
        if x in m.functions:
            raise Rejected(f"{where(e)}: function {x!r} of this module is used other than in a direct call")
        if x in m.variables:
            if not ident_ok(x):
                raise Rejected(f"{where(e)}: module variable {x!r}")
            self.gparams.add("g_" + x)
            return f"g_{x}"
        if x in BUILTINS:
            return f"(TGlobal {coq_string('builtins.' + x)})"
        raise Rejected(f"{where(e)}: unknown name {x!r}")

    # ---------------- expressions (A-normal form) ----------------
    def emit(self, pre, comp):
        """Bind the computation `comp` (text of an M tv) to a fresh name in `pre`; the name is the atom."""
        t = self.tmp()
        pre.append((t, comp))
        return t

    @staticmethod
    def wrap(pre, text, pad=""):
        """`text` preceded by the bindings collected in `pre`."""
        out = ""
        for t, comp in pre:
            out += f"{pad}m_bind {comp} (fun {t} =>\n"
        return out + f"{pad}{text}" + ")" * len(pre)

    def comp(self, e, env):
        """The expression as ONE computation text (its own bindings inside), for and / or / comprehension bodies."""
        pre = []
        atom = self.expr(e, env, pre)
        return "(" + self.wrap(pre, f"m_ret {atom}").replace("\n", " ") + ")"

    def expr(self, e, env, pre):
        """Atom for the value of e; the computations it needs are appended to `pre` in evaluation order."""
        if isinstance(e, ast.Name):
            return self.name(e, env)
        if isinstance(e, ast.Constant):
            return self.const(e)
        if isinstance(e, ast.JoinedStr):
            parts = []
            for v in e.values:
                if isinstance(v, ast.Constant) and isinstance(v.value, str):
                    parts.append(coq_string(v.value))
                elif isinstance(v, ast.FormattedValue) and v.conversion == -1 and v.format_spec is None:
                    parts.append(self.emit(pre, f"(m_str o {self.expr(v.value, env, pre)})"))
                else:
                    raise Rejected(f"{where(e)}: f-string piece with a conversion or a format specification")
            return self.emit(pre, f"(p_fstr [{'; '.join(parts)}])")
        if isinstance(e, ast.UnaryOp):
            if isinstance(e.op, ast.USub):
                if isinstance(e.operand, ast.Constant) and type(e.operand.value) is int:
                    return f"(TInt ({-e.operand.value})%Z)"
                return self.emit(pre, f"(p_neg {self.expr(e.operand, env, pre)})")
            if isinstance(e.op, ast.Not):
                return self.emit(pre, f"(p_not {self.expr(e.operand, env, pre)})")
            raise Rejected(f"{where(e)}: unary operator {type(e.op).__name__}")
        if isinstance(e, ast.BinOp):
            for cls, comb in BINOPS.items():
                if isinstance(e.op, cls):
                    a = self.expr(e.left, env, pre)
                    b = self.expr(e.right, env, pre)
                    return self.emit(pre, f"({comb} {a} {b})")
            raise Rejected(f"{where(e)}: binary operator {type(e.op).__name__}")
        if isinstance(e, ast.BoolOp):
            comb = "m_and" if isinstance(e.op, ast.And) else "m_or"
            a = self.expr(e.values[0], env, pre)
            rest = e.values[1:]
            right = self.comp(rest[0], env) if len(rest) == 1 else self.comp(ast.BoolOp(op=e.op, values=rest), env)
            return self.emit(pre, f"({comb} {a} {right})")
        if isinstance(e, ast.Compare):
            if len(e.ops) != 1:
                raise Rejected(f"{where(e)}: chained comparison")
            op = e.ops[0]
            left = self.expr(e.left, env, pre)
            right = self.expr(e.comparators[0], env, pre)
            for cls, comb in CMPOPS.items():
                if isinstance(op, cls):
                    return self.emit(pre, f"({comb} {left} {right})")
            if isinstance(op, ast.In):
                return self.emit(pre, f"(c_in o {left} {right})")
            if isinstance(op, ast.NotIn):
                return self.emit(pre, f"(c_notin o {left} {right})")
            raise Rejected(f"{where(e)}: comparison {type(op).__name__}")
        if isinstance(e, ast.Attribute):
            d = self.dotted(e)
            if d is not None:
                return f"(TGlobal {coq_string(d)})"
            return self.emit(pre, f"(p_attr {self.expr(e.value, env, pre)} {coq_string(e.attr)})")
        if isinstance(e, ast.Subscript):
            if isinstance(e.slice, (ast.Slice, ast.Tuple)):
                raise Rejected(f"{where(e)}: slice / multi-index subscript")
            a = self.expr(e.value, env, pre)
            k = self.expr(e.slice, env, pre)
            return self.emit(pre, f"(p_subscript {a} {k})")
        if isinstance(e, ast.Tuple):
            return f"(TTuple [{'; '.join(self.expr(v, env, pre) for v in e.elts)}])"
        if isinstance(e, ast.List):
            return f"(TList [{'; '.join(self.expr(v, env, pre) for v in e.elts)}])"
        if isinstance(e, ast.ListComp):
            if len(e.generators) != 1 or e.generators[0].ifs or e.generators[0].is_async:
                raise Rejected(f"{where(e)}: list comprehension with several generators / a condition")
            c = e.generators[0]
            it = self.expr(c.iter, env, pre)
            x = c.target.id
            if x in self.locals:
                raise Rejected(f"{where(e)}: comprehension variable {x!r} is also a local of the function")
            return self.emit(pre, f"(m_listcomp {it} (fun {self.var(x, e)} => {self.comp(e.elt, set(env) | {x})}))")
        if isinstance(e, ast.Call):
            return self.call(e, env, pre)
        raise Rejected(f"{where(e)}: expression {type(e).__name__} is not supported")

    def const(self, e):
        v = e.value
        if v is None:
            return "tnone"
        if v is True or v is False:
            return f"(tbool {'true' if v else 'false'})"
        if type(v) is int:
            return f"(TInt ({v})%Z)"
        if type(v) is str:
            return f"(TStr {coq_string(v)})"
        raise Rejected(f"{where(e)}: constant {v!r} is not None, a bool, an integer or a string")

    def call(self, e, env, pre):
        if any(isinstance(a, ast.Starred) for a in e.args) or any(k.arg is None for k in e.keywords):
            raise Rejected(f"{where(e)}: starred argument")
        f = e.func
        if is_name(f) and f.id not in env and f.id not in self.locals and f.id in self.module.functions \
                and f.id not in self.module.clash:
            if f.id not in self.translated:
                raise Rejected(f"{where(e)}: call of {f.id}, a function of this module that is not translated (before this one)")
            gen, npar = self.translated[f.id]
            if e.keywords or len(e.args) != npar:
                raise Rejected(f"{where(e)}: {f.id} must be called with its {npar} positional arguments")
            gs = self.gparams_of[f.id]
            self.gparams.update(gs)
            args = [self.expr(a, env, pre) for a in e.args]
            return self.emit(pre, "(" + " ".join([gen, "o"] + gs + args) + ")")
        fa = self.expr(f, env, pre)
        args = [self.expr(a, env, pre) for a in e.args]
        kws = []
        for k in e.keywords:
            if not ident_ok(k.arg):
                raise Rejected(f"{where(e)}: keyword {k.arg!r}")
            kws.append(f"({coq_string(k.arg)}, {self.expr(k.value, env, pre)})")
        return self.emit(pre, f"(c_call o {fa} [{'; '.join(args)}] [{'; '.join(kws)}])")

    # ---------------- statements ----------------
    def pat(self, names, node=None):
        vs = [self.var(n, node) for n in names]
        if not vs:
            return "(_ : unit)"
        if len(vs) == 1:
            return vs[0]
        return "'(" + ", ".join(vs) + ")"

    def tup(self, names, node=None):
        vs = [self.var(n, node) for n in names]
        if not vs:
            return "tt"
        if len(vs) == 1:
            return vs[0]
        return "(" + ", ".join(vs) + ")"

    def check_dict_local(self, name, st):
        """`name[k] = v` rebinding is sound only if the dict is a fresh local that is never aliased."""
        makers = 0
        for n in ast.walk(self.fn):
            if isinstance(n, ast.Name) and n.id == name:
                p = self.parents.get(n)
                if isinstance(n.ctx, ast.Store):
                    if isinstance(p, ast.Assign) and p.targets == [n]:
                        v = p.value
                        if (isinstance(v, ast.Call) and is_name(v.func, "dict") and not v.args and not v.keywords
                                and "dict" not in self.locals and "dict" not in self.module.clash
                                and not any("dict" in t for t in (self.module.modules, self.module.objects,
                                                                  self.module.functions, self.module.variables))):
                            makers += 1
                            continue
                        if isinstance(v, ast.Dict) and not v.keys:
                            makers += 1
                            continue
                    raise Rejected(f"{where(n)}: {name} (target of an item assignment) is bound to something that is not a fresh dict")
                if isinstance(p, ast.Subscript) and p.value is n:
                    continue
                if isinstance(p, ast.Return) and p.value is n:
                    continue
                raise Rejected(f"{where(n)}: {name} (target of an item assignment) may be aliased here")
        if makers == 0 or name in (a.arg for a in self.fn.args.args):
            raise Rejected(f"{where(st)}: item assignment to {name}, which is not a dict created in this function")

    def block(self, stmts, env, tail, ctx, ind):
        """Text of the computation `stmts; tail(env)`."""
        pad = "  " * ind
        if not stmts:
            return pad + tail(env)
        st, rest = stmts[0], stmts[1:]
        if ignorable(st):
            return self.block(rest, env, tail, ctx, ind)
        go = lambda e2: self.block(rest, e2, tail, ctx, ind)      # noqa: E731
        pre = []
        if isinstance(st, ast.AnnAssign) and st.value is not None:
            st = ast.copy_location(ast.Assign(targets=[st.target], value=st.value), st)
        if isinstance(st, ast.Assign):
            if len(st.targets) != 1:
                raise Rejected(f"{where(st)}: chained assignment")
            t = st.targets[0]
            rhs = self.expr(st.value, env, pre)
            if is_name(t):
                return self.wrap(pre, f"m_bind (m_ret {rhs}) (fun {self.var(t.id, st)} =>\n{go(set(env) | {t.id})})", pad)
            if isinstance(t, ast.Tuple):
                names = target_names(t, st)
                if len(set(names)) != len(names) or not 2 <= len(names) <= 4:
                    raise Rejected(f"{where(st)}: unpacking into {len(names)} names / a repeated name")
                vs = " ".join(self.var(n, st) for n in names)
                return self.wrap(pre, f"m_unpack{len(names)} {rhs} (fun {vs} =>\n{go(set(env) | set(names))})", pad)
            if isinstance(t, ast.Subscript) and is_name(t.value) and not isinstance(t.slice, (ast.Slice, ast.Tuple)):
                d = t.value.id
                if d not in env:
                    raise Rejected(f"{where(st)}: {d} is not bound before the item assignment")
                self.check_dict_local(d, st)
                k = self.expr(t.slice, env, pre)        # Python: value first, then the key
                return self.wrap(pre, f"m_bind (m_setitem {self.var(d, st)} {k} {rhs}) (fun {self.var(d, st)} =>\n{go(env)})", pad)
            raise Rejected(f"{where(st)}: assignment target")
        if isinstance(st, ast.Expr):
            if not isinstance(st.value, ast.Call):
                raise Rejected(f"{where(st)}: expression statement that is not a call")
            self.expr(st.value, env, pre)
            return self.wrap(pre, go(env).lstrip(), pad)
        if isinstance(st, ast.If):
            test = self.expr(st.test, env, pre)
            if has_control([st]):
                a = self.block(st.body, set(env), lambda e2: go(e2).lstrip(), ctx, ind + 1)
                b = self.block(st.orelse, set(env), lambda e2: go(e2).lstrip(), ctx, ind + 1)
                return self.wrap(pre, f"m_if {test}\n{pad}  (\n{a})\n{pad}  (\n{b})", pad)
            w = self.joined(st.body, st.orelse, env)
            fin = lambda e2: f"m_ret {self.tup(w, st)}"              # noqa: E731
            a = self.block(st.body, set(env), fin, ctx, ind + 2)
            b = self.block(st.orelse, set(env), fin, ctx, ind + 2)
            return self.wrap(pre, f"m_bind (m_if {test}\n{pad}    (\n{a})\n{pad}    (\n{b})) (fun {self.pat(w, st)} =>\n"
                                  f"{go(set(env) | set(w))})", pad)
        if isinstance(st, ast.For):
            if st.orelse or isinstance(st, ast.AsyncFor):
                raise Rejected(f"{where(st)}: for ... else")
            it = self.expr(st.iter, env, pre)
            tnames = target_names(st.target, st)
            if isinstance(st.target, ast.Subscript) or len(set(tnames)) != len(tnames) or len(tnames) > 4:
                raise Rejected(f"{where(st)}: loop target")
            s = sorted(x for x in (assigned(st.body) | set(tnames)) if x in env)
            if set(tnames) & set(s):
                raise Rejected(f"{where(st)}: the loop variable is bound before the loop")
            for n in ast.walk(st):
                if isinstance(n, ast.Return):
                    raise Rejected(f"{where(n)}: return inside a loop")
            inner = Ctx(cont=f"(CNext, {self.tup(s, st)})", brk=f"(CBreak, {self.tup(s, st)})", ret=None)
            end = lambda e2: inner.out(inner.cont)                    # noqa: E731
            env_b = set(env) | set(tnames)
            body = self.block(st.body, env_b, end, inner, ind + 2)
            if len(tnames) == 1:
                head = f"fun {self.pat(s, st)} {self.var(tnames[0], st)} =>\n{body}"
            else:
                vs = " ".join(self.var(n, st) for n in tnames)
                head = f"fun {self.pat(s, st)} it_ => m_unpack{len(tnames)} it_ (fun {vs} =>\n{body})"
            return self.wrap(pre, f"m_bind (m_for {it} ({head}) {self.tup(s, st)}) (fun {self.pat(s, st)} =>\n{go(env)})", pad)
        if isinstance(st, ast.Continue):
            if ctx.cont is None:
                raise Rejected(f"{where(st)}: continue outside a loop")
            return pad + ctx.out(ctx.cont)
        if isinstance(st, ast.Break):
            if ctx.brk is None:
                raise Rejected(f"{where(st)}: break outside a loop (or inside try / with)")
            return pad + ctx.out(ctx.brk)
        if isinstance(st, ast.Return):
            if ctx.ret is None:
                raise Rejected(f"{where(st)}: return inside a loop / try / with")
            if any(not ignorable(x) for x in rest):
                raise Rejected(f"{where(rest[0])}: statement after return")
            v = self.expr(st.value, env, pre) if st.value is not None else "tnone"
            return self.wrap(pre, ctx.ret(v), pad)
        if isinstance(st, ast.With):
            if len(st.items) != 1 or has_control(st.body):
                raise Rejected(f"{where(st)}: with several items, or return / continue / break inside with")
            item = st.items[0]
            if item.optional_vars is None:
                h, env_b = "_", set(env)
            elif is_name(item.optional_vars):
                h, env_b = self.var(item.optional_vars.id, st), set(env) | {item.optional_vars.id}
            else:
                raise Rejected(f"{where(st)}: `as` target is not a name")
            c = self.expr(item.context_expr, env, pre)
            w = self.joined(st.body, [], env, both=False)
            fin = lambda e2: f"m_ret {self.tup(w, st)}"              # noqa: E731
            body = self.block(st.body, env_b, fin, Ctx(), ind + 2)
            return self.wrap(pre, f"m_bind (m_with o {c} (fun {h} =>\n{body})) (fun {self.pat(w, st)} =>\n"
                                  f"{go(set(env) | set(w))})", pad)
        if isinstance(st, ast.Try):
            return self.try_stmt(st, rest, env, tail, ctx, ind)
        if isinstance(st, ast.Raise):
            raise Rejected(f"{where(st)}: raise")
        raise Rejected(f"{where(st)}: statement {type(st).__name__} is not supported")

    def joined(self, a, b, env, both=True):
        """The names a two-way (or one-way) join hands on: rebound ones that were bound before, and new ones bound on every path."""
        may = assigned(a) | assigned(b)
        sure = (assigned(a, True) & assigned(b, True)) if both else assigned(a, True)
        return sorted(x for x in may if x in env or x in sure)

    def try_stmt(self, st, rest, env, tail, ctx, ind):
        pad = "  " * ind
        if len(st.handlers) != 1 or st.orelse or st.finalbody or st.handlers[0].type is None:
            raise Rejected(f"{where(st)}: try with several handlers / else / finally / a bare except")
        h = st.handlers[0]
        for n in ast.walk(st):
            if isinstance(n, (ast.Return, ast.Break)):
                raise Rejected(f"{where(n)}: return / break inside try")
        if assigned(st.body):
            # a handler would have to see the bindings made before the exception
            raise Rejected(f"{where(st)}: assignment inside the body of try")
        w = sorted(x for x in assigned(h.body) if x in env)
        if h.name and (h.name in w or h.name in env):
            raise Rejected(f"{where(st)}: the `as` name of the handler is used outside it")
        inner = Ctx(cont=ctx.cont, brk=None, ret=None, out=lambda v: ctx.out(v).replace("m_ret ", "m_ret (inr ", 1) + ")")
        if ctx.out("X") != "m_ret X":
            raise Rejected(f"{where(st)}: try nested in try")
        fin = lambda e2: f"m_ret (inl {self.tup(w, st)})"            # noqa: E731
        body = self.block(st.body, set(env), fin, inner, ind + 2)
        hv = self.var(h.name, st) if h.name else "_"
        hbody = self.block(h.body, set(env) | ({h.name} if h.name else set()), fin, inner, ind + 2)
        after = self.block(rest, set(env) | set(w), tail, ctx, ind + 1)
        escape = "m_ret out_" if ctx.cont is not None else "match (out_ : Empty_set) with end"
        pre = []
        cls = self.expr(h.type, env, pre)
        if pre:
            raise Rejected(f"{where(h)}: the class of the except clause is not a plain (dotted) name")
        return (f"{pad}m_bind (m_try (\n{body})\n{pad}    {cls} (fun {hv} =>\n{hbody})) (fun r_ =>\n"
                f"{pad}  match r_ with\n{pad}  | inl w_ => (fun {self.pat(w, st)} =>\n{after}) w_\n{pad}  | inr out_ => {escape}\n{pad}  end)")

    PURE_BUILTINS = {"zip", "len", "sum"}

    def check_containers(self):
        """A local bound to a list / dict the MODEL holds as an immutable value must never be handed to code that could
        mutate the Python object: it may only be iterated, subscripted, returned, or passed to zip / len / sum."""
        names = set()
        for n in ast.walk(self.fn):
            if isinstance(n, ast.Assign):
                v = n.value
                fresh = isinstance(v, (ast.List, ast.ListComp, ast.Dict, ast.Set)) or (
                    isinstance(v, ast.Call) and is_name(v.func) and v.func.id in ("dict", "list", "zip", "set", "sorted"))
                if fresh:
                    for t in n.targets:
                        names.update(target_names(t, n))
        for n in ast.walk(self.fn):
            if isinstance(n, ast.Name) and n.id in names and isinstance(n.ctx, ast.Load):
                p = self.parents.get(n)
                ok = ((isinstance(p, ast.For) and p.iter is n) or (isinstance(p, ast.comprehension) and p.iter is n)
                      or (isinstance(p, ast.Subscript) and p.value is n) or (isinstance(p, ast.Return) and p.value is n)
                      or (isinstance(p, ast.Call) and n in p.args and is_name(p.func) and p.func.id in self.PURE_BUILTINS
                          and p.func.id not in self.locals and p.func.id not in self.module.clash
                          and not any(p.func.id in t for t in (self.module.modules, self.module.objects,
                                                              self.module.functions, self.module.variables))))
                if not ok:
                    raise Rejected(f"{where(n)}: the list / dict {n.id} is used where the Python object could be mutated or aliased")

    # ---------------- the definition ----------------
    def translate(self, gen_name, origin):
        fn = self.fn
        self.check_containers()
        a = fn.args
        if fn.decorator_list or a.vararg or a.kwarg or a.kwonlyargs or a.posonlyargs or isinstance(fn, ast.AsyncFunctionDef):
            raise Rejected(f"{fn.name} {where(fn)}: decorators / star / keyword-only parameters")
        params = [x.arg for x in a.args]
        if len(set(params)) != len(params):
            raise Rejected(f"{fn.name}: repeated parameter")
        top = Ctx(ret=lambda atom: f"m_ret {atom}")
        body = self.block(list(fn.body), set(params), lambda env: "m_ret tnone", top, 1)
        gs = sorted(self.gparams)
        binders = ["(o : oracle)"]
        if gs:
            binders.append(f"({' '.join(gs)} : tv)")
        if params:
            binders.append(f"({' '.join(self.var(p, fn) for p in params)} : tv)")
        out = [f"(* {origin}, line {fn.lineno}; parameters: o {' '.join(gs + params)} *)"]
        out.append(f"Definition {gen_name} {' '.join(binders)} : M tv :=\n{body}.")
        defaults = list(zip(reversed(params), reversed(a.defaults)))
        for p, d in reversed(defaults):
            if not isinstance(d, ast.Constant):
                raise Rejected(f"{fn.name}: default of {p} is not a constant")
            out.append(f"Definition {gen_name}_default_{p} : tv := {self.const(d)}.")
        return "\n".join(out) + "\n", gs, len(params)


HEADER = """(* GENERATED by harness/translate_testset.py from the Python source under test
   (src/vrpqubo/test_feasibility.py, src/vrpqubo/generate_test_set.py).  Do not edit. *)
From Coq Require Import ZArith List Bool String Ascii.
From VQ Require Import Base LinAlg PyMat PyTestSet.
Import ListNotations.
Local Open Scope string_scope.

"""


def build(repo=None):
    texts = []
    for rel, names in SOURCES.items():
        path = os.path.join(repo or _REPO, rel)
        try:
            with open(path, encoding="utf-8") as fh:
                tree = ast.parse(fh.read())
        except (OSError, SyntaxError, ValueError) as ex:
            raise Rejected(f"{rel}: cannot read / parse: {ex}")
        module = Module(tree, rel)
        translated, gparams_of = {}, {}
        for name in names:
            fn = module.functions.get(name)
            if fn is None or name in module.clash:
                raise Rejected(f"{rel}: function {name} not found exactly once at module level")
            if not ident_ok(name):
                raise Rejected(f"{rel}: function name {name!r}")
            gen = "gen_" + name
            text, gs, npar = Fn(fn, module, translated, gparams_of).translate(gen, f"{name} in {rel}")
            translated[name] = (gen, npar)
            gparams_of[name] = gs
            texts.append(text)
    return HEADER + "\n".join(texts)


def translate(repo=None):
    return OrderedDict([("TestSetGen.v", build(repo))])


if __name__ == "__main__":
    import sys
    print(build(sys.argv[1] if len(sys.argv) > 1 else None))
