"""translate_routes.py -- fail-closed printer for the route-decoding methods `get_routes(self, solution)` of
ArcBasedRoutingProblem (-> coq/gen/ArcRoutesGen.v, on top of the generated ArcGen.v) and of
SequenceBasedRoutingProblem (-> coq/gen/SeqRoutesGen.v, on top of the generated SeqGen.v).  [C05, C07]
Entry points: translate_arcroutes.translate / translate_seqroutes.translate (thin wrappers around
translate_arc_source / translate_seq_source below).

The printer is translate_seqcons.ConsTranslator (monadic statement layer: every method is
`state -> args -> result (state * value)`, anything that may raise is hoisted out of its expression in
evaluation order into `py_bind`; expression layer of translate_enumcore.py), subclassed here for the shapes
the two decoders need in addition.  Nothing is recognised by its text: operators, constants, argument
order, loop structure and statement order all come from the ast.  What an emitted combinator MEANS is
defined in coq/theories/PyRoutes.v (numpy calls included); the translator only prints.

Added statement shapes
* `while c: body` -> py_whileE fuel_ (gen_<m>_cond<k> ..) (gen_<m>_body<k> ..) state; the method and every lifted
  loop body get a first parameter `fuel_` (the theorems hold for every sufficient fuel);
* `x = l.pop(k)` on a local list -> `py_bind (py_list_pop l k) (fun '(x, l) => ..)`;
* `l[k].append(e)` on a local list of lists (the inner lists are created by `l.append([])` and never aliased);
* `for .. in enumerate(l)` / `for .. in l` over a LOCAL list: accepted when every statement of the body that
  changes l is followed, in its block, only by plain assignments and a `break` (then the list iterator is
  never advanced after the change, so iterating over the value l had at loop entry is exact);
* a local may change its type by re-assignment at function level (outside loops and joined branches);
* a local that is assigned `None` somewhere is an optional value (`option T`); `x and e` / `x or e` on an
  int-or-None local -> py_and_optnat / py_or_optnat (inside e the local is a non-zero int);
* `return []`; `assert c, msg` (inherited).
Added expression shapes
* list comprehensions with one generator (optional `if` filters that cannot raise):
  py_mapM when the element calls a method that changes the object, py_mapE when it may raise, map/filter otherwise;
* `t[k]` (constant k) on a value that is a tuple or None -> `py_tuple_of t` hoisted (TypeError for None), then
  the projection; a repeated partial expression inside one statement re-uses the value already bound
  (only terms that do not mention `self`);
* `a and b` / `a or b`: the first operand may raise (it is always evaluated), the others may not; the same for
  the third and later operands of a comparison chain `a < b < c`;
* `l[k:]` (constant k >= 0), `l1 + l2` on lists, `a.size`, `a.T`, `d.items()` on the tuple-keyed dict;
* numpy: np.flatnonzero(x), np.nonzero(x) (+ `[0]`), np.array(<list of tuples / None>), np.flip(a, -1 | 0),
  np.lexsort(keys), np.zeros(n), iteration over the result of lexsort (np_iter).
* calls of the generated methods of the enumeration package on the same object: pure ones inline, the others
  through py_call_m / py_call_mr (hoisted, one per statement, no attribute read next to it).
"""
import ast
import os
from collections import OrderedDict

import translate_enumcore as E
import translate_seqcons as SC
import translate_arcenum as TA
import translate_seqenum as SQ
from translate_enumcore import (ARC, BOOL, EMPTYLIST, EXT, LIT, NAT, NODE, NONE, OPAQUE, ZT, ClassSpec, Field,  # noqa: F401
                                FnInfo, Rejected, T_custom, T_dict, T_list, T_ndarray, T_tuple, Val, ident, indent,
                                is_name, is_none, is_self_attr, is_seq, rej)
from translate_seqcons import UNKNOWN, T_opt, ctype, has_unknown

VAR = T_tuple(NAT, ZT, NAT, ZT)
TUP = T_tuple(NAT, NAT, NAT)
KEY = T_tuple(NAT, NAT)
NDARR = T_custom("ndarray2")
NDIDX = T_custom("ndindex")
NZ1 = T_custom("(list nat * unit)")          # the 1-tuple np.nonzero returns for a 1-d array
TDICT = SQ.TDICT
FUEL = "fuel_"
MUTATORS = ("append", "insert", "pop", "remove", "clear", "extend", "sort", "reverse")


def is_opt_tuple(t):
    return isinstance(t, tuple) and t[0] == "option" and isinstance(t[1], tuple) and t[1][0] == "tuple"


# ------------------------------------------------------------------------------------- ast analyses
def comp_bound(node):
    out = set()
    for g in node.generators:
        for sub in ast.walk(g.target):
            if isinstance(sub, ast.Name):
                out.add(sub.id)
    return out


def loaded_outside_comprehension_scope(node):
    """(name node) of every Name read in `node`, not counting names bound by an enclosing comprehension."""
    out = []

    def walk(n, bound):
        if isinstance(n, (ast.ListComp, ast.SetComp, ast.GeneratorExp, ast.DictComp)):
            b2 = bound | comp_bound(n)
            # the first iterable is evaluated in the enclosing scope
            walk(n.generators[0].iter, bound)
            for k, g in enumerate(n.generators):
                if k > 0:
                    walk(g.iter, b2)
                for c in g.ifs:
                    walk(c, b2)
            for part in ([n.elt] if not isinstance(n, ast.DictComp) else [n.key, n.value]):
                walk(part, b2)
            return
        if isinstance(n, ast.Name) and isinstance(n.ctx, ast.Load) and n.id not in bound:
            out.append(n)
        for c in ast.iter_child_nodes(n):
            walk(c, bound)
    walk(node, frozenset())
    return out


def assigned_anywhere(stmts):
    """Locals bound by assignment statements anywhere in the block (loops of both kinds included)."""
    out = []

    def add(n):
        if n not in out:
            out.append(n)

    def walk(block):
        for st in block:
            if isinstance(st, ast.Assign):
                for t in st.targets:
                    if not isinstance(t, ast.Subscript):
                        for sub in ast.walk(t):
                            if isinstance(sub, ast.Name) and isinstance(sub.ctx, ast.Store):
                                add(sub.id)
            elif isinstance(st, ast.AugAssign):
                if isinstance(st.target, ast.Name):
                    add(st.target.id)
            elif isinstance(st, ast.If):
                walk(st.body)
                walk(st.orelse)
            elif isinstance(st, (ast.For, ast.While)):
                walk(st.body)
    walk(stmts)
    return out


def maybe_unbound(fn):
    """translate_seqcons.maybe_unbound with `while` loops and comprehension scopes."""
    params = {a.arg for a in fn.args.args}
    assigned_somewhere = set(assigned_anywhere(fn.body))
    flagged = []

    def reads(node, da):
        for sub in loaded_outside_comprehension_scope(node):
            if sub.id in assigned_somewhere and sub.id not in da and sub.id not in params and sub.id not in flagged:
                flagged.append(sub.id)

    def targets(t, da):
        for sub in ast.walk(t):
            if isinstance(sub, ast.Name) and isinstance(sub.ctx, ast.Store):
                da.add(sub.id)

    def walk(block, da):
        for st in block:
            if isinstance(st, ast.Assign):
                reads(st.value, da)
                for t in st.targets:
                    if isinstance(t, ast.Subscript):
                        reads(t, da)
                    else:
                        targets(t, da)
            elif isinstance(st, ast.AugAssign):
                reads(st.value, da)
                reads(ast.copy_location(E._as_load(st.target), st), da)
                if not isinstance(st.target, ast.Subscript):
                    targets(st.target, da)
            elif isinstance(st, ast.If):
                reads(st.test, da)
                a = walk(st.body, set(da))
                b = walk(st.orelse, set(da))
                if a is None and b is None:
                    return None
                new = b if a is None else a if b is None else (a & b)
                da |= new
            elif isinstance(st, ast.For):
                reads(st.iter, da)
                inner = set(da)
                targets(st.target, inner)
                walk(st.body, inner)
            elif isinstance(st, ast.While):
                reads(st.test, da)
                walk(st.body, set(da))
            elif isinstance(st, (ast.Return, ast.Continue, ast.Break, ast.Raise)):
                if isinstance(st, ast.Return) and st.value is not None:
                    reads(st.value, da)
                return None
            elif isinstance(st, ast.Assert):
                reads(st.test, da)
            else:
                reads(st, da)
        return da

    walk(fn.body, set())
    return flagged


def stmt_mutates(st, name):
    """Does this (simple) statement change the list bound to `name`, or re-bind `name`?"""
    if isinstance(st, ast.Assign):
        for t in st.targets:
            if isinstance(t, ast.Subscript):
                base = t.value
                while isinstance(base, ast.Subscript):
                    base = base.value
                if is_name(base, name):
                    return True
            else:
                for sub in ast.walk(t):
                    if isinstance(sub, ast.Name) and sub.id == name:
                        return True
    if isinstance(st, ast.AugAssign):
        base = st.target
        while isinstance(base, ast.Subscript):
            base = base.value
        if is_name(base, name):
            return True
    for sub in ast.walk(st):
        if isinstance(sub, ast.Call) and isinstance(sub.func, ast.Attribute) and sub.func.attr in MUTATORS:
            base = sub.func.value
            while isinstance(base, ast.Subscript):
                base = base.value
            if is_name(base, name):
                return True
    return False


def mutated_names(stmts):
    """Locals whose value changes anywhere in the block: assigned, augmented, `x.append(..)`, `x[k].append(..)`,
    `y = x.pop(..)`, `x[k] = ..` (nested loops of both kinds and ifs included), in order of first occurrence."""
    out = []

    def add(n):
        if n not in out:
            out.append(n)

    def base_name(t):
        while isinstance(t, ast.Subscript):
            t = t.value
        return t.id if isinstance(t, ast.Name) and t.id != "self" else None

    def calls(node):
        for sub in ast.walk(node):
            if isinstance(sub, ast.Call) and isinstance(sub.func, ast.Attribute) and sub.func.attr in MUTATORS:
                b = base_name(sub.func.value)
                if b is not None:
                    add(b)

    def tgt(t):
        if isinstance(t, ast.Subscript):
            b = base_name(t)
            if b is not None:
                add(b)
            return
        for sub in ast.walk(t):
            if isinstance(sub, ast.Name) and isinstance(sub.ctx, ast.Store):
                add(sub.id)

    def walk(block):
        for st in block:
            if isinstance(st, ast.Assign):
                for t in st.targets:
                    tgt(t)
                calls(st.value)
            elif isinstance(st, ast.AugAssign):
                tgt(st.target)
                calls(st.value)
            elif isinstance(st, ast.Expr):
                calls(st.value)
            elif isinstance(st, ast.If):
                walk(st.body)
                walk(st.orelse)
            elif isinstance(st, (ast.For, ast.While)):
                walk(st.body)
    walk(stmts)
    return out


def changed_in_place(fn, name):
    """Is the object bound to `name` changed in place somewhere in fn (x.append(..), x[k] = .., x += ..)?"""
    for sub in ast.walk(fn):
        if isinstance(sub, ast.AugAssign):
            base = sub.target
            while isinstance(base, ast.Subscript):
                base = base.value
            if is_name(base, name):
                return True
        if isinstance(sub, ast.Assign):
            for t in sub.targets:
                if isinstance(t, ast.Subscript):
                    base = t
                    while isinstance(base, ast.Subscript):
                        base = base.value
                    if is_name(base, name):
                        return True
        if isinstance(sub, ast.Call) and isinstance(sub.func, ast.Attribute) and sub.func.attr in MUTATORS:
            base = sub.func.value
            while isinstance(base, ast.Subscript):
                base = base.value
            if is_name(base, name):
                return True
    return False


def none_assigned(fn):
    """Locals that are assigned the constant None somewhere."""
    out = set()
    for sub in ast.walk(fn):
        if isinstance(sub, ast.Assign) and is_none(sub.value) and sub.value is not None:
            for t in sub.targets:
                if is_name(t):
                    out.add(t.id)
    return out


def const_int(node):
    """An integer constant, possibly written with a unary minus."""
    if isinstance(node, ast.Constant) and type(node.value) is int:
        return node.value
    if isinstance(node, ast.UnaryOp) and isinstance(node.op, ast.USub) and isinstance(node.operand, ast.Constant) \
            and type(node.operand.value) is int:
        return -node.operand.value
    return None


# ------------------------------------------------------------------------------------- numpy hooks
def _np_only(e, what, nargs):
    if not (isinstance(e.func, ast.Attribute) and is_name(e.func.value, "np")):
        rej(e, f"{what} is only accepted as np.{what}(..)")
    if len(e.args) != nargs:
        rej(e, f"np.{what} with {len(e.args)} positional arguments")


def row_fn(tty, node):
    """The Gallina function that turns a tuple of integers into the list of its components (a row of Z)."""
    if not (isinstance(tty, tuple) and tty[0] == "tuple") or any(c not in (NAT, ZT) for c in tty[1]):
        rej(node, f"np.array of tuples of type {tty!r}: only tuples of integers are accepted")
    n = len(tty[1])
    tr = E.Translator.tuple_proj
    comps = []
    for k, c in enumerate(tty[1]):
        p = tr(None, "t_", n, k)
        comps.append(f"Z.of_nat {p}" if c == NAT else p)
    return f"(fun t_ : {ctype(tty)} => [" + "; ".join(comps) + "])"


def x_flatnonzero(tr, e, args):
    _np_only(e, "flatnonzero", 1)
    if e.keywords or not (is_seq(args[0].ty) and args[0].ty[1] == ZT):
        rej(e, "np.flatnonzero is accepted on a 1-d integer array only")
    return Val(T_ndarray(NAT), f"(np_flatnonzero {args[0].term})")


def x_nonzero(tr, e, args):
    _np_only(e, "nonzero", 1)
    if e.keywords or not (is_seq(args[0].ty) and args[0].ty[1] == ZT):
        rej(e, "np.nonzero is accepted on a 1-d integer array only")
    return Val(NZ1, f"(np_nonzero {args[0].term})")


def x_array(tr, e, args):
    _np_only(e, "array", 1)
    if e.keywords or not (isinstance(args[0].ty, tuple) and args[0].ty[0] == "list"):
        rej(e, "np.array is accepted on a list only")
    ety = args[0].ty[1]
    if is_opt_tuple(ety):
        rows = f"(map (option_map {row_fn(ety[1], e)}) {args[0].term})"
    elif isinstance(ety, tuple) and ety[0] == "tuple":
        rows = f"(map (fun t_ => Some ({row_fn(ety, e)} t_)) {args[0].term})"
    else:
        rej(e, f"np.array of a list of {ety!r}: only lists of integer tuples (or None) are accepted")
    return tr.hoist("bind", f"(np_array_rows {rows})", NDARR, e)


def x_flip(tr, e, args):
    if not (isinstance(e.func, ast.Attribute) and is_name(e.func.value, "np")):
        rej(e, "flip is only accepted as np.flip(..)")
    axis = None
    if len(e.args) == 2 and not e.keywords:
        axis = const_int(e.args[1])
    elif len(e.args) == 1 and len(e.keywords) == 1 and e.keywords[0].arg == "axis":
        axis = const_int(e.keywords[0].value)
    if axis not in (-1, 0) or args[0].ty != NDARR:
        rej(e, "np.flip is accepted as np.flip(<2-d array>, -1 | 0) only")
    return Val(NDARR, f"(np_flip {args[0].term} ({axis})%Z)")


def x_lexsort(tr, e, args):
    _np_only(e, "lexsort", 1)
    if e.keywords or args[0].ty != NDARR:
        rej(e, "np.lexsort is accepted on a 2-d array (the sequence of its rows) only")
    return tr.hoist("bind", f"(np_lexsort {args[0].term})", NDIDX, e)


def x_zeros(tr, e, args):
    _np_only(e, "zeros", 1)
    if e.keywords:
        rej(e, "np.zeros with keyword arguments")
    return Val(T_ndarray(ZT), f"(np_zeros1 {tr.coerce(args[0], NAT, e)})")


def x_enumerate(tr, e, args):
    if not isinstance(e.func, ast.Name) or len(args) != 1 or not is_seq(args[0].ty):
        rej(e, "enumerate() of something that is not a list / array")
    return Val(T_list(T_tuple(NAT, args[0].ty[1])), f"(py_enumerate {args[0].term})")


EXTRA = {"flatnonzero": x_flatnonzero, "nonzero": x_nonzero, "array": x_array, "flip": x_flip,
         "lexsort": x_lexsort, "zeros": x_zeros, "enumerate": x_enumerate}


# ------------------------------------------------------------------------------------------ the printer
class RoutesTranslator(SC.ConsTranslator):
    def __init__(self, spec, cls, ext, hints):
        super().__init__(spec, cls, ext, hints)
        self.cur_ctx = None
        self.optional = set()
        self.uses_fuel = False

    # ------------------------------------------------------------------ hoisting (with re-use inside a statement)
    def hoist(self, kind, term, ty, node=None):
        if kind == "bind" and "self" not in term.replace("(", " ").replace(")", " ").split():
            for fr in self.frames:
                for k, v, t, _ in fr:
                    if k == "bind" and t == term:
                        return Val(ty, v)
        return super().hoist(kind, term, ty, node)

    def sub_frame_empty(self, fn, node, what):
        self.frames.append([])
        out = fn()
        if self.frames.pop():
            rej(node, f"something that may raise or change the object inside {what}")
        return out

    def fuel_param(self):
        return f" ({FUEL} : nat)" if self.uses_fuel else ""

    def fuel_arg(self):
        return f" {FUEL}" if self.uses_fuel else ""

    # ------------------------------------------------------------------ expressions
    def coerce(self, v, ty, node):
        if isinstance(ty, tuple) and ty[0] in ("list", "ndarray") and isinstance(v.ty, tuple) and v.ty[0] in ("list", "ndarray") \
                and isinstance(ty[1], tuple) and ty[1][0] == "option" and ty[1][1] == v.ty[1] and not v.raising:
            return f"(map (@Some _) {v.term})"
        if isinstance(ty, tuple) and ty[0] == "list" and isinstance(ty[1], tuple) and ty[1][0] == "list" and v.ty == EMPTYLIST:
            return "[]"
        return super().coerce(v, ty, node)

    def expr(self, e, env):
        if isinstance(e, ast.BoolOp):
            if not isinstance(e.op, (ast.And, ast.Or)):
                rej(e, "boolean operator")
            return Val(BOOL, self.boolop(e, list(e.values), env, True))
        if isinstance(e, ast.ListComp):
            return self.listcomp(e, env)
        if isinstance(e, ast.Attribute) and not is_self_attr(e) and not is_name(e.value, "np"):
            v = self.pure(e.value, env)
            if e.attr == "size" and isinstance(v.ty, tuple) and v.ty[0] == "ndarray":
                return Val(NAT, f"(length {v.term})")
            if e.attr == "T" and v.ty == NDARR:
                return Val(NDARR, f"(np_T {v.term})")
            rej(e, f"attribute .{e.attr} of a value of type {v.ty!r}")
        if isinstance(e, ast.Name) and e.id == FUEL:
            rej(e, f"the name {FUEL} is reserved")
        return super().expr(e, env)

    def compare(self, e, env):
        # a < b < c: c is only evaluated when a < b holds, so it must not raise / change the object
        for x in e.comparators[1:]:
            self.sub_frame_empty(lambda: self.pure(x, env), x, "a later operand of a comparison chain")
        return super().compare(e, env)

    def boolop(self, e, values, env, first):
        x = values[0]
        is_and = isinstance(e.op, ast.And)
        if is_name(x) and env.get(x.id) == T_opt(UNKNOWN):
            self.learned = True                 # the type of the optional local is learned later in this pass
            env = dict(env)
            env[x.id] = T_opt(NAT)
        if is_name(x) and env.get(x.id) == T_opt(NAT):
            if len(values) == 1:
                rej(e, "an int-or-None value as the last operand of and/or")
            if is_and:
                env2 = dict(env)
                env2[x.id] = NAT
                rest = self.boolop(e, values[1:], env2, False)
                return f"(py_and_optnat {ident(x.id)} (fun {ident(x.id)} => {rest}))"
            rest = self.boolop(e, values[1:], env, False)
            return f"(py_or_optnat {ident(x.id)} {rest})"
        if first:
            v = self.pure(x, env)               # always evaluated: it may raise (hoisted in front of the statement)
        else:
            v = self.sub_frame_empty(lambda: self.pure(x, env), x, "a later operand of and/or")
        if v.ty != BOOL:
            rej(x, f"operand of and/or has type {v.ty!r}, not bool")
        if len(values) == 1:
            return v.term
        rest = self.boolop(e, values[1:], env, False)
        return f"({v.term} {'&&' if is_and else '||'} {rest})"

    def listcomp(self, e, env):
        if len(e.generators) != 1 or e.generators[0].is_async:
            rej(e, "only list comprehensions with one `for` are accepted")
        g = e.generators[0]
        it = self.pure(g.iter, env)
        if it.ty == NDIDX:
            it = self.hoist("bind", f"(np_iter {it.term})", T_ndarray(NAT), e)
        if not is_seq(it.ty):
            rej(e, f"comprehension over a value of type {it.ty!r}")
        elt = it.ty[1]
        tgt = g.target
        inner = dict(env)
        if is_name(tgt):
            names = [tgt.id]
            inner[tgt.id] = elt
            pat, unpack = f"({ident(tgt.id)} : {ctype(elt)})", ""
        elif isinstance(tgt, ast.Tuple) and all(is_name(x) for x in tgt.elts) and isinstance(elt, tuple) \
                and elt[0] == "tuple" and len(elt[1]) == len(tgt.elts):
            names = [x.id for x in tgt.elts]
            for x, t in zip(tgt.elts, elt[1]):
                inner[x.id] = t
            pat = f"(k_ : {ctype(elt)})"
            unpack = "let '(" + ", ".join(ident(n) for n in names) + ") := k_ in "
        else:
            rej(e, "comprehension target is not a name or a tuple of names matching the element type")
        if len(set(names)) != len(names) or "self" in names or FUEL in names or "k_" in names:
            rej(e, "comprehension variable")
        src = it.term
        for c in g.ifs:
            cv = self.sub_frame_empty(lambda: self.pure(c, inner), c, "the filter of a comprehension")
            if cv.ty != BOOL:
                rej(c, "comprehension filter that is not a bool")
            src = f"(filter (fun {pat} => {unpack}{cv.term}) {src})"
        self.frames.append([])
        v = self.settle(self.pure(e.elt, inner), e)
        fr = self.frames.pop()
        if v.ty in (OPAQUE, NONE) or v.term is None:
            rej(e, "comprehension element without a value type")
        calls = [h for h in fr if h[0] == "call"]
        if not fr:
            return Val(T_list(v.ty), f"(map (fun {pat} => {unpack}{v.term}) {src})")
        if calls:
            if len(calls) > 1:
                rej(e, "two calls that change the object in one comprehension element")
            inside = {id(x) for x in ast.walk(calls[0][3])}
            for sub in ast.walk(e.elt):
                if is_self_attr(sub) and isinstance(sub.ctx, ast.Load) and id(sub) not in inside:
                    rej(sub, "an attribute is read next to a call that changes the object")
            body = self.wrap(fr, f"Ok (self, {v.term})")
            term = f"(py_mapM (fun self {pat} => {unpack}{body}) {src} self)"
            return self.hoist("call", term, T_list(v.ty), e)
        body = self.wrap(fr, f"Ok {v.term}")
        return self.hoist("bind", f"(py_mapE (fun {pat} => {unpack}{body}) {src})", T_list(v.ty), e)

    def binop(self, e, env):
        if isinstance(e.op, ast.Add):
            a = self.pure(e.left, env)
            if isinstance(a.ty, tuple) and a.ty[0] == "list":
                b = self.pure(e.right, env)
                if not (b.ty == EMPTYLIST or (isinstance(b.ty, tuple) and b.ty[0] == "list")):
                    rej(e, f"list + value of type {b.ty!r}")
                if has_unknown(a.ty):
                    rej(e, "concatenation with a list whose element type is not determined yet")
                return Val(a.ty, f"(py_list_concat {a.term} {self.coerce(b, a.ty, e)})")
            if a.ty in E.NUM_RANK or a.ty == OPAQUE:
                return super().binop(e, env)        # numbers: operands are pure, evaluating them again is harmless
            rej(e, f"+ on a value of type {a.ty!r}")
        return super().binop(e, env)

    def subscript(self, e, env):
        if is_self_attr(e.value):
            return super().subscript(e, env)
        if isinstance(e.slice, ast.Slice):
            s = e.slice
            v = self.pure(e.value, env)
            k = const_int(s.lower) if s.lower is not None else None
            if not is_seq(v.ty) or s.upper is not None or s.step is not None or k is None or k < 0:
                rej(e, "only slices l[k:] with a constant k >= 0 on a list / array are accepted")
            return Val(v.ty, f"(py_slice_from {k}%nat {v.term})")
        if is_name(e.value) and e.value.id in env and is_seq(env[e.value.id]):
            return super().subscript(e, env)            # l[k] on a local list: hoisted py_list_item / py_list_getitem_z
        v = self.pure(e.value, env)
        k = const_int(e.slice)
        if v.ty == NZ1:
            if k != 0:
                rej(e, "the result of np.nonzero may only be subscripted with 0")
            return Val(T_ndarray(NAT), f"(fst {v.term})")
        tty = v.ty[1] if is_opt_tuple(v.ty) else v.ty
        if isinstance(tty, tuple) and tty[0] == "tuple":
            if k is None or not 0 <= k < len(tty[1]):
                rej(e, "a tuple may only be indexed with a constant position inside it")
            if v.term is None:
                rej(e, "index into a tuple display with undetermined constants")
            t = self.hoist("bind", f"(py_tuple_of {v.term})", tty, e) if is_opt_tuple(v.ty) else v
            return Val(tty[1][k], self.tuple_proj(t.term, len(tty[1]), k))
        rej(e, f"subscript of a value of type {v.ty!r}")

    def call(self, e, env):
        f = e.func
        if is_self_attr(f):
            if e.keywords or any(isinstance(a, ast.Starred) for a in e.args):
                rej(e, "keyword / star arguments are not accepted")
            info = self.ext.get(f.attr)
            if info is None:
                rej(e, f"self.{f.attr}() is not a generated method of the enumeration package")
            if len(e.args) != len(info.param_types):
                rej(e, f"self.{f.attr}() called with {len(e.args)} arguments")
            args = "".join(" " + self.coerce(self.pure(a, env), t, e) for a, t in zip(e.args, info.param_types))
            vty = self.ext_value_type(info)
            if info.pure and not info.raising:
                return Val(vty, f"(gen_{f.attr} self{args})")
            if info.pure:
                rej(e, f"self.{f.attr}(): a raising method that does not change the object is not modelled")
            comb = "py_call_mr" if info.raising else "py_call_m"
            return self.hoist("call", f"({comb} (gen_{f.attr} self{args}))", vty, e)
        if isinstance(f, ast.Attribute) and f.attr in MUTATORS:
            rej(e, f".{f.attr}() is only accepted in the statement forms `x.append(e)`, `x[k].append(e)`, `y = x.pop(k)`")
        return E.Translator.call(self, e, env)

    # ------------------------------------------------------------------ statements
    def join_vars(self, stmts, env):
        svars = ["self"]
        for n in mutated_names(stmts):
            if n in env and env[n] != OPAQUE:
                svars.append(n)
        return svars

    def bind_local(self, name, ty, node, env):
        if name in (FUEL, "k_", "t_"):
            rej(node, f"local name {name} collides with the translator's own names")
        ctx = self.cur_ctx or {}
        if name in env and env[name] != ty and not has_unknown(ty) and not has_unknown(env[name]) \
                and env[name] != OPAQUE and ty not in (NONE, OPAQUE, LIT, EMPTYLIST, None) \
                and ctx.get("kind") == "fn" and not ctx.get("in_loop") and name not in self.loop_targets \
                and name not in self.optional:
            # re-assignment with a value of another type, at function level: a new `let` shadows the old one
            # (the name itself was checked when it was bound the first time)
            env2 = dict(env)
            env2[name] = ty
            return env2
        return super().bind_local(name, ty, node, env)

    def block(self, stmts, env, ctx):
        saved = self.cur_ctx
        self.cur_ctx = ctx
        try:
            body = [s for s in stmts if not self.ignorable(s)]
            if body:
                st, rest = body[0], body[1:]
                if isinstance(st, ast.While):
                    return self.while_stmt(st, rest, env, ctx)
                if isinstance(st, ast.Return) and isinstance(st.value, ast.List) and not st.value.elts:
                    if rest:
                        rej(rest[0], "statement after return")
                    if ctx["kind"] != "fn":
                        rej(st, "return inside a loop or inside a branch that is joined is not accepted")
                    self.returns_empty = True
                    return "Ok (self, [])"
            return super().block(stmts, env, ctx)
        finally:
            self.cur_ctx = saved

    def assign(self, target, value, st, rest, env, ctx):
        # y = l.pop(k) on a local list
        if isinstance(value, ast.Call) and isinstance(value.func, ast.Attribute) and value.func.attr == "pop":
            recv = value.func.value
            if not (is_name(target) and is_name(recv) and recv.id in env and isinstance(env[recv.id], tuple)
                    and env[recv.id][0] == "list" and not value.keywords and len(value.args) <= 1
                    and target.id != recv.id):
                rej(st, ".pop is only accepted as `y = l.pop(k)` on a local list")
            lty = env[recv.id]
            if has_unknown(lty):
                rej(st, "pop from a list whose element type is not determined yet")
            if target.id in self.optional:
                rej(st, f"{target.id} is an optional local")

            def ev():
                if value.args:
                    k = self.pure(value.args[0], env)
                    if k.ty not in (NAT, LIT, ZT):
                        rej(st, f"list index of type {k.ty!r}")
                    kz = self.coerce(k, ZT, st)
                else:
                    kz = "(-1)%Z"
                return self.hoist("bind", f"(py_list_pop {ident(recv.id)} {kz})", T_tuple(lty[1], lty), st)
            v, fr = self.with_frame(list(value.args), ev)
            env2 = self.bind_local(target.id, lty[1], st, env)
            return self.wrap(fr, f"let '({ident(target.id)}, {ident(recv.id)}) := {v.term} in\n" + self.block(rest, env2, ctx))
        if is_name(target) and target.id in self.optional:
            name = target.id
            if name in self.loop_targets:
                rej(st, f"assignment to the loop variable {name}")
            key = (self.cur.name, name)
            if is_none(value):
                inner = self.hints.get(key, UNKNOWN)
                env2 = SC.ConsTranslator.bind_local(self, name, T_opt(inner), st, env)
                return f"let {ident(name)} : {ctype(T_opt(inner))} := None in\n" + self.block(rest, env2, ctx)
            self.alias_guard(value, env, st)
            v, fr = self.with_frame([value], lambda: self.settle(self.expr(value, env), st))
            if v.ty in (OPAQUE, NONE) or v.term is None or (isinstance(v.ty, tuple) and v.ty[0] == "option"):
                rej(st, f"value assigned to the optional local {name}")
            if self.hints.get(key) is None:
                self.hints[key] = v.ty
                self.learned = True
            elif self.hints[key] != v.ty:
                rej(st, f"optional local {name} is assigned values of different types")
            env2 = SC.ConsTranslator.bind_local(self, name, T_opt(v.ty), st, env)
            return self.wrap(fr, f"let {ident(name)} := Some {v.term} in\n" + self.block(rest, env2, ctx))
        # a local that is another name of a mutable attribute and is changed in place (`x = self.a; x += [..]`)
        if is_name(target) and is_self_attr(value) and changed_in_place(self.cur.node, target.id):
            f = self.spec.fields.get(value.attr)
            if f is None or f.ty not in (NAT, ZT, BOOL):
                rej(st, f"{target.id} is another name of self.{value.attr} and is changed in place afterwards")
        return super().assign(target, value, st, rest, env, ctx)

    def expr_stmt(self, st, rest, env, ctx):
        v = st.value
        if isinstance(v, ast.Call) and isinstance(v.func, ast.Attribute) and v.func.attr == "append" \
                and len(v.args) == 1 and not v.keywords:
            recv, arg = v.func.value, v.args[0]
            empty = isinstance(arg, ast.List) and not arg.elts
            # l.append([]) : a new inner list
            if empty and is_name(recv) and recv.id in env and isinstance(env[recv.id], tuple) and env[recv.id][0] == "list":
                ety = env[recv.id][1]
                if ety == UNKNOWN:
                    self.hints[(self.cur.name, recv.id)] = T_list(UNKNOWN)
                    self.learned = True
                elif not (isinstance(ety, tuple) and ety[0] == "list"):
                    rej(st, f"[] appended to a list of {ety!r}")
                return f"let {ident(recv.id)} := py_append {ident(recv.id)} [] in\n" + self.block(rest, env, ctx)
            # l[k].append(e) : the inner list at position k grows (inner lists are never aliased, see alias_guard)
            if isinstance(recv, ast.Subscript) and is_name(recv.value) and recv.value.id in env \
                    and isinstance(env[recv.value.id], tuple) and env[recv.value.id][0] == "list" \
                    and not isinstance(recv.slice, ast.Slice):
                name = recv.value.id
                oty = env[name]
                if not (isinstance(oty[1], tuple) and oty[1][0] == "list"):
                    if oty[1] == UNKNOWN:
                        rej(st, f"{name}[k].append: the type of {name} is not determined yet")
                    rej(st, f"{name}[k].append on a list of {oty[1]!r}")
                self.alias_guard(arg, env, st)
                learned = {}

                def ev():
                    k = self.pure(recv.slice, env)
                    if k.ty not in (NAT, LIT, ZT):
                        rej(st, f"list index of type {k.ty!r}")
                    kz = self.coerce(k, ZT, st)
                    inner = self.hoist("bind", f"(py_list_getitem_z {ident(name)} {kz})", oty[1], st)
                    x = self.settle(self.pure(arg, env), st)
                    if x.ty in (OPAQUE, NONE) or x.term is None:
                        rej(st, "appended value without a value type")
                    if oty[1][1] == UNKNOWN:
                        learned["ty"] = x.ty
                        xt = x.term
                    else:
                        xt = self.coerce(x, oty[1][1], st)
                    return self.hoist("bind", f"(py_list_setitem_z {ident(name)} {kz} (py_append {inner.term} {xt}))", oty, st)
                val, fr = self.with_frame([recv.slice, arg], ev)
                if "ty" in learned and not has_unknown(learned["ty"]):
                    self.hints[(self.cur.name, name)] = T_list(learned["ty"])
                    self.learned = True
                return self.wrap(fr, f"let {ident(name)} := {val.term} in\n" + self.block(rest, env, ctx))
        return super().expr_stmt(st, rest, env, ctx)

    def iterated_local(self, it_node, env):
        """The local list a loop iterates over (directly or through enumerate), or None."""
        if is_name(it_node) and it_node.id in env:
            return it_node.id
        if isinstance(it_node, ast.Call) and is_name(it_node.func, "enumerate") and len(it_node.args) == 1 \
                and is_name(it_node.args[0]) and it_node.args[0].id in env:
            return it_node.args[0].id
        return None

    def break_after_change(self, block, name):
        """Every statement that changes / re-binds the iterated list is followed, in its block, only by plain
        assignments and a final `break` (so the iterator of the enclosing `for` is never advanced again)."""
        for k, st in enumerate(block):
            if isinstance(st, ast.If):
                self.break_after_change(st.body, name)
                self.break_after_change(st.orelse, name)
            elif isinstance(st, (ast.For, ast.While, ast.Try)):
                if name in mutated_names([st]):
                    rej(st, f"the iterated list {name} is changed inside a nested loop")
            elif stmt_mutates(st, name):
                tail = [s for s in block[k + 1:] if not self.ignorable(s)]
                if not tail or not isinstance(tail[-1], ast.Break):
                    rej(st, f"the loop iterates over {name} and changes it without leaving the loop at once")
                for s in tail[:-1]:
                    if not isinstance(s, ast.Assign) or stmt_mutates(s, name):
                        rej(s, f"only plain assignments are accepted between a change of the iterated list {name} and `break`")
                return

    def loop_defs(self, st, env, svars, names, types, elem_param, unpack):
        """Emit the lifted body of a loop; returns the application `gen_<m>_body<k> fuel free..`."""
        self.body_counter += 1
        k = self.body_counter
        bname = f"gen_{self.cur.name}_body{k}"
        inner_env = dict(env)
        for n, t in zip(names, types):
            inner_env[n] = t
        free = [n for n in env if n in E.loaded_names(st.body) and n not in svars and env[n] != OPAQUE]
        saved = self.loop_targets
        self.loop_targets = saved | set(names)
        body = self.block(st.body, inner_env, {"kind": "loop", "svars": svars})
        self.loop_targets = saved
        sty = self.state_type(svars, env)
        params = "".join(f" ({ident(n)} : {ctype(env[n])})" for n in free)
        unpack_state = f"let {self.fun_pat(svars)} := st in\n"
        what = "for" if isinstance(st, ast.For) else "while"
        self.out.append(f"(* body of the `{what}` loop at line {st.lineno} of {self.cur.name} *)\n"
                        f"Definition {bname}{self.fuel_param()}{params}{elem_param} (st : {sty}) : result (ctl * {sty}) :=\n"
                        + indent(unpack_state + unpack + body) + ".\n")
        return k, sty, " ".join([bname + self.fuel_arg()] + [ident(n) for n in free])

    def for_stmt(self, st, rest, env, ctx):
        if st.orelse:
            rej(st, "for ... else is not accepted")
        it, fr = self.with_frame([st.iter], lambda: self.pure(st.iter, env))
        if any(h[0] == "call" for h in fr):
            rej(st, "a call that changes the object in the iterable of a loop")
        if isinstance(it.ty, tuple) and it.ty[0] == "dict":
            it = Val(T_list(KEY), f"(py_dict_keys {it.term})")
        if it.ty == NDIDX:
            self.frames.append(fr)
            it = self.hoist("bind", f"(np_iter {it.term})", T_ndarray(NAT), st)
            fr = self.frames.pop()
        if not is_seq(it.ty):
            rej(st, f"iteration over a value of type {it.ty!r}")
        local = self.iterated_local(st.iter, env)
        if local is not None:
            self.break_after_change(st.body, local)
        elt = it.ty[1]
        tgt = st.target
        if is_name(tgt):
            names, types = [tgt.id], [elt]
            elem_param, unpack = f" ({ident(tgt.id)} : {ctype(elt)})", ""
        elif isinstance(tgt, ast.Tuple) and all(is_name(x) for x in tgt.elts) and isinstance(elt, tuple) \
                and elt[0] == "tuple" and len(elt[1]) == len(tgt.elts):
            names, types = [x.id for x in tgt.elts], list(elt[1])
            elem_param = f" (k_ : {ctype(elt)})"
            unpack = "let '(" + ", ".join(ident(n) for n in names) + ") := k_ in\n"
        else:
            rej(st, "loop target is not a name or a tuple of names matching the element type")
        if len(set(names)) != len(names):
            rej(st, "repeated loop variable")
        mutated = mutated_names(st.body)
        for n in names:
            if n in env or n in ("self", "k_", FUEL):
                rej(st, f"loop variable {n} is already bound in the enclosing scope")
            if n in mutated:
                rej(st, f"loop variable {n} is assigned in the loop body")
        # an attribute the loop iterates over must not be changed by the body
        read_attrs = {x.attr for x in ast.walk(st.iter) if is_self_attr(x)}
        if read_attrs:
            for sub in ast.walk(ast.Module(body=st.body, type_ignores=[])):
                if isinstance(sub, (ast.Assign, ast.AugAssign)):
                    for t in (sub.targets if isinstance(sub, ast.Assign) else [sub.target]):
                        if any(is_self_attr(x) for x in ast.walk(t)):
                            rej(sub, "the loop body assigns an attribute while the loop iterates over one")
                if isinstance(sub, ast.Call) and is_self_attr(sub.func) and not (
                        sub.func.attr in self.ext and self.ext[sub.func.attr].pure):
                    rej(sub, "the loop body calls a method that changes the object while the loop iterates over an attribute")
                if isinstance(sub, ast.Call) and isinstance(sub.func, ast.Attribute) and is_self_attr(sub.func.value) \
                        and sub.func.attr in MUTATORS:
                    rej(sub, "the loop body changes an attribute in place while the loop iterates over one")
        svars = self.join_vars(st.body, env)
        _, _, call = self.loop_defs(st, env, svars, names, types, elem_param, unpack)
        text = (f"py_bind (py_forE ({call}) {it.term} {self.state_pat(svars)})\n(fun {self.fun_pat(svars)} =>\n"
                + self.block(rest, env, ctx) + ")")
        return self.wrap(fr, text)

    def while_stmt(self, st, rest, env, ctx):
        if st.orelse:
            rej(st, "while ... else is not accepted")
        if ctx["kind"] == "join":
            rej(st, "a loop inside a branch that is joined is not accepted")
        if not self.uses_fuel:
            rej(st, "internal: while loop in a method without fuel")
        svars = self.join_vars(st.body, env)
        # the condition: evaluated on the loop state before every iteration
        c, fr = self.with_frame([st.test], lambda: self.cond(st.test, env))
        if any(h[0] == "call" for h in fr):
            rej(st, "a call that changes the object in the condition of a while loop")
        k, sty, call = self.loop_defs(st, env, svars, [], [], "", "")
        cname = f"gen_{self.cur.name}_cond{k}"
        cfree = [n for n in env if n in E.loaded_names([st.test]) and n not in svars and env[n] != OPAQUE]
        cparams = "".join(f" ({ident(n)} : {ctype(env[n])})" for n in cfree)
        self.out.append(f"(* condition of the `while` loop at line {st.lineno} of {self.cur.name} *)\n"
                        f"Definition {cname}{cparams} (st : {sty}) : result bool :=\n"
                        + indent(f"let {self.fun_pat(svars)} := st in\n" + self.wrap(fr, f"Ok {c}")) + ".\n")
        ccall = " ".join([cname] + [ident(n) for n in cfree])
        return (f"py_bind (py_whileE {FUEL} ({ccall}) ({call}) {self.state_pat(svars)})\n(fun {self.fun_pat(svars)} =>\n"
                + self.block(rest, env, ctx) + ")")

    # ------------------------------------------------------------------ one method
    def function(self, name):
        info = self.fns[name]
        self.cur = info
        self.body_counter = 0
        self.loop_targets = frozenset()
        self.returns_empty = False
        fn = info.node
        self.uses_fuel = any(isinstance(s, ast.While) for s in ast.walk(fn))
        for sub in ast.walk(fn):
            if isinstance(sub, (ast.Lambda, ast.FunctionDef, ast.AsyncFunctionDef, ast.ClassDef, ast.Global, ast.Nonlocal,
                                ast.NamedExpr, ast.Yield, ast.YieldFrom, ast.Await, ast.Delete, ast.With, ast.Try,
                                ast.Raise, ast.Import, ast.ImportFrom)) and sub is not fn:
                rej(sub, f"{type(sub).__name__} is not accepted")
            if isinstance(sub, ast.Name) and sub.id in (FUEL, "k_", "t_"):
                rej(sub, f"the name {sub.id} is reserved")
        flagged = maybe_unbound(fn)
        if flagged:
            rej(fn, f"local {flagged[0]} is read where it may be unbound")
        self.optional = none_assigned(fn)
        env = {}
        for a, t in zip(fn.args.args[1:], info.param_types):
            if a.arg in self.optional:
                rej(fn, f"parameter {a.arg} is assigned None")
            env[a.arg] = t
        body = self.block(fn.body, env, {"kind": "fn"})
        if info.has_value and info.ret_type is None:
            rej(fn, f"{name}: could not determine the type of the returned value")
        if self.returns_empty and not (isinstance(info.ret_type, tuple) and info.ret_type[0] == "list"):
            rej(fn, f"{name} returns [] on one path and a value that is not a list on another")
        base = ctype(info.ret_type) if info.has_value else "unit"
        sty = self.spec.state_type
        params = "".join(f" ({ident(a.arg)} : {ctype(t)})" for a, t in zip(fn.args.args[1:], info.param_types))
        self.out.append(f"(* {self.spec.class_name}.{name}, line {fn.lineno} *)\n"
                        f"Definition gen_{name}{self.fuel_param()} (self : {sty}){params} : result ({sty} * {base}) :=\n"
                        + indent(body) + ".\n")


# ------------------------------------------------------------------------------------------- driver
def check_module(tree):
    """`np` must be numpy; the builtins the printer gives a fixed meaning must not be rebound at module level."""
    fixed = ("len", "range", "max", "min", "any", "all", "int", "dict", "enumerate", "np", "logger")
    np_ok = False
    for n in tree.body:
        if isinstance(n, ast.Import):
            for a in n.names:
                bound = a.asname or a.name
                if bound == "np":
                    if a.name != "numpy":
                        raise Rejected(f"line {n.lineno}: np is not numpy")
                    np_ok = True
                elif bound in fixed:
                    raise Rejected(f"line {n.lineno}: {bound} is rebound by an import")
        elif isinstance(n, ast.ImportFrom):
            for a in n.names:
                if (a.asname or a.name) in fixed:
                    raise Rejected(f"line {n.lineno}: {a.asname or a.name} is imported from somewhere")
        elif isinstance(n, (ast.FunctionDef, ast.AsyncFunctionDef, ast.ClassDef)):
            if n.name in fixed:
                raise Rejected(f"line {n.lineno}: {n.name} is redefined at module level")
        elif isinstance(n, (ast.Assign, ast.AugAssign, ast.AnnAssign)):
            for sub in ast.walk(n):
                if isinstance(sub, ast.Name) and isinstance(sub.ctx, ast.Store) and sub.id in fixed and sub.id != "logger":
                    raise Rejected(f"line {n.lineno}: {sub.id} is rebound at module level")
    if not np_ok:
        raise Rejected("the module does not `import numpy as np`")


def external_infos(src, base_spec, names):
    """FnInfo (purity, raising, value shape, parameter types) of the generated enumeration methods, from a run
    of the enumeration printer on the same source."""
    cls = E.find_class(src, base_spec.class_name)
    tr = E.Translator(base_spec, cls)
    for name in tr.collect():
        tr.function(name)
    missing = [n for n in names if n not in tr.fns]
    if missing:
        raise Rejected(f"enumeration methods {missing} are not generated")
    return {n: tr.fns[n] for n in names}


def ro(fields, keep):
    """The attributes of the enumeration package, read-only."""
    return {k: Field(f.ty, f.getter, None, item=f.item) for k, f in fields.items() if k in keep}


ARC_FIELDS = ro(TA.FIELDS, ("nodes", "arcs", "time_points", "var_mapping", "num_variables", "variables_enumerated"))
ARC_EXT = ("enumerate_variables", "get_num_variables", "get_var_index", "get_var_tuple_index", "check_arc",
           "check_node_time_compat")
ARC_SPEC = ClassSpec("ArcBasedRoutingProblem", "astate", ARC_FIELDS, dict(TA.OBJ_METHODS),
                     OrderedDict([("get_routes", [T_ndarray(ZT)])]), extra_calls=EXTRA)
ARC_HEADER = """(* GENERATED by harness/translate_arcroutes.py (printer: translate_routes.py) from
   routing_problem/formulations/arc_based_rp.py of the tree under test.  Do not edit: the file is rewritten on
   every run of `bin/check C05`. *)
From VQ Require Import Base Vrptw Arc PyEnumCore PyArc PyRoutes.
From VQG Require Import ArcGen.
"""

SEQ_FIELDS = ro(SQ.FIELDS, ("max_sequence_length", "max_vehicles", "vehicle_cost", "num_variables", "variables_enumerated",
                            "var_mapping", "fixed_values", "nodes", "arcs"))
SEQ_EXT = ("enumerate_variables", "get_num_variables", "get_var_index", "get_var_tuple_index", "check_arc")
SEQ_OBJ = {(TDICT, "items"): (T_list(T_tuple(TUP, ZT)), "(py_items {r})")}
SEQ_SPEC = ClassSpec("SequenceBasedRoutingProblem", "qstate", SEQ_FIELDS, SEQ_OBJ,
                     OrderedDict([("get_routes", [T_ndarray(ZT)])]), extra_calls=EXTRA)
SEQ_HEADER = """(* GENERATED by harness/translate_seqroutes.py (printer: translate_routes.py) from
   routing_problem/formulations/sequence_based_rp.py of the tree under test.  Do not edit: the file is
   rewritten on every run of `bin/check C07`. *)
From VQ Require Import Base Vrptw Seq PyEnumCore PySeq PyRoutes.
From VQG Require Import SeqGen.
"""


def translate_routes(src, spec, base_spec, ext_names, header):
    try:
        tree = ast.parse(src)
    except SyntaxError as ex:
        raise Rejected(f"syntax error: {ex}")
    check_module(tree)
    ext = external_infos(src, base_spec, ext_names)
    cls = E.find_class(src, spec.class_name)
    hints = {}
    last = None
    for _ in range(12):
        tr = RoutesTranslator(spec, cls, ext, hints)
        try:
            for name in tr.collect():
                tr.function(name)
        except Rejected as ex:
            if tr.learned and str(ex) != last:
                last = str(ex)          # a type was learned in this pass: translate again with it
                continue
            raise
        if tr.learned:
            continue
        text = header + "\n" + "\n".join(tr.out)
        probe = text.replace("(self, _)", "").replace("(@Some _)", "")
        if " _ " in probe or ": _)" in probe or "(list _)" in probe or "(option _)" in probe:
            raise Rejected("a local list / optional local whose type could not be determined")
        return text
    raise Rejected("type inference of the locals did not settle")


def translate_arc_source(src):
    return OrderedDict([("ArcGen.v", TA.translate_source(src)),
                        ("ArcRoutesGen.v", translate_routes(src, ARC_SPEC, TA.SPEC, ARC_EXT, ARC_HEADER))])


def translate_seq_source(src):
    return OrderedDict([("SeqGen.v", SQ.translate_source(src)),
                        ("SeqRoutesGen.v", translate_routes(src, SEQ_SPEC, SQ.SPEC, SEQ_EXT, SEQ_HEADER))])


if __name__ == "__main__":
    import sys
    which, path = sys.argv[1], sys.argv[2]
    out = (translate_arc_source if which == "arc" else translate_seq_source)(open(path).read())
    if len(sys.argv) > 3:
        for k, v in out.items():
            with open(os.path.join(sys.argv[3], k), "w") as fh:
                fh.write(v if v.endswith("\n") else v + "\n")
    else:
        print(list(out.values())[-1])
