"""translate_aliasflow.py -- prints the reference-flow skeleton of the graph / formulation / MIRP classes  [C16]

For EVERY class, method and module-level function of the files in FILES (working tree under test,
`core.REPO`) the translator walks the `ast` and prints

  * one statement skeleton (`PyAlias.astmt` list) per function body: assignments to locals, attribute /
    item assignments, augmented assignments, `del`, expression statements, `if` (with the SHAPE of the test:
    `x is None`, `x is not None`, bare truthiness, `not ..`, anything else), loops, `try`, `return`,
    nested functions; with every expression printed as a `PyAlias.aexp`: self, a name, `e.a`, `e[k]`, a call of a
    name `f(..)`, a method call `e.m(..)`, `super().m(..)`, a display / comprehension / operator result (a NEW
    object with the listed parts), `a if c else b`, `lambda`;
  * per class: its bases and the class-body assignments with the kind of the assigned value (immutable literal,
    list / dict / set display or comprehension, call, other);
  * per file: what every imported name stands for (`from copy import deepcopy` -> ("deepcopy", "copy", "deepcopy")).

The translator knows NOTHING about which attribute holds the graph, which containers a graph has, which
methods mutate, which functions copy, which calls are constructors, what a property forwards to or what is an
acceptable flow: it prints names.  Resolution of names and locals (a flow analysis), the classification of writes
against `Store.v`, the discipline and its decision procedure are Coq definitions (coq/theories/PyAlias.v);
coq/genprops/C16_gen.v proves the discipline for the printed table.

Rejected (fail closed): decorators other than `@property`; class keywords / non-name bases; nested classes;
`global` / `nonlocal`; `with`; `match`; `async`; `yield`; walrus; `import` inside a function; star imports;
`getattr / setattr / delattr / eval / exec / vars / globals / locals / __import__ / compile`; `__setattr__` /
`__globals__` / `__closure__` ... access; a method without `self`; `*args` / `**kwargs` parameters; for / while-else;
try-finally; two definitions of one name in one scope; a local / parameter that shadows an imported name, a class
or a function of the translated files.
"""
import ast
import os
from collections import OrderedDict

from vq import core

FILES = [
    "src/vrpqubo/routing_problem/vrptw.py",
    "src/vrpqubo/routing_problem/routing_problem.py",
    "src/vrpqubo/routing_problem/formulations/arc_based_rp.py",
    "src/vrpqubo/routing_problem/formulations/sequence_based_rp.py",
    "src/vrpqubo/routing_problem/formulations/path_based_rp.py",
    "src/vrpqubo/applications/mirp.py",
]
FORBIDDEN_FUNCS = {"getattr", "setattr", "delattr", "eval", "exec", "__import__", "globals", "locals", "vars",
                   "compile", "import_module", "reload", "object"}
FORBIDDEN_ATTRS = {"__setattr__", "__getattribute__", "__slots__", "__globals__",
                   "__closure__", "__code__", "__self__", "__func__"}


class Rejected(Exception):
    pass


_NAMES = OrderedDict()      # string -> Coq identifier (each string is defined once: small terms)


def _s(x):
    if x not in _NAMES:
        ident = "n_" + "".join(ch if (ch.isalnum() and ch.isascii()) else "_" for ch in x)
        while ident in _NAMES.values():
            ident += "'"
        _NAMES[x] = ident
    return _NAMES[x]


def _lit(x):
    return '"' + x.replace('"', '""') + '"'


def _lst(items):
    return "[" + "; ".join(items) + "]"


class Fn:
    """translation of one function body"""

    def __init__(self, where, self_name, global_names):
        self.where = where
        self.self_name = self_name          # "self" in a method, else None
        self.global_names = global_names    # imported names, classes and functions of the translated files
        self.depth = 0                      # > 0 inside a nested function / lambda

    def err(self, node, msg):
        raise Rejected(f"{self.where} line {getattr(node, 'lineno', '?')}: {msg}")

    def bind(self, node, name):
        if name in self.global_names:
            self.err(node, f"local `{name}` shadows an imported name / class / function")
        if name == self.self_name:
            self.err(node, "`self` is re-bound")
        return _s(name)

    # ---------------- expressions ----------------
    def exprs(self, es):
        return _lst([self.expr(e) for e in es])

    def expr(self, e):
        if isinstance(e, ast.Constant):
            return "XAtom"
        if isinstance(e, ast.Name):
            if self.self_name is not None and e.id == self.self_name:
                return "XSelf"
            return f"(XVar {_s(e.id)})"
        if isinstance(e, ast.Attribute):
            if e.attr in FORBIDDEN_ATTRS:
                self.err(e, f"access to {e.attr}")
            return f"(XAttr {self.expr(e.value)} {_s(e.attr)})"
        if isinstance(e, ast.Subscript):
            if isinstance(e.slice, ast.Slice) or (isinstance(e.slice, ast.Tuple) and
                                                  any(isinstance(x, ast.Slice) for x in e.slice.elts)):
                return f"(XSlice {self.expr(e.value)} {self.exprs(self.slice_parts(e.slice))})"
            return f"(XItem {self.expr(e.value)} {self.expr(e.slice)})"
        if isinstance(e, ast.Call):
            return self.call(e)
        if isinstance(e, (ast.List, ast.Tuple, ast.Set)):
            return f"(XNew {self.exprs([x.value if isinstance(x, ast.Starred) else x for x in e.elts])})"
        if isinstance(e, ast.Dict):
            parts = [k for k in e.keys if k is not None] + list(e.values)
            return f"(XNew {self.exprs(parts)})"
        if isinstance(e, (ast.BinOp,)):
            # `+` and `*` also concatenate / repeat sequences: the result holds the operands' elements
            k = "XCat" if isinstance(e.op, (ast.Add, ast.Mult)) else "XOp"
            return f"({k} {self.exprs([e.left, e.right])})"
        if isinstance(e, ast.UnaryOp):
            return f"(XOp {self.exprs([e.operand])})"
        if isinstance(e, ast.Compare):
            return f"(XOp {self.exprs([e.left] + list(e.comparators))})"
        if isinstance(e, ast.BoolOp):
            return f"(XJoin {self.exprs(e.values)})"            # `a or b` IS one of its operands
        if isinstance(e, ast.IfExp):
            return f"(XIf {self.test(e.test)} {self.expr(e.body)} {self.expr(e.orelse)})"
        if isinstance(e, ast.JoinedStr):
            return f"(XOp {self.exprs([v.value for v in e.values if isinstance(v, ast.FormattedValue)])})"
        if isinstance(e, ast.FormattedValue):
            return f"(XOp {self.exprs([e.value])})"
        if isinstance(e, ast.Lambda):
            ps = self.params(e.args, False)
            self.depth += 1
            body = self.expr(e.body)
            self.depth -= 1
            return f"(XLambda {_lst(ps)} {self.exprs(self.defaults(e.args))} {body})"
        if isinstance(e, (ast.ListComp, ast.SetComp, ast.GeneratorExp, ast.DictComp)):
            elts = [e.key, e.value] if isinstance(e, ast.DictComp) else [e.elt]
            gens = []
            for g in e.generators:
                if g.is_async:
                    self.err(e, "async comprehension")
                names = [self.bind(n, n.id) for n in ast.walk(g.target) if isinstance(n, ast.Name)]
                self.check_target_shape(g.target)
                gens.append(f"({_lst(names)}, {self.expr(g.iter)}, {self.exprs(g.ifs)})")
            return f"(XComp {_lst(gens)} {self.exprs(elts)})"
        if isinstance(e, ast.Starred):
            return self.expr(e.value)
        self.err(e, f"expression {type(e).__name__}")

    def slice_parts(self, sl):
        out = []
        for x in ([sl] if not isinstance(sl, ast.Tuple) else sl.elts):
            if isinstance(x, ast.Slice):
                out += [y for y in (x.lower, x.upper, x.step) if y is not None]
            else:
                out.append(x)
        return out

    def check_target_shape(self, t):
        """comprehension / for targets: names, possibly in nested tuples"""
        if isinstance(t, ast.Name):
            return
        if isinstance(t, (ast.Tuple, ast.List)):
            for x in t.elts:
                self.check_target_shape(x.value if isinstance(x, ast.Starred) else x)
            return
        self.err(t, f"loop target {type(t).__name__}")

    def call(self, e):
        args = [a.value if isinstance(a, ast.Starred) else a for a in e.args] + [k.value for k in e.keywords]
        nargs = len(e.args)
        starred = any(isinstance(a, ast.Starred) for a in e.args) or any(k.arg is None for k in e.keywords)
        # positional arity matters for the callee's parameter positions: keywords are printed with their names
        kws = _lst([("None" if k.arg is None else f"(Some {_s(k.arg)})") for k in e.keywords])
        shape = f"(mkShape {nargs} {kws} {'true' if starred else 'false'})"
        f = e.func
        if isinstance(f, ast.Name):
            if f.id in FORBIDDEN_FUNCS:
                self.err(e, f"{f.id}(..)")
            if self.self_name is not None and f.id == self.self_name:
                self.err(e, "self(..)")
            return f"(XCall {_s(f.id)} {shape} {self.exprs(args)})"
        if isinstance(f, ast.Attribute):
            if f.attr in FORBIDDEN_ATTRS:
                self.err(e, f"access to {f.attr}")
            v = f.value
            if isinstance(v, ast.Call) and isinstance(v.func, ast.Name) and v.func.id == "super":
                if v.args or v.keywords or self.self_name is None or self.depth > 0:
                    self.err(e, "super(..) with arguments / outside a method body")
                return f"(XSuper {_s(f.attr)} {shape} {self.exprs(args)})"
            return f"(XMeth {self.expr(v)} {_s(f.attr)} {shape} {self.exprs(args)})"
        return f"(XCallE {self.expr(f)} {self.exprs(args)})"

    def test(self, t):
        if isinstance(t, ast.UnaryOp) and isinstance(t.op, ast.Not):
            return f"(TNot {self.test(t.operand)})"
        if (isinstance(t, ast.Compare) and len(t.ops) == 1 and isinstance(t.comparators[0], ast.Constant)
                and t.comparators[0].value is None and isinstance(t.ops[0], (ast.Is, ast.IsNot))):
            return f"({'TIsNone' if isinstance(t.ops[0], ast.Is) else 'TIsNotNone'} {self.expr(t.left)})"
        if isinstance(t, (ast.Compare, ast.BoolOp, ast.BinOp, ast.Constant, ast.IfExp)):
            return f"(TOther {self.expr(t)})"
        return f"(TTruthy {self.expr(t)})"

    # ---------------- parameters ----------------
    def params(self, a, method):
        if a.vararg is not None or a.kwarg is not None:
            raise Rejected(f"{self.where}: *args / **kwargs parameter")
        names = [x.arg for x in a.posonlyargs + a.args + a.kwonlyargs]
        if method:
            if not names or names[0] != "self":
                raise Rejected(f"{self.where}: method without `self` as first parameter")
            names = names[1:]
        if len(set(names)) != len(names):
            raise Rejected(f"{self.where}: duplicate parameter")
        return [self.bind(a, n) for n in names]

    def defaults(self, a):
        return list(a.defaults) + [k for k in a.kw_defaults if k is not None]

    # ---------------- statements ----------------
    def block(self, stmts):
        return _lst([x for s in stmts for x in self.stmt(s)])

    def assign(self, t, v, node):
        """statements for `t = <v>` where v is already printed"""
        if isinstance(t, ast.Name):
            return [f"SAssign {self.bind(t, t.id)} {v}"]
        if isinstance(t, ast.Attribute):
            if t.attr in FORBIDDEN_ATTRS:
                self.err(t, f"assignment to {t.attr}")
            return [f"SSetAttr {self.expr(t.value)} {_s(t.attr)} {v}"]
        if isinstance(t, ast.Subscript):
            return [f"SSetItem {self.expr(t.value)} {self.exprs(self.slice_parts(t.slice))} {v}"]
        if isinstance(t, (ast.Tuple, ast.List)):
            out = []
            for x in t.elts:
                out += self.assign(x.value if isinstance(x, ast.Starred) else x, f"(XItem {v} XAtom)", node)
            return out
        self.err(node, f"assignment target {type(t).__name__}")

    def stmt(self, s):
        if isinstance(s, ast.Expr):
            if isinstance(s.value, ast.Constant):
                return []                                   # docstring
            return [f"SExpr {self.expr(s.value)}"]
        if isinstance(s, ast.Assign):
            v = self.expr(s.value)
            return [x for t in s.targets for x in self.assign(t, v, s)]
        if isinstance(s, ast.AnnAssign):
            if s.value is None:
                return []
            return self.assign(s.target, self.expr(s.value), s)
        if isinstance(s, ast.AugAssign):
            t, v = s.target, self.expr(s.value)
            if isinstance(t, ast.Name):
                return [f"SAugName {self.bind(t, t.id)} {v}"]
            if isinstance(t, ast.Attribute):
                return [f"SAugAttr {self.expr(t.value)} {_s(t.attr)} {v}"]
            if isinstance(t, ast.Subscript):
                return [f"SAugItem {self.expr(t.value)} {self.exprs(self.slice_parts(t.slice))} {v}"]
            self.err(s, "augmented assignment target")
        if isinstance(s, ast.Delete):
            out = []
            for t in s.targets:
                if isinstance(t, ast.Name):
                    out.append(f"SDelName {self.bind(t, t.id)}")
                elif isinstance(t, ast.Attribute):
                    out.append(f"SDelAttr {self.expr(t.value)} {_s(t.attr)}")
                elif isinstance(t, ast.Subscript):
                    out.append(f"SDelItem {self.expr(t.value)} {self.exprs(self.slice_parts(t.slice))}")
                else:
                    self.err(s, "del target")
            return out
        if isinstance(s, ast.Pass):
            return []
        if isinstance(s, ast.Return):
            return [f"SReturn {self.expr(s.value) if s.value is not None else 'XAtom'}"]
        if isinstance(s, ast.Raise):
            return [f"SRaise {self.exprs([x for x in (s.exc, s.cause) if x is not None])}"]
        if isinstance(s, ast.Assert):
            return [f"SExpr {self.expr(s.test)}"] + ([f"SExpr {self.expr(s.msg)}"] if s.msg is not None else [])
        if isinstance(s, ast.Break):
            return ["SBreak"]
        if isinstance(s, ast.Continue):
            return ["SContinue"]
        if isinstance(s, ast.If):
            return [f"SIf {self.test(s.test)} {self.block(s.body)} {self.block(s.orelse)}"]
        if isinstance(s, ast.For):
            if s.orelse:
                self.err(s, "for-else")
            self.check_target_shape(s.target)
            names = [self.bind(n, n.id) for n in ast.walk(s.target) if isinstance(n, ast.Name)]
            return [f"SFor {_lst(names)} {self.expr(s.iter)} {self.block(s.body)}"]
        if isinstance(s, ast.While):
            if s.orelse:
                self.err(s, "while-else")
            return [f"SWhile {self.test(s.test)} {self.block(s.body)}"]
        if isinstance(s, ast.Try):
            if s.finalbody:
                self.err(s, "try-finally")
            hs = []
            for h in s.handlers:
                pre = [f"SExpr {self.expr(h.type)}"] if h.type is not None else []
                if h.name is not None:
                    pre.append(f"SAssign {self.bind(h, h.name)} (XCallE XAtom [])")   # the exception object: unknown
                hs.append(_lst(pre + [x for st in h.body for x in self.stmt(st)]))
            return [f"STry {self.block(s.body)} {_lst(hs)} {self.block(s.orelse)}"]
        if isinstance(s, ast.FunctionDef):
            if s.decorator_list:
                self.err(s, "decorated nested function")
            ps = self.params(s.args, False)
            dfl = self.exprs(self.defaults(s.args))
            self.depth += 1
            body = self.block(s.body)
            self.depth -= 1
            return [f"SDef {self.bind(s, s.name)} {_lst(ps)} {dfl} {body}"]
        self.err(s, f"statement {type(s).__name__}")


def _value_kind(v):
    """kind of a class-body / module-level assigned value"""
    if isinstance(v, ast.Constant):
        return "VImmutable"
    if isinstance(v, ast.Tuple) and all(_value_kind(x) == "VImmutable" for x in v.elts):
        return "VImmutable"
    if isinstance(v, ast.UnaryOp) and isinstance(v.operand, ast.Constant):
        return "VImmutable"
    if isinstance(v, (ast.List, ast.Dict, ast.Set, ast.ListComp, ast.DictComp, ast.SetComp)):
        return "VDisplay"
    if isinstance(v, ast.Call):
        f = v.func
        name = f.id if isinstance(f, ast.Name) else (f.attr if isinstance(f, ast.Attribute) else "")
        return f"(VCall {_s(name)})"
    return "VOther"


# ---------------- modules, classes, table ----------------
def _imports(node, path, out):
    if isinstance(node, ast.Import):
        for a in node.names:
            local = a.asname or a.name.split(".")[0]
            out.append((path, local, a.name, ""))
    else:
        mod = "." * node.level + (node.module or "")
        for a in node.names:
            if a.name == "*":
                raise Rejected(f"{path} line {node.lineno}: star import")
            out.append((path, a.asname or a.name, mod, a.name))


def _collect_globals(trees):
    """per file: imported names and module-level variables of THAT file; plus the classes / functions of all files"""
    shared = {n.name for _, tree in trees for n in tree.body if isinstance(n, (ast.FunctionDef, ast.ClassDef))}
    return {path: shared | _file_globals(path, tree) for path, tree in trees}


def _file_globals(path, tree):
    names = set()
    if True:
        for n in tree.body:
            if isinstance(n, (ast.Import, ast.ImportFrom, ast.Try)):
                tmp = []
                for x in (n.body if isinstance(n, ast.Try) else [n]):
                    if isinstance(x, (ast.Import, ast.ImportFrom)):
                        _imports(x, path, tmp)
                names |= {t[1] for t in tmp}
            elif isinstance(n, (ast.FunctionDef, ast.ClassDef)):
                names.add(n.name)
            elif isinstance(n, (ast.Assign, ast.AnnAssign, ast.AugAssign)):
                for t in (n.targets if isinstance(n, ast.Assign) else [n.target]):
                    names |= {x.id for x in ast.walk(t) if isinstance(x, ast.Name)}
    return names


def _fn_row(path, cls, fdef, kind, global_names):
    where = f"{path}:{cls + '.' if cls else ''}{fdef.name}"
    fn = Fn(where, "self" if cls else None, global_names)
    ps = fn.params(fdef.args, bool(cls))
    dfl = fn.exprs(fn.defaults(fdef.args))
    body = fn.block(fdef.body)
    return (f"  mkFn {_s(path)} {_s(cls)} {_s(fdef.name)} {kind} {_lst(ps)}\n    {dfl}\n    {body}")


def _class(path, cdef, global_names, classes, rows):
    cname = cdef.name
    bases = []
    for b in cdef.bases:
        if not isinstance(b, ast.Name):
            raise Rejected(f"{path}: class {cname}: base class expression")
        bases.append(b.id)
    if cdef.keywords:
        raise Rejected(f"{path}: class {cname}: metaclass / class keywords")
    if cdef.decorator_list:
        raise Rejected(f"{path}: class {cname}: class decorator")
    attrs, meths, seen = [], [], set()
    for n in cdef.body:
        if isinstance(n, ast.FunctionDef):
            kind = "FMethod"
            for d in n.decorator_list:
                if isinstance(d, ast.Name) and d.id == "property":
                    kind = "FProperty"
                else:
                    raise Rejected(f"{path}: {cname}.{n.name}: decorator")
            if n.name in seen:
                raise Rejected(f"{path}: {cname}.{n.name} defined twice")
            seen.add(n.name)
            meths.append(_fn_row(path, cname, n, kind, global_names))
        elif isinstance(n, ast.Expr) and isinstance(n.value, ast.Constant):
            continue                                        # docstring
        elif isinstance(n, ast.Pass):
            continue
        elif isinstance(n, (ast.Assign, ast.AnnAssign)):
            if isinstance(n, ast.AnnAssign) and n.value is None:
                continue                                    # bare annotation: no object is created
            for t in (n.targets if isinstance(n, ast.Assign) else [n.target]):
                if not isinstance(t, ast.Name):
                    raise Rejected(f"{path}: class {cname}: class-body assignment target")
                if t.id in seen:
                    raise Rejected(f"{path}: {cname}.{t.id} defined twice")
                seen.add(t.id)
                attrs.append(f"({_s(t.id)}, {_value_kind(n.value)})")
        else:
            raise Rejected(f"{path}: class {cname}: {type(n).__name__} in class body")
    rows.append((cname, meths))
    classes.append(f"  mkCls {_s(path)} {_s(cname)} {_lst([_s(b) for b in bases])} {_lst(attrs)} gen_methods_{cname}")


def translate():
    _NAMES.clear()
    _s("")
    trees = []
    for path in FILES:
        trees.append((path, ast.parse(open(os.path.join(core.REPO, path)).read())))
    global_names = _collect_globals(trees)
    funs, classes, rows, imports, globs = [], [], [], [], []
    cnames, fnames = [], []
    for path, tree in trees:
        for n in tree.body:
            if isinstance(n, (ast.Import, ast.ImportFrom)):
                _imports(n, path, imports)
            elif isinstance(n, ast.FunctionDef):
                if n.decorator_list:
                    raise Rejected(f"{path}: decorated function {n.name}")
                fnames.append((path, n.name))
                funs.append(_fn_row(path, "", n, "FFunction", global_names[path]))
            elif isinstance(n, ast.ClassDef):
                cnames.append(n.name)
                _class(path, n, global_names[path], classes, rows)
            elif isinstance(n, ast.Expr) and isinstance(n.value, ast.Constant):
                continue
            elif isinstance(n, (ast.Assign, ast.AnnAssign)) and getattr(n, "value", None) is not None:
                for t in (n.targets if isinstance(n, ast.Assign) else [n.target]):
                    if not isinstance(t, ast.Name):
                        raise Rejected(f"{path} line {n.lineno}: module-level assignment target")
                    globs.append(f"  ({_s(path)}, {_s(t.id)}, {_value_kind(n.value)})")
            elif (isinstance(n, ast.Try) and all(isinstance(x, (ast.Import, ast.ImportFrom)) for x in n.body)
                  and all(all(isinstance(x, ast.Pass) for x in h.body) for h in n.handlers)
                  and not n.orelse and not n.finalbody):
                for x in n.body:                            # optional import (cplex)
                    _imports(x, path, imports)
            else:
                raise Rejected(f"{path} line {n.lineno}: module-level {type(n).__name__}")
    if len(set(cnames)) != len(cnames) or len(set(fnames)) != len(fnames):
        raise Rejected("two classes / functions of the same name")
    if set(cnames) & {n for _, n in fnames}:
        raise Rejected("a class and a function of the same name")
    body = ["Definition gen_funs : list afn := [", ";\n".join(funs), "].", ""]
    for c, meths in rows:
        body += [f"Definition gen_methods_{c} : list afn := [", ";\n".join(meths), "].", ""]
    body += ["Definition gen_classes : list acls := [", ";\n".join(classes), "].", ""]
    body += ["Definition gen_imports : list (string * string * string * string) := [",
             ";\n".join(f"  ({_s(p)}, {_s(l)}, {_s(m)}, {_s(o)})" for p, l, m, o in imports), "].", ""]
    body += ["Definition gen_globals : list (string * string * vkind) := [", ";\n".join(globs), "].", ""]
    body.append("Definition generated_table : atable := mkAT gen_funs gen_classes gen_imports gen_globals.")
    head = ["(* AliasGen.v -- GENERATED by harness/translate_aliasflow.py from the working tree; do not edit *)",
            "From Coq Require Import String List.",
            "From VQ Require Import PyAlias.",
            "Import ListNotations.",
            "Local Open Scope string_scope.", "",
            "(* file, class, function, attribute, parameter and local names *)"]
    head += [f"Definition {ident} : string := {_lit(x)}." for x, ident in _NAMES.items()]
    return OrderedDict([("AliasGen.v", "\n".join(head + [""] + body) + "\n")])


if __name__ == "__main__":
    import sys
    sys.stdout.write(translate()["AliasGen.v"])
