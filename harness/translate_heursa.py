"""translate_heursa.py -- fail-closed translator of the feasibility heuristics of the sequence-based and
the arc-based formulation into Gallina.  [C09; package key `heursa` (sequence) / `heursa_arc` (arc)]

    SequenceBasedRoutingProblem.make_feasible, reset_build_flags     -> coq/gen/HeurSeqGen.v
    ArcBasedRoutingProblem.make_feasible, check_and_add_exit_arc      -> coq/gen/HeurArcGen.v

The methods they call are NOT re-modelled here: the generated files import the models that the packages
`seqenum` / `arcenum` / `vrptw` generate from the same tree (check_arc, enumerate_variables, get_var_index,
get_arrival_time; add_arc, estimate_max_vehicles).  Because coq/gen is shared between concurrently
running checks, translate_seq() / translate_arc() regenerate those models under names of their own
(HsSeqEnumGen.v, HsVrptwGen.v, HaArcEnumGen.v, HaVrptwGen.v) and re-check the equality proofs of those
packages against the copies (Hs*_eq.v / Ha*_eq.v: the text of coq/genprops/C18_seq_gen.v, C18_arc_gen.v,
C15_gen.v with the import line redirected), so that coq/genprops/C09_gen.v and C09_arc_gen.v can use
their theorems about exactly the definitions the generated heuristics call.

The printer is a PRINTER.  The expression layer is translate_enumcore.Translator (operators and constants
from the ast node, operand types decide nat / Z / ext versions); this file adds the statement layer
in the exception monad (coq/theories/PyHeur.v):

  accepted statements (everything else -> Rejected with the line number)
    x = e | a, b = e            let / let '(a, b); e may raise (subscript of a list attribute, narrowing of a
                                float to a finite number) -> py_bind; e may be a call of a method that changes
                                the object -> py_bind ... (fun '(self, x) => ...); `x = None` / `x = []` get their
                                type from the first later assignment / append (two passes)
    self.a = e | self.a += e    record update
    self.m(...)                 a translated or imported method, as a statement
    self.a.append(e)            record update with py_append
    l.append(e) | l.remove(e) | l.sort(key=lambda n: k) | l[k] = v      on a local list / 1-d array
    if / elif / else            `if c then .. else ..`; a branch without break/continue/return is joined by
                                py_bind; `x is None` / `x is not None` on a local that may be None -> match,
                                the local has its value type in the branch where it is not None
    for x in l | range(..)      py_forM (generated body, lambda lifted) with break / continue
    while b  (b a bool local)   py_whileM fuel_ ... (fuel_ becomes the first parameter of the method)
    raise C(...) | assert c, m  Err C | if c then .. else Err AssertionError
    return (bare)               Ok (self, tt)
    docstrings, pass, logger.<level>(...) without calls in the arguments are dropped
"""
import ast
import os
import re
from collections import OrderedDict

import translate_enumcore as EC
from translate_enumcore import (ARC, BOOL, EMPTYLIST, ERRCLS, EXT, LIT, NAT, NODE, NONE, OPAQUE, UNIT, ZT,  # noqa: F401
                                ClassSpec, Field, Rejected, T_dict, T_list, T_ndarray, T_tuple, Val, ident, indent,
                                is_name, is_none, is_self_attr, is_seq, rej)


# ------------------------------------------------------------------------------------------------ types
class Cell:
    """A type that the first use determines (element type of `x = []`, value type of `x = None`)."""
    def __init__(self, key):
        self.key, self.ty = key, None

    def __repr__(self):
        return f"Cell({self.key}, {self.ty!r})"


def T_option(t):
    return ("option", t)


def norm(t):
    if isinstance(t, Cell):
        return norm(t.ty) if t.ty is not None else t
    if isinstance(t, tuple) and len(t) == 2:
        if t[0] == "tuple":
            return ("tuple", tuple(norm(x) for x in t[1]))
        if t[0] in ("list", "ndarray", "option", "dict"):
            return (t[0], norm(t[1]))
    return t


def has_cell(t):
    t = norm(t)
    if isinstance(t, Cell):
        return True
    if isinstance(t, tuple) and len(t) == 2:
        if t[0] == "tuple":
            return any(has_cell(x) for x in t[1])
        if t[0] in ("list", "ndarray", "option", "dict"):
            return has_cell(t[1])
    return False


def ctype(t):
    t = norm(t)
    if has_cell(t):
        return "_"                       # first pass only; the second pass knows every type
    return EC.coq_type(t)


def ltb_of(t, node):
    if t == NAT:
        return "Nat.ltb"
    if t == ZT:
        return "Z.ltb"
    if t == EXT:
        return "ext_ltb"
    rej(node, f"no order on sort keys of type {t!r}")


MUTATORS = ("append", "remove", "sort", "insert", "pop", "extend", "clear", "reverse")


class Ext:
    """A method translated by another package.  template: Coq term with {self} and {args}."""
    def __init__(self, ptypes, ret, pure, template):
        self.ptypes, self.ret, self.pure, self.template = ptypes, ret, pure, template


class HSpec(ClassSpec):
    def __init__(self, class_name, state_type, fields, obj_methods, signatures, externals):
        super().__init__(class_name, state_type, fields, obj_methods, signatures)
        self.externals = externals


# ------------------------------------------------------------------------------------- ast predicates
def fstring_ok(e):
    """A message: constants and f-strings over names / attributes / subscripts (no calls)."""
    for sub in ast.walk(e):
        if isinstance(sub, (ast.Call, ast.Lambda, ast.NamedExpr, ast.Await, ast.Yield, ast.YieldFrom)):
            return False
    return True


def stmt_children(st):
    if isinstance(st, ast.If):
        return [st.body, st.orelse]
    if isinstance(st, (ast.For, ast.While)):
        return [st.body, st.orelse]
    if isinstance(st, ast.Try):
        return [st.body] + [h.body for h in st.handlers] + [st.orelse, st.finalbody]
    return []


def local_mutation(st):
    """name of the local that the statement mutates through a method call / item assignment, or None"""
    if isinstance(st, ast.Expr) and isinstance(st.value, ast.Call) and isinstance(st.value.func, ast.Attribute) \
            and is_name(st.value.func.value) and st.value.func.value.id != "self" and st.value.func.attr in MUTATORS:
        return st.value.func.value.id
    if isinstance(st, (ast.Assign, ast.AugAssign)):
        for t in (st.targets if isinstance(st, ast.Assign) else [st.target]):
            if isinstance(t, ast.Subscript) and is_name(t.value) and t.value.id != "self":
                return t.value.id
    return None


def changed_names(stmts):
    """locals assigned or mutated anywhere in the block, in order of first occurrence"""
    out = []

    def add(n):
        if n not in out:
            out.append(n)

    def walk(block):
        for st in block:
            if isinstance(st, ast.Assign):
                for t in st.targets:
                    if isinstance(t, (ast.Name, ast.Tuple, ast.List)):
                        for sub in ast.walk(t):
                            if isinstance(sub, ast.Name) and isinstance(sub.ctx, ast.Store):
                                add(sub.id)
            elif isinstance(st, ast.AugAssign) and is_name(st.target):
                add(st.target.id)
            m = local_mutation(st)
            if m is not None:
                add(m)
            for b in stmt_children(st):
                walk(b)
    walk(stmts)
    return out


def has_ctl_exit(stmts):
    """a return / break / continue that belongs to the enclosing loop or function"""
    for st in stmts:
        if isinstance(st, (ast.Return, ast.Continue, ast.Break)):
            return True
        if isinstance(st, ast.If) and (has_ctl_exit(st.body) or has_ctl_exit(st.orelse)):
            return True
        if isinstance(st, ast.Try):
            return True
        if isinstance(st, (ast.For, ast.While)):
            for sub in ast.walk(st):
                if isinstance(sub, ast.Return):
                    return True
    return False


def always_leaves(stmts):
    """every path through the block ends in break / return / raise (not continue)"""
    body = [s for s in stmts if not EC.ignorable(s)]
    if not body:
        return False
    last = body[-1]
    if isinstance(last, (ast.Return, ast.Break, ast.Raise)):
        return True
    if isinstance(last, ast.If) and last.orelse:
        return always_leaves(last.body) and always_leaves(last.orelse)
    return False


def mutation_leaves(stmts, name):
    """every mutation of local `name` in the block is followed, in its own block, by leaving the loop"""
    for k, st in enumerate(stmts):
        if local_mutation(st) == name or (isinstance(st, (ast.Assign, ast.AugAssign)) and name in changed_names([st])):
            if not always_leaves(stmts[k + 1:]):
                return False
        for b in stmt_children(st):
            if not mutation_leaves(b, name):
                return False
    return True


# ------------------------------------------------------------------------------------------ translator
class HTranslator(EC.Translator):
    def __init__(self, spec, class_node, hints):
        super().__init__(spec, class_node)
        self.hints = hints              # (method, line, column) of `x = []` / `x = None` -> type (from the first pass)
        self.cells = []
        self.pending = None
        self.tmp = 0
        self.no_hoist = 0
        self.refined = frozenset()
        self.loop_targets = frozenset()

    # ------------------------------------------------------------------ set-up
    def collect(self):
        spec = self.spec
        seen = {}
        for n in self.cls.body:
            if isinstance(n, ast.FunctionDef):
                if n.name in seen:
                    rej(n, f"method {n.name} is defined twice")
                seen[n.name] = n
        for name, ptypes in spec.signatures.items():
            if name not in seen:
                raise Rejected(f"{spec.class_name}.{name} not found")
            fn = seen[name]
            a = fn.args
            if fn.decorator_list or a.vararg or a.kwarg or a.kwonlyargs or a.posonlyargs:
                rej(fn, f"{name}: decorators / star / keyword-only parameters are not accepted")
            names = [x.arg for x in a.args]
            if not names or names[0] != "self" or len(names) != len(ptypes) + 1 or len(set(names)) != len(names):
                rej(fn, f"{name}: parameters {names}, expected self + {len(ptypes)}")
            info = EC.FnInfo(name, fn, ptypes)
            info.defaults = []
            for d in a.defaults:
                if not (isinstance(d, ast.Constant) and type(d.value) is int):
                    rej(fn, f"{name}: default value that is not an integer constant")
                info.defaults.append(d.value)
            self.fns[name] = info
        for x in spec.externals:
            if x in self.fns:
                raise Rejected(f"{x} is both translated and imported")
        calls = {}
        for name, info in self.fns.items():
            cs = []
            for sub in ast.walk(info.node):
                if isinstance(sub, ast.Call) and is_self_attr(sub.func):
                    if sub.func.attr in self.fns:
                        cs.append((sub.func.attr, sub))
                    elif sub.func.attr not in spec.externals:
                        rej(sub, f"{name} calls self.{sub.func.attr}(), which is neither translated nor imported")
                if isinstance(sub, (ast.FunctionDef, ast.AsyncFunctionDef, ast.ClassDef)) and sub is not info.node:
                    rej(sub, "nested definitions are not accepted")
                if isinstance(sub, (ast.Global, ast.Nonlocal, ast.Delete, ast.With, ast.Import, ast.ImportFrom, ast.Try)):
                    rej(sub, f"statement {type(sub).__name__} is not accepted")
            calls[name] = cs
        order, state = [], {}

        def visit(n, via):
            if state.get(n) == "done":
                return
            if state.get(n) == "open":
                rej(via, f"recursive call cycle through {n}")
            state[n] = "open"
            for callee, node in calls[n]:
                visit(callee, node)
            state[n] = "done"
            order.append(n)
        for n in self.fns:
            visit(n, self.fns[n].node)
        for n in order:
            info = self.fns[n]
            info.pure = not self.mutates_self(info.node.body)
            info.fuel = any(isinstance(s, ast.While) for s in ast.walk(info.node)) or any(self.fns[c].fuel for c, _ in calls[n])
            for r in ast.walk(info.node):
                if isinstance(r, ast.Return) and not is_none(r.value):
                    rej(r, "a method that returns a value is not accepted here")
            info.ret_type, info.coq_ret = UNIT, f"result ({spec.state_type} * unit)"
        return order

    def mutates_self(self, stmts):
        for sub in ast.walk(ast.Module(body=list(stmts), type_ignores=[])):
            if isinstance(sub, (ast.Assign, ast.AugAssign)):
                for t in (sub.targets if isinstance(sub, ast.Assign) else [sub.target]):
                    for x in ast.walk(t):
                        if is_self_attr(x):
                            return True
            if isinstance(sub, ast.Call) and isinstance(sub.func, ast.Attribute):
                if is_self_attr(sub.func.value) and sub.func.attr in MUTATORS:
                    return True
                if is_self_attr(sub.func):
                    m = sub.func.attr
                    if m in self.fns:
                        if self.fns[m].pure is None or not self.fns[m].pure:
                            return True
                    elif m in self.spec.externals and not self.spec.externals[m].pure:
                        return True
        return False

    # ------------------------------------------------------------------ expressions
    def hoist(self, v, node):
        if self.pending is None or self.no_hoist:
            rej(node, "an expression that may raise stands where it cannot be evaluated before the statement")
        self.tmp += 1
        name = f"h{self.tmp}_"
        self.pending.append((name, v.term))
        return Val(v.ty, name)

    def pure(self, e, env):
        v = self.expr(e, env)
        if v.raising:
            v = self.hoist(v, e)
        return v

    def expr(self, e, env):
        if isinstance(e, ast.Name) and e.id != "self" and e.id in env:
            ty = norm(env[e.id])
            if ty == OPAQUE:
                return Val(OPAQUE)
            return Val(ty, ident(e.id))
        if isinstance(e, ast.Call) and is_self_attr(e.func):
            name = e.func.attr
            x = self.spec.externals.get(name)
            if x is None or not x.pure:
                rej(e, f"self.{name}() changes the object or may raise: only accepted as a statement or as a whole right-hand side")
            return Val(x.ret, self.ext_term(x, e, env))
        if isinstance(e, ast.Call) and is_name(e.func, "list") and "list" not in env and len(e.args) == 1 and not e.keywords:
            v = self.pure(e.args[0], env)
            if not is_seq(v.ty):
                rej(e, f"list() of a value of type {v.ty!r}")
            return Val(T_list(v.ty[1]), v.term)          # a copy: values are immutable in the model
        if isinstance(e, (ast.BoolOp, ast.IfExp)):
            self.no_hoist += 1
            try:
                return super().expr(e, env)
            finally:
                self.no_hoist -= 1
        v = super().expr(e, env)
        if v.ty is not None:
            v.ty = norm(v.ty)
        return v

    def coerce(self, v, ty, node):
        ty = norm(ty)
        vt = norm(v.ty)
        if v.raising:
            v = self.hoist(v, node)
        if vt == EXT and ty == ZT:
            return self.hoist(Val(ZT, f"(py_finite {v.term})", raising=True), node).term
        if isinstance(ty, tuple) and ty[0] == "option":
            if vt == NONE:
                return "None"
            if vt == ty:
                return v.term
            return f"(Some {self.coerce(v, ty[1], node)})"
        if isinstance(vt, tuple) and vt[0] == "option":
            rej(node, "a value that may be None is used where a value is required")
        return super().coerce(Val(vt, v.term, v.lit, v.elts), ty, node)

    def call_args(self, e, ptypes, env, defaults=()):
        if e.keywords:
            rej(e, "keyword arguments are not accepted")
        vals = []
        for a in e.args:
            if isinstance(a, ast.Starred):
                v = self.pure(a.value, env)
                if not (isinstance(v.ty, tuple) and v.ty[0] == "tuple" and v.term is not None):
                    rej(e, "* applied to something that is not a tuple-valued local")
                n = len(v.ty[1])
                for k in range(n):
                    vals.append(Val(v.ty[1][k], self.tuple_proj(v.term, n, k)))
            else:
                vals.append(self.pure(a, env))
        missing = len(ptypes) - len(vals)
        if missing < 0 or missing > len(defaults):
            rej(e, f"call with {len(vals)} arguments, expected {len(ptypes)}")
        if missing:
            vals += [Val(LIT, lit=d) for d in defaults[len(defaults) - missing:]]
        return [self.coerce(v, t, e) for v, t in zip(vals, ptypes)]

    def ext_term(self, x, e, env):
        args = self.call_args(e, x.ptypes, env)
        return "(" + x.template.format(self="self", args=" ".join(args)).strip() + ")"

    def method_term(self, info, e, env):
        args = self.call_args(e, info.param_types, env, info.defaults)
        return "(" + " ".join([f"gen_{info.name}"] + (["fuel_"] if info.fuel else []) + ["self"] + args) + ")"

    # ------------------------------------------------------------------ statements: helpers
    def with_pending(self, f):
        saved, self.pending = self.pending, []
        try:
            r = f()
            p = self.pending
        finally:
            self.pending = saved

        def wrap(text):
            for name, term in reversed(p):
                text = f"py_bind {term} (fun {name} =>\n{text})"
            return text
        return r, wrap, p

    def state_pat(self, svars):
        if not svars:
            return "Datatypes.tt"
        return super().state_pat(svars)

    def fun_pat(self, svars):
        if not svars:
            return "_"
        p = super().state_pat(svars)
        return p if len(svars) == 1 else "'" + p

    def state_type(self, svars, env):
        if not svars:
            return "unit"
        ts = [self.spec.state_type if n == "self" else ctype(env[n]) for n in svars]
        return ts[0] if len(ts) == 1 else "(" + " * ".join(ts) + ")"

    def unpack_state(self, svars):
        if not svars:
            return ""
        pat = super().state_pat(svars)
        if pat == "st":
            return ""
        return f"let {pat} := st in\n" if len(svars) == 1 else f"let '{pat} := st in\n"

    def bind(self, term, svars_pat, rest):
        return f"py_bind {term} (fun {svars_pat} =>\n{rest})"

    def finish(self, env, ctx):
        kind = ctx["kind"]
        if kind == "fn":
            return "Ok (self, Datatypes.tt)"
        if kind == "loop":
            return f"Ok (CNext, {self.state_pat(ctx['svars'])})"
        return f"Ok {self.state_pat(ctx['svars'])}"

    def state_vars(self, stmts, env):
        svars = ["self"] if self.mutates_self(stmts) else []
        for n in changed_names(stmts):
            if n in env and norm(env[n]) != OPAQUE:
                if n in self.refined:
                    rej(stmts[0], f"{n} is assigned in a branch where it is known not to be None")
                svars.append(n)
        return svars

    def bind_local(self, name, ty, node, env):
        if name in self.refined:
            rej(node, f"assignment to {name} in a branch where it is known not to be None")
        if re.fullmatch(r"h\d+_|fuel_", name):
            rej(node, f"the name {name} is reserved")
        ty = norm(ty)
        if name in env and norm(env[name]) != ty:
            rej(node, f"local {name} changes its type from {norm(env[name])!r} to {ty!r}")
        if name == "self" or name in self.loop_targets:
            rej(node, f"assignment to {name}")
        if ty in (NONE, OPAQUE, LIT, EMPTYLIST, None):
            rej(node, f"local {name} has no value type")
        env2 = dict(env)
        env2[name] = ty
        return env2

    def new_cell(self, st):
        key = (self.cur.name, st.lineno, st.col_offset)
        if key in self.hints:
            return self.hints[key]
        c = Cell(key)
        self.cells.append(c)
        return c

    # ------------------------------------------------------------------ statements
    def block(self, stmts, env, ctx):
        stmts = [s for s in stmts if not EC.ignorable_checked(s)]
        if not stmts:
            return self.finish(env, ctx)
        st, rest = stmts[0], stmts[1:]
        if isinstance(st, ast.Return):
            if rest:
                rej(rest[0], "statement after return")
            if ctx["kind"] != "fn" or not is_none(st.value):
                rej(st, "only a bare `return` outside loops and joined branches is accepted")
            return self.finish(env, ctx)
        if isinstance(st, (ast.Continue, ast.Break)):
            if rest:
                rej(rest[0], "statement after continue/break")
            if ctx["kind"] != "loop":
                rej(st, "continue/break outside a translated loop body (or inside a joined branch)")
            flag = "CNext" if isinstance(st, ast.Continue) else "CBreak"
            return f"Ok ({flag}, {self.state_pat(ctx['svars'])})"
        if isinstance(st, ast.Raise):
            if rest:
                rej(rest[0], "statement after raise")
            return f"Err {self.exc_class(st)}"
        if isinstance(st, ast.Assert):
            if st.msg is not None and not fstring_ok(st.msg):
                rej(st, "assert message with a call")
            tst, wrap, _ = self.with_pending(lambda: self.test(st.test, env))
            if tst[0] != "bool":
                rej(st, "assert on `is None`")
            return wrap(f"if {tst[1]} then\n{indent(self.block(rest, env, ctx))}\nelse Err AssertionError")
        if isinstance(st, ast.Assign):
            if len(st.targets) != 1:
                rej(st, "chained assignment")
            return self.assign(st.targets[0], st.value, st, rest, env, ctx)
        if isinstance(st, ast.AugAssign):
            if type(st.op) not in EC.ARITH or not (is_name(st.target) or is_self_attr(st.target)):
                rej(st, "augmented assignment of this form")
            load = ast.copy_location(ast.fix_missing_locations(EC._as_load(st.target)), st)
            value = ast.copy_location(ast.BinOp(left=load, op=st.op, right=st.value), st)
            ast.fix_missing_locations(value)
            return self.assign(st.target, value, st, rest, env, ctx)
        if isinstance(st, ast.Expr):
            return self.expr_stmt(st, rest, env, ctx)
        if isinstance(st, ast.If):
            return self.if_stmt(st, rest, env, ctx)
        if isinstance(st, ast.For):
            return self.for_stmt(st, rest, env, ctx)
        if isinstance(st, ast.While):
            return self.while_stmt(st, rest, env, ctx)
        rej(st, f"statement {type(st).__name__} is not accepted")

    def exc_class(self, st):
        if st.cause is not None or st.exc is None:
            rej(st, "raise ... from / bare raise")
        x = st.exc
        if isinstance(x, ast.Call):
            if x.keywords or not all(fstring_ok(a) for a in x.args):
                rej(st, "exception arguments with a call")
            x = x.func
        if not (is_name(x) and x.id in ERRCLS):
            rej(st, "raise of something that is not one of the modelled exception classes")
        return x.id

    def self_call(self, value):
        """(kind, info/ext) when the expression is a call self.m(...) of a translated / imported method"""
        if isinstance(value, ast.Call) and is_self_attr(value.func):
            m = value.func.attr
            if m in self.fns:
                return "method", self.fns[m]
            if m in self.spec.externals:
                return "ext", self.spec.externals[m]
            rej(value, f"self.{m}() is neither translated nor imported")
        return None, None

    def assign(self, target, value, st, rest, env, ctx):
        spec = self.spec
        kind, callee = self.self_call(value)
        if kind == "method" or (kind == "ext" and not callee.pure):
            if kind == "method":
                rej(st, "the translated methods return nothing: their result cannot be assigned")
            if not is_name(target):
                rej(st, "the result of a method that changes the object must be assigned to a plain local")
            term, wrap, _ = self.with_pending(lambda: self.ext_term(callee, value, env))
            env2 = self.bind_local(target.id, callee.ret, st, env)
            return wrap(self.bind(term, f"'(self, {ident(target.id)})", self.block(rest, env2, ctx)))
        if is_name(target):
            name = target.id
            if isinstance(value, ast.List) and not value.elts and name not in env:
                env2 = self.bind_local(name, T_list(self.new_cell(st)), st, env)
                return f"let {ident(name)} := ([] : {ctype(env2[name])}) in\n" + self.block(rest, env2, ctx)
            if is_none(value) and isinstance(value, ast.Constant) and name not in env:
                env2 = self.bind_local(name, T_option(self.new_cell(st)), st, env)
                return f"let {ident(name)} := (None : {ctype(env2[name])}) in\n" + self.block(rest, env2, ctx)

            def ev():
                v = self.expr(value, env)
                if v.ty == OPAQUE:
                    return v, None
                if v.raising:
                    v = self.hoist(v, st)
                if name in env and norm(env[name]) != OPAQUE:
                    ty = norm(env[name])
                    if isinstance(ty, tuple) and ty[0] == "option" and isinstance(ty[1], Cell):
                        if v.ty == NONE:
                            return Val(ty, "None"), ty
                        w = self.settle(v, st)                      # first value of a local that started as None
                        ty[1].ty = w.ty
                        return Val(norm(ty), f"(Some {w.term})"), norm(ty)
                    return Val(ty, self.coerce(v, ty, st)), ty
                if v.ty == NONE:
                    rej(st, "assignment of None to a local that already exists with another type")
                v = self.settle(v, st)
                return v, v.ty
            (v, ty), wrap, _ = self.with_pending(ev)
            if v.ty == OPAQUE:
                if name in env and norm(env[name]) != OPAQUE:
                    rej(st, f"{name} changes its type")
                env2 = dict(env)
                env2[name] = OPAQUE
                return self.block(rest, env2, ctx)
            env2 = self.bind_local(name, ty, st, env)
            return wrap(f"let {ident(name)} := {v.term} in\n" + self.block(rest, env2, ctx))
        if is_self_attr(target):
            f = spec.fields.get(target.attr)
            if f is None or f.setter is None:
                rej(st, f"assignment to self.{target.attr} is not modelled")
            term, wrap, _ = self.with_pending(lambda: self.coerce(self.pure(value, env), f.ty, st))
            return wrap(f"let self := {f.setter} {term} self in\n" + self.block(rest, env, ctx))
        if isinstance(target, ast.Tuple) and all(is_name(x) for x in target.elts):
            def ev2():
                v = self.settle(self.pure(value, env), st)
                if not (isinstance(v.ty, tuple) and v.ty[0] == "tuple" and len(v.ty[1]) == len(target.elts)) or v.term is None:
                    rej(st, "tuple assignment from a value that is not a tuple of the same length")
                return v
            v, wrap, _ = self.with_pending(ev2)
            env2 = env
            if len({x.id for x in target.elts}) != len(target.elts):
                rej(st, "repeated name in a tuple assignment")
            for x, t in zip(target.elts, v.ty[1]):
                env2 = self.bind_local(x.id, t, st, env2)
            pat = "(" + ", ".join(ident(x.id) for x in target.elts) + ")"
            return wrap(f"let '{pat} := {v.term} in\n" + self.block(rest, env2, ctx))
        if isinstance(target, ast.Subscript) and is_name(target.value) and target.value.id in env \
                and not isinstance(target.slice, ast.Slice):
            name = target.value.id
            ty = norm(env[name])
            if ty != T_ndarray(ZT):
                rej(st, f"item assignment to a local of type {ty!r}")
            if name in self.loop_targets:
                rej(st, f"item assignment to the loop variable {name}")

            def ev3():
                k = self.coerce(self.pure(target.slice, env), ZT, st)
                x = self.coerce(self.pure(value, env), ZT, st)
                return k, x
            (k, x), wrap, _ = self.with_pending(ev3)
            return wrap(self.bind(f"(np_set_item {ident(name)} {k} {x})", ident(name), self.block(rest, env, ctx)))
        rej(st, "assignment target is not accepted")

    def expr_stmt(self, st, rest, env, ctx):
        v = st.value
        kind, callee = self.self_call(v)
        if kind is not None:
            if kind == "method":
                term, wrap, _ = self.with_pending(lambda: self.method_term(callee, v, env))
                pure = callee.pure
            else:
                term, wrap, _ = self.with_pending(lambda: self.ext_term(callee, v, env))
                pure = callee.pure
                if pure:                      # no effect, cannot raise: only type checked
                    return self.block(rest, env, ctx)
            pat = "'(_, _)" if pure else "'(self, _)"
            return wrap(self.bind(term, pat, self.block(rest, env, ctx)))
        if not (isinstance(v, ast.Call) and isinstance(v.func, ast.Attribute)):
            rej(st, "expression statement is not accepted")
        recv, meth = v.func.value, v.func.attr
        if is_self_attr(recv) and meth == "append" and len(v.args) == 1 and not v.keywords:
            f = self.spec.fields.get(recv.attr)
            if f is None or f.setter is None or not (isinstance(f.ty, tuple) and f.ty[0] == "list"):
                rej(st, f"self.{recv.attr}.append is not modelled")
            x, wrap, _ = self.with_pending(lambda: self.coerce(self.pure(v.args[0], env), f.ty[1], st))
            return wrap(f"let self := {f.setter} (py_append ({f.getter} self) {x}) self in\n" + self.block(rest, env, ctx))
        if not (is_name(recv) and recv.id in env and recv.id != "self"):
            rej(st, "method call on something that is not a local or a modelled attribute")
        name = recv.id
        lty = norm(env[name])
        if not (isinstance(lty, tuple) and lty[0] == "list"):
            rej(st, f".{meth}() on a local of type {lty!r}")
        if name in self.loop_targets or name in self.refined:
            rej(st, f"mutation of {name}")
        nm = ident(name)
        if meth == "append" and len(v.args) == 1 and not v.keywords:
            def ev():
                x = self.pure(v.args[0], env)
                if isinstance(lty[1], Cell):
                    x = self.settle(x, st)
                    if x.ty in (NONE, OPAQUE) or has_cell(x.ty):
                        rej(st, "append of a value without a value type")
                    lty[1].ty = x.ty
                    return x.term
                return self.coerce(x, lty[1], st)
            x, wrap, _ = self.with_pending(ev)
            env2 = dict(env)
            env2[name] = norm(lty)
            return wrap(f"let {nm} := py_append {nm} {x} in\n" + self.block(rest, env2, ctx))
        if has_cell(lty):
            rej(st, f".{meth}() on a list whose element type is not known yet")
        if meth == "remove" and len(v.args) == 1 and not v.keywords:
            x, wrap, _ = self.with_pending(lambda: self.coerce(self.pure(v.args[0], env), lty[1], st))
            return wrap(self.bind(f"(py_list_remove {EC.eqb_of(lty[1], st)} {x} {nm})", nm, self.block(rest, env, ctx)))
        if meth == "sort" and not v.args and len(v.keywords) == 1 and v.keywords[0].arg == "key" \
                and isinstance(v.keywords[0].value, ast.Lambda):
            lam = v.keywords[0].value
            a = lam.args
            if a.vararg or a.kwarg or a.kwonlyargs or a.posonlyargs or a.defaults or len(a.args) != 1:
                rej(st, "sort key must be a lambda of one parameter")
            p = a.args[0].arg
            if p in env or p == "self":
                rej(st, f"lambda parameter {p} shadows a local")
            inner = dict(env)
            inner[p] = lty[1]
            k, _, pend = self.with_pending(lambda: self.settle(self.pure(lam.body, inner), st))
            if pend:
                rej(st, "a sort key that may raise is not accepted")
            return (f"let {nm} := py_list_sort_key {ltb_of(k.ty, st)} (fun {ident(p)} => {k.term}) {nm} in\n"
                    + self.block(rest, env, ctx))
        rej(st, f".{meth}() with these arguments is not accepted")

    def test(self, t, env):
        if isinstance(t, ast.Compare) and len(t.ops) == 1 and isinstance(t.ops[0], (ast.Is, ast.IsNot)):
            if not (is_none(t.comparators[0]) and isinstance(t.comparators[0], ast.Constant) and is_name(t.left)
                    and t.left.id in env):
                rej(t, "`is` / `is not` is only accepted as `<local> is [not] None`")
            ty = norm(env[t.left.id])
            if not (isinstance(ty, tuple) and ty[0] == "option") or t.left.id in self.refined:
                rej(t, f"{t.left.id} cannot be None here")
            return ("none", t.left.id, isinstance(t.ops[0], ast.IsNot))
        c = self.pure(t, env)
        if c.ty != BOOL:
            rej(t, f"condition of type {c.ty!r}: only booleans are accepted (no truthiness)")
        return ("bool", c.term)

    def branch(self, tst, then_fn, else_fn, env):
        if tst[0] == "bool":
            return f"if {tst[1]} then\n{indent(then_fn(env))}\nelse\n{indent(else_fn(env))}"
        _, name, negated = tst
        ty = norm(env[name])
        env_some = dict(env)
        env_some[name] = ty[1]
        saved = self.refined
        self.refined = saved | {name}
        try:
            some = (then_fn if negated else else_fn)(env_some)
        finally:
            self.refined = saved
        none = (else_fn if negated else then_fn)(env)
        nm = ident(name)
        return f"match {nm} with\n| Some {nm} =>\n{indent(some)}\n| None =>\n{indent(none)}\nend"

    def if_stmt(self, st, rest, env, ctx):
        tst, wrap, _ = self.with_pending(lambda: self.test(st.test, env))
        body, orelse = list(st.body), list(st.orelse)
        b_exit, o_exit = EC.always_exits(body), EC.always_exits(orelse)
        if not rest:
            return wrap(self.branch(tst, lambda e: self.block(body, e, ctx), lambda e: self.block(orelse, e, ctx), env))
        if b_exit:
            return wrap(self.branch(tst, lambda e: self.block(body, e, ctx), lambda e: self.block(orelse + rest, e, ctx), env))
        if o_exit and not has_ctl_exit(body):
            return wrap(self.branch(tst, lambda e: self.block(body + rest, e, ctx), lambda e: self.block(orelse, e, ctx), env))
        if not has_ctl_exit(body) and not has_ctl_exit(orelse):
            svars = self.state_vars(body + orelse, env)
            if tst[0] == "none" and tst[1] in svars:
                rej(st, f"{tst[1]} is assigned in a branch of its own None test")
            jctx = {"kind": "join", "svars": svars}
            joined = self.branch(tst, lambda e: self.block(body, e, jctx), lambda e: self.block(orelse, e, jctx), env)
            return wrap(self.bind(f"({joined})", self.fun_pat(svars), self.block(rest, env, ctx)))
        return wrap(self.branch(tst, lambda e: self.block(body + rest, e, ctx), lambda e: self.block(orelse + rest, e, ctx), env))

    # ------------------------------------------------------------------ loops
    def lifted_body(self, st, env, inner_env, elem_param, unpack, what):
        """emit the body of a loop as its own definition; returns (call term, svars)"""
        svars = self.state_vars(st.body, env)
        self.body_counter += 1
        bname = f"gen_{self.cur.name}_body{self.body_counter}"
        loaded = EC.loaded_names(st.body)
        free = [n for n in env if n in loaded and n not in svars and norm(env[n]) != OPAQUE]
        body = self.block(st.body, inner_env, {"kind": "loop", "svars": svars})
        sty = self.state_type(svars, env)
        params = "".join(f" ({ident(n)} : {ctype(env[n])})" for n in free)
        fuel = " (fuel_ : nat)" if self.cur.fuel else ""
        selfparam = "" if "self" in svars else f" (self : {self.spec.state_type})"
        self.out.append(f"(* body of the `{what}` loop at line {st.lineno} of {self.cur.name} *)\n"
                        f"Definition {bname}{fuel}{selfparam}{params}{elem_param} (st : {sty}) : result (ctl * {sty}) :=\n"
                        + indent(unpack + self.unpack_state(svars) + body) + ".\n")
        call = " ".join([bname] + (["fuel_"] if fuel else []) + (["self"] if selfparam else []) + [ident(n) for n in free])
        return call, svars

    def for_stmt(self, st, rest, env, ctx):
        if st.orelse:
            rej(st, "for ... else is not accepted")
        it, wrap, _ = self.with_pending(lambda: self.pure(st.iter, env))
        if isinstance(it.ty, tuple) and it.ty[0] == "dict":
            it = Val(T_list(T_tuple(NAT, NAT)), f"(py_dict_keys {it.term})")
        if not is_seq(it.ty):
            rej(st, f"iteration over a value of type {it.ty!r}")
        elt = norm(it.ty[1])
        tgt = st.target
        if is_name(tgt):
            names, types = [tgt.id], [elt]
            elem_param, unpack = f" ({ident(tgt.id)} : {ctype(elt)})", ""
        elif isinstance(tgt, ast.Tuple) and all(is_name(x) for x in tgt.elts) and isinstance(elt, tuple) \
                and elt[0] == "tuple" and len(elt[1]) == len(tgt.elts):
            names, types = [x.id for x in tgt.elts], list(elt[1])
            elem_param = f" (k_ : {ctype(elt)})"
            unpack = "let '(" + ", ".join(ident(n) for n in names) + ") := k_ in\n"
        else:
            rej(st, "loop target is not a name or a tuple of names matching the element type")
        if len(set(names)) != len(names):
            rej(st, "repeated loop variable")
        changed = changed_names(st.body)
        for n in names:
            if n in env or n == "self" or n in changed:
                rej(st, f"loop variable {n} is already bound in the enclosing scope or assigned in the body")
        # what the loop iterates over must not change under it
        is_range = isinstance(st.iter, ast.Call) and is_name(st.iter.func, "range") and "range" not in env
        if not is_range:
            if any(is_self_attr(x) for x in ast.walk(st.iter)) and self.mutates_self(st.body):
                rej(st, "the loop body changes the object while the loop iterates over one of its attributes")
            for x in ast.walk(st.iter):
                if isinstance(x, ast.Name) and x.id in changed:
                    if not (is_name(st.iter) and mutation_leaves(st.body, x.id)):
                        rej(st, f"the loop body changes {x.id}, which the loop iterates over, and goes on iterating")
        inner_env = dict(env)
        for n, t in zip(names, types):
            inner_env[n] = t
        saved = self.loop_targets
        self.loop_targets = saved | set(names)
        call, svars = self.lifted_body(st, env, inner_env, elem_param, unpack, "for")
        self.loop_targets = saved
        return wrap(self.bind(f"(py_forM ({call}) {it.term} {self.state_pat(svars)})", self.fun_pat(svars),
                              self.block(rest, env, ctx)))

    def while_stmt(self, st, rest, env, ctx):
        if st.orelse:
            rej(st, "while ... else is not accepted")
        if not (is_name(st.test) and st.test.id in env and norm(env[st.test.id]) == BOOL):
            rej(st, "the test of a while loop must be a boolean local")
        call, svars = self.lifted_body(st, env, dict(env), "", "", "while")
        cond = f"(fun st => {self.unpack_state(svars).replace(chr(10), ' ')}{ident(st.test.id)})"
        return self.bind(f"(py_whileM fuel_ {cond} ({call}) {self.state_pat(svars)})", self.fun_pat(svars),
                         self.block(rest, env, ctx))

    # ------------------------------------------------------------------ one method
    def function(self, name):
        info = self.fns[name]
        self.cur = info
        self.body_counter = 0
        self.loop_targets = frozenset()
        self.refined = frozenset()
        self.tmp = 0
        fn = info.node
        env = {}
        for a, t in zip(fn.args.args[1:], info.param_types):
            if re.fullmatch(r"h\d+_|fuel_", a.arg):
                rej(fn, f"the name {a.arg} is reserved")
            env[a.arg] = t
        body = self.block(fn.body, env, {"kind": "fn"})
        params = "".join(f" ({ident(a.arg)} : {ctype(t)})" for a, t in zip(fn.args.args[1:], info.param_types))
        fuel = " (fuel_ : nat)" if info.fuel else ""
        kind = "reads the object only" if info.pure else "changes the object"
        self.out.append(f"(* {self.spec.class_name}.{name}, line {fn.lineno} ({kind}) *)\n"
                        f"Definition gen_{name}{fuel} (self : {self.spec.state_type}){params} : {info.coq_ret} :=\n"
                        + indent(body) + ".\n")


def translate_class(src, spec, header):
    cls = EC.find_class(src, spec.class_name)
    for n in ast.walk(cls):
        pass
    hints = {}
    for attempt in (1, 2):
        tr = HTranslator(spec, cls, hints)
        order = tr.collect()
        for name in order:
            tr.function(name)
        if attempt == 1:
            for c in tr.cells:
                if c.ty is None or has_cell(c.ty):
                    raise Rejected(f"line {c.key[1]}: the type of this empty list / None local is never determined")
                hints[c.key] = norm(c.ty)
        elif tr.cells:
            raise Rejected("internal: undetermined type in the second pass")
    return header + "\n" + "\n".join(tr.out)


# ---------------------------------------------------------------------------------------- class tables
KEY = T_tuple(NAT, NAT)


def np_zeros(tr, e, args):
    if len(args) != 1 or e.keywords or args[0].ty not in (NAT, LIT):
        rej(e, "np.zeros is only accepted as np.zeros(<natural number>)")
    return Val(T_ndarray(ZT), f"(np_zeros {tr.coerce(args[0], NAT, e)})")


SEQ_FIELDS = {
    "nodes": Field(T_list(NODE), "hq_nodes", None, item=("total", "hq_nodes_item", NAT, NODE)),
    "node_names": Field(T_list(NAT), "hq_node_names", None, item=("raising", NAT, NAT)),
    "max_vehicles": Field(NAT, "hq_max_vehicles", "hq_set_max_vehicles"),
    "max_sequence_length": Field(NAT, "hq_max_sequence_length", None),
    "vehicle_cost": Field(T_list(ZT), "hq_vehicle_cost", "hq_set_vehicle_cost"),
    "num_variables": Field(NAT, "hq_num_variables", None),
    "variables_enumerated": Field(BOOL, "hq_variables_enumerated", "hq_set_variables_enumerated"),
    "objective_built": Field(BOOL, "hq_objective_built", "hq_set_objective_built"),
    "lin_con_built": Field(BOOL, "hq_lin_con_built", "hq_set_lin_con_built"),
    "quad_con_built": Field(BOOL, "hq_quad_con_built", "hq_set_quad_con_built"),
    "feasible_solution": Field(T_ndarray(ZT), "hq_feasible_solution", "hq_set_feasible_solution"),
}
SEQ_OBJ = {(NODE, "get_window"): (T_tuple(ZT, EXT), "(hq_get_window {r})")}
SEQ_SIGNATURES = OrderedDict([("reset_build_flags", []), ("make_feasible", [ZT])])
# methods of the class that the packages seqenum / vrptw translate (models imported from their copies)
SEQ_EXTERNALS = {
    "check_arc": Ext([KEY], BOOL, True, "gen_check_arc (hq_q {self}) {args}"),
    "add_arc": Ext([NAT, NAT, ZT, ZT], BOOL, False,
                   "hq_call_g (fun strict_ g_ => gen_seq_add_arc strict_ g_ {args}) {self}"),
    "enumerate_variables": Ext([], UNIT, False, "hq_call_q_total (fun q_ => gen_enumerate_variables q_) {self}"),
    "get_var_index": Ext([NAT, NAT, NAT], T_option(ZT), False,
                         "hq_call_q (fun q_ => gen_get_var_index q_ {args}) {self}"),
}
SEQ_SPEC = HSpec("SequenceBasedRoutingProblem", "hq", SEQ_FIELDS, SEQ_OBJ, SEQ_SIGNATURES, SEQ_EXTERNALS)
SEQ_SPEC.extra_calls = {"zeros": np_zeros}

SEQ_HEADER = """(* GENERATED by harness/translate_heursa.py from routing_problem/formulations/sequence_based_rp.py of the
   tree under test (make_feasible, reset_build_flags).  Do not edit: rewritten on every run of `bin/check C09`. *)
From VQ Require Import Base Vrptw Seq PyEnumCore PySeq PyHeur PyHeurSeq.
From VQG Require Import HsSeqEnumGen HsVrptwGen.
"""

SEQ_REL = "src/vrpqubo/routing_problem/formulations/sequence_based_rp.py"
ARC_REL = "src/vrpqubo/routing_problem/formulations/arc_based_rp.py"
VERIF = os.path.dirname(os.path.dirname(os.path.abspath(__file__)))


def repo_file(rel):
    from vq import core
    return os.path.join(core.REPO, rel)


def retarget(genprops, old, new):
    """the text of another package's equality proofs, with its import of the generated module redirected to our copy"""
    text = open(os.path.join(VERIF, "coq", "genprops", genprops)).read()
    pat = re.compile(r"^From VQG Require Import " + re.escape(old) + r"\.\s*$", re.M)
    if len(pat.findall(text)) != 1:
        raise Rejected(f"{genprops}: expected exactly one line `From VQG Require Import {old}.`")
    text = pat.sub(f"From VQG Require Import {new}.", text)
    # the copies are imported by C09_gen.v / C09_arc_gen.v, whose own `Print Assumptions` cover them transitively
    return re.sub(r"^Print Assumptions [\w']+\.[ \t]*$", "", text, flags=re.M)


def only(d):
    if len(d) != 1:
        raise Rejected("a translator this package imports returned an unexpected set of files")
    return list(d.values())[0]


def translate_seq_source(src):
    return translate_class(src, SEQ_SPEC, SEQ_HEADER)


def translate_seq():
    import translate_seqenum
    import translate_vrptw
    with open(repo_file(SEQ_REL)) as fh:
        src = fh.read()
    out = OrderedDict()
    out["HsSeqEnumGen.v"] = translate_seqenum.translate_source(src)
    out["HsVrptwGen.v"] = only(translate_vrptw.translate())
    out["HsSeqEnum_eq.v"] = retarget("C18_seq_gen.v", "SeqGen", "HsSeqEnumGen")
    out["HsVrptw_eq.v"] = retarget("C15_gen.v", "VrptwGen", "HsVrptwGen")
    out["HeurSeqGen.v"] = translate_seq_source(src)
    return out


# ---- arc formulation
ARC_FIELDS = {
    "nodes": Field(T_list(NODE), "ha_nodes", None, item=("total", "ha_nodes_item", NAT, NODE)),
    "node_names": Field(T_list(NAT), "ha_node_names", None, item=("raising", NAT, NAT)),
    "time_points": Field(T_ndarray(ZT), "ha_time_points", None, item=("raising", NAT, ZT)),
    "num_variables": Field(NAT, "ha_num_variables", None),
    "variables_enumerated": Field(BOOL, "ha_variables_enumerated", "ha_set_variables_enumerated"),
    "constraints_built": Field(BOOL, "ha_constraints_built", "ha_set_constraints_built"),
    "objective_built": Field(BOOL, "ha_objective_built", "ha_set_objective_built"),
    "feasible_solution": Field(T_ndarray(ZT), "ha_feasible_solution", "ha_set_feasible_solution"),
}
ARC_OBJ = {(NODE, "get_window"): (T_tuple(ZT, EXT), "(ha_get_window {r})")}
ARC_SIGNATURES = OrderedDict([("check_and_add_exit_arc", [NAT, ZT]), ("make_feasible", [ZT])])
# methods of the class that the packages arcenum / vrptw translate (models imported from their copies)
ARC_EXTERNALS = {
    "check_arc": Ext([KEY], BOOL, True, "gen_check_arc (ha_a {self}) {args}"),
    "get_arrival_time": Ext([ZT, KEY], T_tuple(ZT, BOOL), True, "gen_get_arrival_time (ha_a {self}) {args}"),
    "add_arc": Ext([NAT, NAT, ZT, ZT], BOOL, False, "ha_call_g (fun g_ => gen_rp_add_arc g_ {args}) {self}"),
    "estimate_max_vehicles": Ext([], ZT, False,
                                 "ha_call_g (fun g_ => gen_rp_estimate_max_vehicles g_ gen_depot_index_init) {self}"),
    "enumerate_variables": Ext([], UNIT, False, "ha_call_a_total (fun a_ => gen_enumerate_variables a_) {self}"),
    "get_var_index": Ext([NAT, ZT, NAT, ZT], T_option(NAT), False,
                         "ha_call_a (fun a_ => gen_get_var_index a_ {args}) {self}"),
}
ARC_SPEC = HSpec("ArcBasedRoutingProblem", "ha", ARC_FIELDS, ARC_OBJ, ARC_SIGNATURES, ARC_EXTERNALS)
ARC_SPEC.extra_calls = {"zeros": np_zeros}

ARC_HEADER = """(* GENERATED by harness/translate_heursa.py from routing_problem/formulations/arc_based_rp.py of the
   tree under test (make_feasible, check_and_add_exit_arc).  Do not edit: rewritten on every run of `bin/check C09`. *)
From VQ Require Import Base Vrptw Arc PyEnumCore PyArc PyHeur PyHeurArc.
From VQG Require Import HaArcEnumGen HaVrptwGen.
"""


def translate_arc_source(src):
    return translate_class(src, ARC_SPEC, ARC_HEADER)


def translate_arc():
    import translate_arcenum
    import translate_vrptw
    with open(repo_file(ARC_REL)) as fh:
        src = fh.read()
    out = OrderedDict()
    out["HaArcEnumGen.v"] = translate_arcenum.translate_source(src)
    out["HaVrptwGen.v"] = only(translate_vrptw.translate())
    out["HaArcEnum_eq.v"] = retarget("C18_arc_gen.v", "ArcGen", "HaArcEnumGen")
    out["HaVrptw_eq.v"] = retarget("C15_gen.v", "VrptwGen", "HaVrptwGen")
    out["HeurArcGen.v"] = translate_arc_source(src)
    return out


translate = translate_seq


if __name__ == "__main__":
    import sys
    which, path = sys.argv[1], sys.argv[2]
    print({"seq": translate_seq_source, "arc": translate_arc_source}[which](open(path).read()))
