"""translate_getqubo.py -- fail-closed translator  Python ast -> Gallina  for matrix-expression code.

Translated functions (read from the tree under test, `core.REPO`):

    RoutingProblem.get_qubo                                   routing_problem/routing_problem.py
    ArcBasedRoutingProblem.get_sufficient_penalty             routing_problem/formulations/arc_based_rp.py
    PathBasedRoutingProblem.get_sufficient_penalty            routing_problem/formulations/path_based_rp.py
    SequenceBasedRoutingProblem.get_sufficient_penalty        routing_problem/formulations/sequence_based_rp.py

Entries:  translate()          -> {"GetQuboGen.v": text}   (get_qubo; obligations in genprops/C02_gen.v)
          translate_suffpen()  -> {"SuffPenGen.v": text}   (get_qubo and the three get_sufficient_penalty;
                                                            obligations in genprops/C04_gen.v)

The translator is a PRINTER.  It knows no linear algebra and no types: every Python expression node is
printed as the combinator of coq/theories/PyMat.v with the same name (`a + b` -> e_add, `x.dot(y)` -> e_dot,
`sparse.diags(v)` -> e_diags, ...), over dynamically typed values (`PyMat.val`), in the exception monad
(`pbind` / `pret` / `Err`).  What the combinators mean is defined in Coq.  Control flow:

    x = E                      pbind E (fun x => REST)
    a, b = self.m()            pbind self_m (fun '(a, b) => REST)
    x += E                     pbind (e_add (pret x) E) (fun x => REST)          (rebinding)
    if T: A else: B ; REST     pbind (e_if T (A; pret W) (B; pret W)) (fun W => REST)
                               W = the names (re)bound in A or B that are live afterwards
                               (bound before the `if`, or bound in both branches)
    if T: ... return ...       e_if T (A; REST) (B; REST)     (an `if` containing a `return`: REST is duplicated)
    raise C(...)               Err C
    return E / return E1, E2   E / the pair

`self.attr` reads, `self.method(...)` calls and zero-argument methods of other objects (`arc.get_cost()`)
are not interpreted: they become PARAMETERS of the generated definition (`self_attr`, `self_method`,
`m_get_cost`), sorted by name after the Python parameters.  Ignored: docstrings, comments, `pass`,
`logger.*(...)` calls, annotations, and an `if` whose branches contain only such statements and whose
test is call-free.  Everything else raises `Rejected` (with the line number).
"""
import ast
import os
import re
from collections import OrderedDict

try:
    from vq import core
    _REPO = core.REPO
except Exception:  # noqa  (stand-alone use)
    _REPO = os.environ.get("VQ_REPO", "/repo")

BASE = "src/vrpqubo/routing_problem"
TARGETS = {
    "get_qubo": (f"{BASE}/routing_problem.py", "RoutingProblem", "get_qubo", "gen_get_qubo"),
    "arc": (f"{BASE}/formulations/arc_based_rp.py", "ArcBasedRoutingProblem", "get_sufficient_penalty",
            "gen_arc_get_sufficient_penalty"),
    "path": (f"{BASE}/formulations/path_based_rp.py", "PathBasedRoutingProblem", "get_sufficient_penalty",
             "gen_path_get_sufficient_penalty"),
    "seq": (f"{BASE}/formulations/sequence_based_rp.py", "SequenceBasedRoutingProblem", "get_sufficient_penalty",
            "gen_seq_get_sufficient_penalty"),
}


class Rejected(Exception):
    pass


IDENT_RE = re.compile(r"^[A-Za-z][A-Za-z0-9_]*$|^_[A-Za-z0-9_]+$")
COQ_RESERVED = {
    "at", "in", "fun", "let", "match", "end", "with", "as", "if", "then", "else", "fix", "cofix", "forall", "exists",
    "return", "Type", "Set", "Prop", "SProp", "where", "for", "using", "struct", "IF", "by", "exists2", "tt", "unit",
    "Ok", "Err", "pbind", "pret", "Ops", "V", "O", "S", "true", "false", "nat", "Z", "list", "val", "result", "rK",
    "Scal", "Vec", "Mat", "VNone", "VBool", "VList", "VDict",
}
EXCEPTIONS = {"ValueError", "IndexError", "KeyError", "AssertionError", "AttributeError", "TypeError"}
# builtins / module functions with a combinator; the module alias is checked against the imports
BUILTIN_1 = {"len": "e_len", "abs": "e_fabs", "float": "e_float"}
NP_1 = {"atleast_1d": "e_atleast_1d", "fabs": "e_fabs", "abs": "e_fabs"}
SPARSE_1 = {"diags": "e_diags"}
METHOD_0 = {"transpose": "e_transpose", "values": "e_values"}
METHOD_1 = {"dot": "e_dot"}
BINOPS = {ast.Add: "e_add", ast.Sub: "e_sub", ast.Mult: "e_mul", ast.MatMult: "e_dot"}


def where(node):
    return f"line {getattr(node, 'lineno', '?')}"


def is_name(node, name=None):
    return isinstance(node, ast.Name) and (name is None or node.id == name)


def is_docstring(st):
    return isinstance(st, ast.Expr) and isinstance(st.value, ast.Constant) and isinstance(st.value.value, str)


def is_logger_call(st):
    return (isinstance(st, ast.Expr) and isinstance(st.value, ast.Call) and isinstance(st.value.func, ast.Attribute)
            and is_name(st.value.func.value, "logger"))


def call_free(node):
    """A test that cannot have an effect: names, constants, comparisons, boolean / arithmetic operators, self.attr."""
    for n in ast.walk(node):
        if isinstance(n, (ast.Name, ast.Constant, ast.Compare, ast.BoolOp, ast.UnaryOp, ast.BinOp, ast.Load,
                          ast.cmpop, ast.boolop, ast.unaryop, ast.operator)):
            continue
        if isinstance(n, ast.Attribute) and is_name(n.value, "self"):
            continue
        return False
    return True


def ignorable(st):
    if is_docstring(st) or is_logger_call(st) or isinstance(st, ast.Pass):
        return True
    if isinstance(st, ast.If) and call_free(st.test):
        return all(ignorable(s) for s in st.body) and all(ignorable(s) for s in st.orelse)
    return False


def contains_return(stmts):
    return any(isinstance(n, ast.Return) for st in stmts for n in ast.walk(st))


def target_names(t, st):
    if is_name(t):
        return [t.id]
    if isinstance(t, ast.Tuple) and all(is_name(e) for e in t.elts):
        return [e.id for e in t.elts]
    raise Rejected(f"{where(st)}: assignment target {ast.dump(t)[:80]} is not a name or a tuple of names")


def maybe_assigned(stmts):
    out = set()
    for st in stmts:
        if isinstance(st, ast.Assign):
            for t in st.targets:
                out.update(target_names(t, st))
        elif isinstance(st, ast.AnnAssign) and st.value is not None:
            out.update(target_names(st.target, st))
        elif isinstance(st, ast.AugAssign):
            out.update(target_names(st.target, st))
        elif isinstance(st, ast.If):
            out |= maybe_assigned(st.body) | maybe_assigned(st.orelse)
    return out


def surely_assigned(stmts):
    out = set()
    for st in stmts:
        if isinstance(st, ast.Assign):
            for t in st.targets:
                out.update(target_names(t, st))
        elif isinstance(st, ast.AnnAssign) and st.value is not None:
            out.update(target_names(st.target, st))
        elif isinstance(st, ast.If):
            out |= surely_assigned(st.body) & surely_assigned(st.orelse)
    return out


class Module:
    """The import aliases of one source file, and the names rebound at module level."""

    def __init__(self, tree):
        self.numpy = set()
        self.sparse = set()
        self.toplevel = set()
        for n in tree.body:
            if isinstance(n, ast.Import):
                for a in n.names:
                    if a.name == "numpy":
                        self.numpy.add(a.asname or "numpy")
                    elif a.name == "scipy.sparse" and a.asname:
                        self.sparse.add(a.asname)
                    else:
                        self.toplevel.add((a.asname or a.name).split(".")[0])
            elif isinstance(n, ast.ImportFrom):
                for a in n.names:
                    if n.module == "scipy" and a.name == "sparse" and n.level == 0:
                        self.sparse.add(a.asname or "sparse")
                    else:
                        self.toplevel.add(a.asname or a.name)
            elif isinstance(n, (ast.FunctionDef, ast.AsyncFunctionDef, ast.ClassDef)):
                self.toplevel.add(n.name)
            elif isinstance(n, (ast.Assign, ast.AnnAssign, ast.AugAssign)):
                for t in (n.targets if isinstance(n, ast.Assign) else [n.target]):
                    for m in ast.walk(t):
                        if isinstance(m, ast.Name):
                            self.toplevel.add(m.id)
        # an alias that is also rebound at module level is not trusted
        self.numpy -= self.toplevel
        self.sparse -= self.toplevel


class Fn:
    """Translation of one method."""

    def __init__(self, fn, module, gen_name, origin):
        self.fn = fn
        self.module = module
        self.gen_name = gen_name
        self.origin = origin
        self.oracles = {}        # coq name -> (kind, nargs, arity)   kind in attr / selfcall / method
        self.n_tmp = 0

    # ---------------- names ----------------
    def ident(self, name, node):
        if not IDENT_RE.match(name) or name in COQ_RESERVED or name.startswith(("e_", "g_", "py_", "self_", "m_", "gen_", "k_of_")):
            raise Rejected(f"{where(node)}: the name {name!r} cannot be used as a Gallina identifier here")
        return name

    def oracle(self, name, kind, nargs, arity, node):
        old = self.oracles.get(name)
        new = (kind, nargs, arity)
        if old is not None and old != new:
            raise Rejected(f"{where(node)}: {name} is used in two different ways ({old} and {new})")
        self.oracles[name] = new
        return name

    def shadowed(self, name, env):
        return name in env or name in self.module.toplevel

    # ---------------- expressions ----------------
    def expr(self, e, env):
        if isinstance(e, ast.Name):
            if e.id in env:
                return f"(pret {e.id})"
            raise Rejected(f"{where(e)}: unknown name {e.id!r}")
        if isinstance(e, ast.Constant):
            return self.const(e)
        if isinstance(e, ast.UnaryOp):
            if isinstance(e.op, ast.USub):
                return f"(e_neg {self.expr(e.operand, env)})"
            if isinstance(e.op, ast.Not):
                return f"(e_not {self.expr(e.operand, env)})"
            raise Rejected(f"{where(e)}: unary operator {type(e.op).__name__}")
        if isinstance(e, ast.BinOp):
            if isinstance(e.op, ast.Pow):
                r = e.right
                if isinstance(r, ast.Constant) and type(r.value) is int and 0 <= r.value <= 16:
                    return f"(e_pow {self.expr(e.left, env)} {r.value}%nat)"
                raise Rejected(f"{where(e)}: exponent of ** is not a small non-negative integer literal")
            for cls, comb in BINOPS.items():
                if isinstance(e.op, cls):
                    return f"({comb} {self.expr(e.left, env)} {self.expr(e.right, env)})"
            raise Rejected(f"{where(e)}: binary operator {type(e.op).__name__}")
        if isinstance(e, ast.BoolOp):
            comb = "e_and" if isinstance(e.op, ast.And) else "e_or"
            vals = [self.expr(v, env) for v in e.values]
            out = vals[-1]
            for v in reversed(vals[:-1]):
                out = f"({comb} {v} {out})"
            return out
        if isinstance(e, ast.Compare):
            return self.compare(e, env)
        if isinstance(e, ast.Attribute):
            if is_name(e.value, "self") and "self" not in env:
                if not IDENT_RE.match(e.attr):
                    raise Rejected(f"{where(e)}: attribute name {e.attr!r}")
                return f"(pret {self.oracle('self_' + e.attr, 'attr', 0, 1, e)})"
            if e.attr == "T":
                return f"(e_transpose {self.expr(e.value, env)})"
            raise Rejected(f"{where(e)}: attribute {e.attr!r} of something that is not self")
        if isinstance(e, ast.Call):
            return self.call(e, env)
        raise Rejected(f"{where(e)}: expression {type(e).__name__} is not supported")

    def const(self, e):
        v = e.value
        if v is None:
            return "e_none"
        if v is True or v is False:
            return f"(e_bool {'true' if v else 'false'})"
        if type(v) is int:
            return f"(e_num ({v})%Z)"
        if type(v) is float and v == v and v not in (float("inf"), float("-inf")) and v.is_integer():
            return f"(e_num ({int(v)})%Z)"
        raise Rejected(f"{where(e)}: constant {v!r} is not None, a bool, an integer or a float with an integral value")

    def compare(self, e, env):
        if len(e.ops) != 1:
            raise Rejected(f"{where(e)}: chained comparison")
        op, right = e.ops[0], e.comparators[0]
        left = self.expr(e.left, env)
        if isinstance(op, (ast.Is, ast.IsNot)):
            neg = isinstance(op, ast.IsNot)
            if isinstance(right, ast.Constant) and right.value is None:
                return f"({'e_is_not_none' if neg else 'e_is_none'} {left})"
            if isinstance(right, ast.Constant) and (right.value is True or right.value is False):
                b = "true" if right.value else "false"
                return f"({'e_is_not_bool' if neg else 'e_is_bool'} {b} {left})"
            raise Rejected(f"{where(e)}: `is` is accepted only against None, True, False")
        if isinstance(op, ast.Eq):
            return f"(e_eq {left} {self.expr(right, env)})"
        if isinstance(op, ast.NotEq):
            return f"(e_ne {left} {self.expr(right, env)})"
        raise Rejected(f"{where(e)}: comparison {type(op).__name__} (the carrier is a ring without an order)")

    def call(self, e, env):
        if e.keywords:
            raise Rejected(f"{where(e)}: keyword arguments")
        if any(isinstance(a, ast.Starred) for a in e.args):
            raise Rejected(f"{where(e)}: starred argument")
        f = e.func
        # builtins
        if isinstance(f, ast.Name):
            if self.shadowed(f.id, env):
                raise Rejected(f"{where(e)}: {f.id} is rebound in this module or function")
            if f.id == "sum" and len(e.args) == 1:
                a = e.args[0]
                if isinstance(a, ast.GeneratorExp):
                    return f"(e_sum {self.genexp(a, env)})"
                return f"(e_sum (e_iter {self.expr(a, env)}))"
            if f.id in BUILTIN_1 and len(e.args) == 1:
                return f"({BUILTIN_1[f.id]} {self.expr(e.args[0], env)})"
            raise Rejected(f"{where(e)}: call of {f.id} with {len(e.args)} argument(s)")
        if not isinstance(f, ast.Attribute):
            raise Rejected(f"{where(e)}: call of {type(f).__name__}")
        obj = f.value
        # self.method(...)
        if is_name(obj, "self") and "self" not in env:
            if not IDENT_RE.match(f.attr):
                raise Rejected(f"{where(e)}: method name {f.attr!r}")
            return self.selfcall(e, env, 1)
        # np.f(x), sparse.f(x)
        if isinstance(obj, ast.Name) and obj.id not in env:
            if obj.id in self.module.numpy:
                if f.attr in NP_1 and len(e.args) == 1:
                    return f"({NP_1[f.attr]} {self.expr(e.args[0], env)})"
                if f.attr == "sum" and len(e.args) == 1:
                    return f"(e_sum (e_iter {self.expr(e.args[0], env)}))"
                raise Rejected(f"{where(e)}: numpy function {f.attr} with {len(e.args)} argument(s)")
            if obj.id in self.module.sparse:
                if f.attr in SPARSE_1 and len(e.args) == 1:
                    return f"({SPARSE_1[f.attr]} {self.expr(e.args[0], env)})"
                raise Rejected(f"{where(e)}: scipy.sparse function {f.attr} with {len(e.args)} argument(s)")
            raise Rejected(f"{where(e)}: unknown name {obj.id!r}")
        # methods of values
        if f.attr in METHOD_0 and not e.args:
            return f"({METHOD_0[f.attr]} {self.expr(obj, env)})"
        if f.attr in METHOD_1 and len(e.args) == 1:
            return f"({METHOD_1[f.attr]} {self.expr(obj, env)} {self.expr(e.args[0], env)})"
        if not e.args and IDENT_RE.match(f.attr) and f.attr not in METHOD_1:
            m = self.oracle("m_" + f.attr, "method", 1, 1, e)
            return f"(e_call1 {m} {self.expr(obj, env)})"
        raise Rejected(f"{where(e)}: method {f.attr} with {len(e.args)} argument(s)")

    def selfcall(self, e, env, arity):
        name = "self_" + e.func.attr
        if len(e.args) == 0:
            self.oracle(name, "selfcall", 0, arity, e)
            return name
        if len(e.args) == 1:
            self.oracle(name, "selfcall", 1, arity, e)
            return f"(e_call1 {name} {self.expr(e.args[0], env)})"
        raise Rejected(f"{where(e)}: self.{e.func.attr} with {len(e.args)} arguments")

    def genexp(self, g, env):
        def go(k, env_k):
            if k == len(g.generators):
                return f"(g_yield {self.expr(g.elt, env_k)})"
            c = g.generators[k]
            if c.is_async or not is_name(c.target):
                raise Rejected(f"{where(g)}: generator target is not a plain name")
            it = self.expr(c.iter, env_k)
            x = self.ident(c.target.id, g)
            env2 = set(env_k) | {x}
            inner = go(k + 1, env2)
            for t in reversed(c.ifs):
                inner = f"(g_when {self.expr(t, env2)} {inner})"
            return f"(g_for (e_iter {it}) (fun {x} => {inner}))"
        return go(0, set(env))

    # ---------------- statements ----------------
    @staticmethod
    def pat(names):
        if not names:
            return "(_ : unit)"
        if len(names) == 1:
            return names[0]
        return "'(" + ", ".join(names) + ")"

    @staticmethod
    def tup(names):
        if not names:
            return "(pret tt)"
        if len(names) == 1:
            return f"(pret {names[0]})"
        return "(pret (" + ", ".join(names) + "))"

    def block(self, stmts, env, tail, ind):
        """Text of the computation `stmts; tail`.  tail(env) gives the text of what follows the block."""
        pad = "  " * ind
        if not stmts:
            return tail(env)
        st, rest = stmts[0], stmts[1:]
        if ignorable(st):
            return self.block(rest, env, tail, ind)
        if isinstance(st, ast.AnnAssign) and st.value is not None:
            st = ast.copy_location(ast.Assign(targets=[st.target], value=st.value), st)
        if isinstance(st, ast.Assign):
            if len(st.targets) != 1:
                raise Rejected(f"{where(st)}: chained assignment")
            t = st.targets[0]
            names = [self.ident(n, st) for n in target_names(t, st)]
            if is_name(t):
                rhs = self.expr(st.value, env)
            else:
                v = st.value
                if not (isinstance(v, ast.Call) and isinstance(v.func, ast.Attribute) and is_name(v.func.value, "self")
                        and "self" not in env and not v.keywords and IDENT_RE.match(v.func.attr)):
                    raise Rejected(f"{where(st)}: a tuple is unpacked from something that is not a call self.<method>(...)")
                if len(set(names)) != len(names):
                    raise Rejected(f"{where(st)}: repeated name in the unpacking target")
                rhs = self.selfcall(v, env, len(names))
            env2 = set(env) | set(names)
            return f"{pad}pbind {rhs} (fun {self.pat(names)} =>\n{self.block(rest, env2, tail, ind)})"
        if isinstance(st, ast.AugAssign):
            if not is_name(st.target):
                raise Rejected(f"{where(st)}: augmented assignment to something that is not a name")
            x = st.target.id
            if x not in env:
                raise Rejected(f"{where(st)}: {x} is not bound before `{x} op= ...`")
            for cls, comb in BINOPS.items():
                if isinstance(st.op, cls):
                    rhs = f"({comb} (pret {x}) {self.expr(st.value, env)})"
                    return f"{pad}pbind {rhs} (fun {x} =>\n{self.block(rest, env, tail, ind)})"
            raise Rejected(f"{where(st)}: augmented operator {type(st.op).__name__}")
        if isinstance(st, ast.If):
            test = self.expr(st.test, env)
            if contains_return([st]):
                cont = lambda e2: self.block(rest, e2, tail, ind + 1)      # noqa: E731  (REST duplicated)
                a = self.block(st.body, set(env), cont, ind + 1)
                b = self.block(st.orelse, set(env), cont, ind + 1)
                return f"{pad}e_if {test}\n{pad}  (\n{a})\n{pad}  (\n{b})"
            sure = surely_assigned(st.body) & surely_assigned(st.orelse)
            may = maybe_assigned(st.body) | maybe_assigned(st.orelse)
            w = sorted(x for x in may if x in env or x in sure)
            w = [self.ident(x, st) for x in w]
            fin = lambda e2: f"{'  ' * (ind + 2)}{self.tup(w)}"              # noqa: E731
            a = self.block(st.body, set(env), fin, ind + 2)
            b = self.block(st.orelse, set(env), fin, ind + 2)
            env2 = set(env) | set(w)
            return (f"{pad}pbind (e_if {test}\n{pad}    (\n{a})\n{pad}    (\n{b})) (fun {self.pat(w)} =>\n"
                    f"{self.block(rest, env2, tail, ind)})")
        if isinstance(st, ast.Raise):
            exc = st.exc
            if isinstance(exc, ast.Call) and not exc.keywords:
                exc = exc.func
            if st.cause is not None or not is_name(exc) or exc.id not in EXCEPTIONS or self.shadowed(exc.id, env):
                raise Rejected(f"{where(st)}: raise of something that is not one of {sorted(EXCEPTIONS)}")
            if any(not ignorable(s) for s in rest):
                raise Rejected(f"{where(rest[0])}: statement after raise")
            return f"{pad}Err {exc.id}"
        if isinstance(st, ast.Return):
            if any(not ignorable(s) for s in rest):
                raise Rejected(f"{where(rest[0])}: statement after return")
            if st.value is None:
                raise Rejected(f"{where(st)}: return without a value")
            if isinstance(st.value, ast.Tuple):
                elts = [self.expr(v, env) for v in st.value.elts]
                if len(elts) < 2:
                    raise Rejected(f"{where(st)}: return of a tuple with fewer than two entries")
                names = [f"r{k + 1}_" for k in range(len(elts))]
                out = f"{pad}pret ({', '.join(names)})" + ")" * len(elts)
                for nm, el in reversed(list(zip(names, elts))):
                    out = f"{pad}pbind {el} (fun {nm} =>\n{out}"
                return out
            return f"{pad}{self.expr(st.value, env)}"
        raise Rejected(f"{where(st)}: statement {type(st).__name__} is not supported")

    # ---------------- the definition ----------------
    def translate(self):
        fn = self.fn
        a = fn.args
        if fn.decorator_list or a.vararg or a.kwarg or a.kwonlyargs or a.posonlyargs or isinstance(fn, ast.AsyncFunctionDef):
            raise Rejected(f"{fn.name} {where(fn)}: decorators / star / keyword-only parameters")
        names = [x.arg for x in a.args]
        if not names or names[0] != "self":
            raise Rejected(f"{fn.name} {where(fn)}: first parameter is not self")
        params = [self.ident(n, fn) for n in names[1:]]
        if len(set(params)) != len(params):
            raise Rejected(f"{fn.name}: repeated parameter")
        defaults = dict(zip(reversed(params), reversed(a.defaults)))
        if len(a.defaults) > len(params):
            raise Rejected(f"{fn.name}: default value for self")

        def no_tail(env):
            raise Rejected(f"{fn.name} {where(fn)}: the function can fall off its end without `return`")

        body = self.block(list(fn.body), set(params), no_tail, 2)
        V = "V"
        binders = []
        if params:
            binders.append(f"({' '.join(params)} : {V})")
        sig = list(params)
        for name in sorted(self.oracles):
            kind, nargs, arity = self.oracles[name]
            res = V if arity == 1 else " * ".join([V] * arity)
            ty = f"result ({res})"
            if kind == "attr":
                ty = V
            elif nargs == 1:
                ty = f"{V} -> {ty}"
            binders.append(f"({name} : {ty})")
            sig.append(name)
        out = [f"  (* {self.origin}, line {fn.lineno}; arguments after Ops: {' '.join(sig) or '-'} *)"]
        for p in params:
            if p in defaults:
                out.append(f"  Definition {self.gen_name}_default_{p} : result {V} := {self.expr(defaults[p], set())}.")
        out.append(f"  Definition {self.gen_name} {' '.join(binders)} :=\n{body}.")
        return "\n".join(out) + "\n"


def find_method(tree, cls, name, path):
    cs = [n for n in tree.body if isinstance(n, ast.ClassDef) and n.name == cls]
    if len(cs) != 1:
        raise Rejected(f"{path}: class {cls} not found exactly once")
    fs = [n for n in cs[0].body if isinstance(n, (ast.FunctionDef, ast.AsyncFunctionDef)) and n.name == name]
    if len(fs) != 1:
        raise Rejected(f"{path}: method {cls}.{name} not found exactly once")
    for n in ast.walk(cs[0]):
        # a later rebinding of the method in the class body would replace the translated one
        if isinstance(n, ast.Assign) and n in cs[0].body:
            for t in n.targets:
                if is_name(t, name):
                    raise Rejected(f"{path}: {cls}.{name} is rebound in the class body")
    return fs[0]


def translate_one(key, repo=None):
    rel, cls, name, gen = TARGETS[key]
    path = os.path.join(repo or _REPO, rel)
    try:
        with open(path, encoding="utf-8") as fh:
            src = fh.read()
        tree = ast.parse(src)
    except (OSError, SyntaxError, ValueError) as ex:
        raise Rejected(f"{rel}: cannot read / parse: {ex}")
    fn = find_method(tree, cls, name, rel)
    return Fn(fn, Module(tree), gen, f"{cls}.{name} in {rel}").translate()


HEADER = """(* GENERATED by harness/translate_getqubo.py from the Python source under test.  Do not edit. *)
From Coq Require Import ZArith List.
From VQ Require Import Base LinAlg PyMat.
Import ListNotations.

Section Gen.
  Variable Ops : ring_ops.
  Notation V := (val (rK Ops)).

"""
FOOTER = "End Gen.\n"


def build(keys, repo=None):
    return HEADER + "\n".join(translate_one(k, repo) for k in keys) + FOOTER


def translate(repo=None):
    return OrderedDict([("GetQuboGen.v", build(["get_qubo"], repo))])


def translate_suffpen(repo=None):
    return OrderedDict([("SuffPenGen.v", build(["get_qubo", "arc", "path", "seq"], repo))])


if __name__ == "__main__":
    import sys
    print(build(["get_qubo", "arc", "path", "seq"], sys.argv[1] if len(sys.argv) > 1 else None))
