"""translate_small.py -- fail-closed translator  Python ast -> Gallina  for src/vrpqubo/examples/small.py
(the Desrochers / Desrosiers / Solomon example every test of test_small.py and the C08 anchors use).

Entry:  translate() -> {"SmallGen.v": text}          (obligations in coq/genprops/C08_small_gen.v)

The module is a BUILDER: it makes one VRPTW by a fixed list of calls with literal arguments and hands it to the
three formulation classes.  What the calls DO is the business of the other packages (Vrptw.v / Path.v, tied to the
classes by C15_gen / C06_gen and by correspondence); this translator only reads off WHICH calls are made, in which
order, with which literals, and prints them as the operation list of the path-based model (Path.pop) plus the
literal defaults of the other getters.  Accepted shapes (anything else raises Rejected with the line number):

  get_vrptw():        vrp = VRPTW()
                      vrp.set_vehicle_cap(INT) / vrp.set_initial_loading(INT)          (each exactly once)
                      vrp.add_node(STR, INT, (NUM, NUM | np.inf))
                      vrp.set_depot(STR)         only for the FIRST node added, directly after it was added
                                                 (then the call does not move anything: Vrptw.set_depot on position 0)
                      vrp.add_arc(STR, STR, INT, INT)
                      return vrp
  get_high_cost():    return INT
  get_arc_based(time_points=None):   if time_points is None: time_points = [INT, ...]
                      vrp = get_vrptw(); x = ArcBasedRoutingProblem(vrp); x.add_time_points(time_points); return x
  get_path_based():   vrp = get_vrptw(); p = PathBasedRoutingProblem(vrp)
                      routes = [None]*K ; routes[i] = [STR, ...] for i = 0..K-1, each index exactly once
                      for route in routes: <a, b> = p.add_route(route) ; (if-statements that only log)
                      return p
  get_sequence_based(max_vehicles=INT, max_sequence_length=INT):
                      vrp = get_vrptw(); s = SequenceBasedRoutingProblem(vrp)
                      s.set_max_vehicles(max_vehicles); s.set_max_sequence_length(max_sequence_length); return s

Node names are printed as the numbers 10, 11, ... in the order of their add_node calls (Path.v names are numbers; the
numbering is injective by construction and a name that is used before it was added is rejected).
Ignored: docstrings, comments, logging calls, `if` statements whose bodies only log.
"""
import ast
import os

try:
    from vq import core
    _REPO = core.REPO
except Exception:  # noqa  (stand-alone use)
    _REPO = os.environ.get("VQ_REPO", "/repo")

REL = "src/vrpqubo/examples/small.py"


class Rejected(Exception):
    pass


def where(n):
    return f"{REL} line {getattr(n, 'lineno', '?')}"


def body_of(fn):
    """Statements of a function without docstring; logging-only statements dropped."""
    out = []
    for k, st in enumerate(fn.body):
        if k == 0 and isinstance(st, ast.Expr) and isinstance(st.value, ast.Constant) and isinstance(st.value.value, str):
            continue
        if is_log(st):
            continue
        out.append(st)
    return out


def is_log(st):
    if isinstance(st, ast.Expr) and isinstance(st.value, ast.Call):
        f = st.value.func
        return isinstance(f, ast.Attribute) and isinstance(f.value, ast.Name) and f.value.id in ("logger", "logging")
    if isinstance(st, ast.If):
        return all(is_log(s) for s in st.body) and all(is_log(s) for s in st.orelse) and pure_test(st.test)
    if isinstance(st, ast.Pass):
        return True
    return False


def pure_test(e):
    """A test that cannot have an effect: names, `not`, boolean operators."""
    if isinstance(e, ast.Name):
        return True
    if isinstance(e, ast.UnaryOp) and isinstance(e.op, ast.Not):
        return pure_test(e.operand)
    if isinstance(e, ast.BoolOp):
        return all(pure_test(v) for v in e.values)
    return False


def lit_int(e, what):
    if isinstance(e, ast.UnaryOp) and isinstance(e.op, ast.USub):
        return -lit_int(e.operand, what)
    if isinstance(e, ast.Constant) and type(e.value) is int:
        return e.value
    raise Rejected(f"{where(e)}: {what} must be an integer literal")


def lit_str(e, what):
    if isinstance(e, ast.Constant) and type(e.value) is str:
        return e.value
    raise Rejected(f"{where(e)}: {what} must be a string literal")


def lit_hi(e, np_names):
    if isinstance(e, ast.Attribute) and e.attr == "inf" and isinstance(e.value, ast.Name) and e.value.id in np_names:
        return None
    return lit_int(e, "window end")


def method_call(st, obj):
    """`obj.m(args)` as an expression statement -> (m, args) or None."""
    if isinstance(st, ast.Expr) and isinstance(st.value, ast.Call):
        c = st.value
        if isinstance(c.func, ast.Attribute) and isinstance(c.func.value, ast.Name) and c.func.value.id == obj and not c.keywords:
            return c.func.attr, c.args
    return None


def assign_call(st, callee=None):
    """`x = f(args)` -> (x, f, args) or None (f a plain name)."""
    if isinstance(st, ast.Assign) and len(st.targets) == 1 and isinstance(st.targets[0], ast.Name) and isinstance(st.value, ast.Call):
        c = st.value
        if isinstance(c.func, ast.Name) and not c.keywords and (callee is None or c.func.id == callee):
            return st.targets[0].id, c.func.id, c.args
    return None


def Z(v):
    return f"({v})" if v < 0 else str(v)


class Small:
    def __init__(self, tree):
        self.np_names, self.classes = set(), {}
        self.fns = {}
        for n in ast.walk(tree):
            if isinstance(n, (ast.Global, ast.Nonlocal)):
                raise Rejected(f"{where(n)}: global / nonlocal statement")
        for n in tree.body:
            if isinstance(n, ast.Import):
                for a in n.names:
                    if a.name == "numpy":
                        self.np_names.add(a.asname or "numpy")
            elif isinstance(n, ast.ImportFrom):
                for a in n.names:
                    if a.name == "*":
                        raise Rejected(f"{where(n)}: star import")
                    self.classes[a.asname or a.name] = a.name
            elif isinstance(n, ast.FunctionDef):
                if n.name in self.fns:
                    raise Rejected(f"{where(n)}: {n.name} defined twice")
                if n.decorator_list:
                    raise Rejected(f"{where(n)}: decorated function")
                self.fns[n.name] = n
            elif isinstance(n, ast.Assign) and len(n.targets) == 1 and isinstance(n.targets[0], ast.Name) and n.targets[0].id == "logger":
                continue
            elif isinstance(n, ast.Expr) and isinstance(n.value, ast.Constant):
                continue
            else:
                raise Rejected(f"{where(n)}: module-level statement outside the accepted fragment")
        for need in ("get_vrptw", "get_high_cost", "get_arc_based", "get_path_based", "get_sequence_based"):
            if need not in self.fns:
                raise Rejected(f"{REL}: function {need} is missing")
        for cls in ("VRPTW", "ArcBasedRoutingProblem", "PathBasedRoutingProblem", "SequenceBasedRoutingProblem"):
            if self.classes.get(cls) != cls:
                raise Rejected(f"{REL}: {cls} is not imported under its own name")

    # ------------------------------------------------------------------ get_vrptw
    def vrptw(self):
        fn = self.fns["get_vrptw"]
        if fn.args.args or fn.args.vararg or fn.args.kwarg or fn.args.kwonlyargs:
            raise Rejected(f"{where(fn)}: get_vrptw takes arguments")
        body = body_of(fn)
        if not body:
            raise Rejected(f"{where(fn)}: empty body")
        first = assign_call(body[0], "VRPTW")
        if not first or first[2]:
            raise Rejected(f"{where(body[0])}: expected `<name> = VRPTW()`")
        obj = first[0]
        last = body[-1]
        if not (isinstance(last, ast.Return) and isinstance(last.value, ast.Name) and last.value.id == obj):
            raise Rejected(f"{where(last)}: expected `return {obj}`")
        names, ops = {}, []
        cap = init = None
        for st in body[1:-1]:
            mc = method_call(st, obj)
            if not mc:
                raise Rejected(f"{where(st)}: expected a method call on {obj}")
            m, args = mc
            if m == "set_vehicle_cap" and len(args) == 1 and cap is None:
                cap = lit_int(args[0], "capacity")
            elif m == "set_initial_loading" and len(args) == 1 and init is None:
                init = lit_int(args[0], "initial loading")
            elif m == "add_node" and len(args) == 3:
                nm = lit_str(args[0], "node name")
                if nm in names:
                    raise Rejected(f"{where(st)}: node {nm!r} added twice")
                dem = lit_int(args[1], "demand")
                if not (isinstance(args[2], ast.Tuple) and len(args[2].elts) == 2):
                    raise Rejected(f"{where(st)}: the time window must be a pair")
                lo = lit_int(args[2].elts[0], "window start")
                hi = lit_hi(args[2].elts[1], self.np_names)
                names[nm] = 10 + len(names)
                ops.append(("node", names[nm], dem, lo, hi, nm))
            elif m == "set_depot" and len(args) == 1:
                nm = lit_str(args[0], "depot name")
                if not (len(names) == 1 and nm in names and ops and ops[-1][0] == "node"):
                    raise Rejected(f"{where(st)}: set_depot is accepted only for the first node, directly after it was added")
                ops.append(("depot", names[nm]))
            elif m == "add_arc" and len(args) == 4:
                o, d = lit_str(args[0], "origin"), lit_str(args[1], "destination")
                if o not in names or d not in names:
                    raise Rejected(f"{where(st)}: arc between nodes that were not added before")
                ops.append(("arc", names[o], names[d], lit_int(args[2], "travel time"), lit_int(args[3], "cost"), o, d))
            else:
                raise Rejected(f"{where(st)}: call {m} with {len(args)} arguments is outside the accepted fragment")
        if cap is None or init is None:
            raise Rejected(f"{where(fn)}: capacity / initial loading not set exactly once")
        if not any(o[0] == "depot" for o in ops):
            raise Rejected(f"{where(fn)}: no set_depot call")
        return cap, init, names, ops

    # ------------------------------------------------------------------ the getters
    def high_cost(self):
        body = body_of(self.fns["get_high_cost"])
        if len(body) == 1 and isinstance(body[0], ast.Return):
            return lit_int(body[0].value, "high cost")
        raise Rejected(f"{where(self.fns['get_high_cost'])}: expected `return INT`")

    def wraps(self, body, k, cls):
        """body[k], body[k+1] = `v = get_vrptw()`, `x = cls(v)` -> x"""
        a = assign_call(body[k], "get_vrptw")
        if not a or a[2]:
            raise Rejected(f"{where(body[k])}: expected `<name> = get_vrptw()`")
        b = assign_call(body[k + 1], cls)
        if not b or len(b[2]) != 1 or not (isinstance(b[2][0], ast.Name) and b[2][0].id == a[0]):
            raise Rejected(f"{where(body[k + 1])}: expected `<name> = {cls}({a[0]})`")
        return b[0]

    def ret(self, st, x):
        if not (isinstance(st, ast.Return) and isinstance(st.value, ast.Name) and st.value.id == x):
            raise Rejected(f"{where(st)}: expected `return {x}`")

    def arc_based(self):
        fn = self.fns["get_arc_based"]
        a = fn.args
        if [x.arg for x in a.args] != ["time_points"] or len(a.defaults) != 1 or not (isinstance(a.defaults[0], ast.Constant) and a.defaults[0].value is None):
            raise Rejected(f"{where(fn)}: expected get_arc_based(time_points=None)")
        body = body_of(fn)
        if len(body) != 5:
            raise Rejected(f"{where(fn)}: expected five statements")
        st = body[0]
        ok = (isinstance(st, ast.If) and not st.orelse and len(st.body) == 1 and isinstance(st.test, ast.Compare)
              and isinstance(st.test.left, ast.Name) and st.test.left.id == "time_points" and len(st.test.ops) == 1
              and isinstance(st.test.ops[0], ast.Is) and isinstance(st.test.comparators[0], ast.Constant)
              and st.test.comparators[0].value is None)
        if ok:
            asg = st.body[0]
            ok = (isinstance(asg, ast.Assign) and len(asg.targets) == 1 and isinstance(asg.targets[0], ast.Name)
                  and asg.targets[0].id == "time_points" and isinstance(asg.value, ast.List))
        if not ok:
            raise Rejected(f"{where(st)}: expected `if time_points is None: time_points = [...]`")
        grid = [lit_int(e, "time point") for e in st.body[0].value.elts]
        x = self.wraps(body, 1, "ArcBasedRoutingProblem")
        mc = method_call(body[3], x)
        if not (mc and mc[0] == "add_time_points" and len(mc[1]) == 1 and isinstance(mc[1][0], ast.Name) and mc[1][0].id == "time_points"):
            raise Rejected(f"{where(body[3])}: expected `{x}.add_time_points(time_points)`")
        self.ret(body[4], x)
        return grid

    def path_based(self, names):
        fn = self.fns["get_path_based"]
        if fn.args.args:
            raise Rejected(f"{where(fn)}: get_path_based takes arguments")
        body = body_of(fn)
        if len(body) < 5:
            raise Rejected(f"{where(fn)}: body too short")
        p = self.wraps(body, 0, "PathBasedRoutingProblem")
        st = body[2]
        ok = (isinstance(st, ast.Assign) and len(st.targets) == 1 and isinstance(st.targets[0], ast.Name)
              and isinstance(st.value, ast.BinOp) and isinstance(st.value.op, ast.Mult) and isinstance(st.value.left, ast.List)
              and len(st.value.left.elts) == 1 and isinstance(st.value.left.elts[0], ast.Constant) and st.value.left.elts[0].value is None)
        if not ok:
            raise Rejected(f"{where(st)}: expected `routes = [None]*K`")
        var, K = st.targets[0].id, lit_int(st.value.right, "number of routes")
        routes = {}
        for st in body[3:-2]:
            ok = (isinstance(st, ast.Assign) and len(st.targets) == 1 and isinstance(st.targets[0], ast.Subscript)
                  and isinstance(st.targets[0].value, ast.Name) and st.targets[0].value.id == var and isinstance(st.value, ast.List))
            if not ok:
                raise Rejected(f"{where(st)}: expected `{var}[i] = [names]`")
            i = lit_int(st.targets[0].slice, "route index")
            if i in routes or not 0 <= i < K:
                raise Rejected(f"{where(st)}: route index {i} out of range or assigned twice")
            r = [lit_str(e, "stop") for e in st.value.elts]
            for s in r:
                if s not in names:
                    raise Rejected(f"{where(st)}: stop {s!r} is not a node of get_vrptw")
            routes[i] = r
        if sorted(routes) != list(range(K)):
            raise Rejected(f"{where(fn)}: not every one of the {K} routes is assigned")
        loop = body[-2]
        ok = (isinstance(loop, ast.For) and not loop.orelse and isinstance(loop.target, ast.Name)
              and isinstance(loop.iter, ast.Name) and loop.iter.id == var)
        if ok:
            lb = [s for s in loop.body if not is_log(s)]
            ok = len(lb) == 1 and isinstance(lb[0], ast.Assign) and isinstance(lb[0].value, ast.Call)
            if ok:
                c = lb[0].value
                ok = (isinstance(c.func, ast.Attribute) and c.func.attr == "add_route" and isinstance(c.func.value, ast.Name)
                      and c.func.value.id == p and len(c.args) == 1 and not c.keywords and isinstance(c.args[0], ast.Name)
                      and c.args[0].id == loop.target.id)
        if not ok:
            raise Rejected(f"{where(loop)}: expected `for route in {var}: ... = {p}.add_route(route)`")
        self.ret(body[-1], p)
        return [routes[i] for i in range(K)]

    def sequence_based(self):
        fn = self.fns["get_sequence_based"]
        a = fn.args
        if [x.arg for x in a.args] != ["max_vehicles", "max_sequence_length"] or len(a.defaults) != 2:
            raise Rejected(f"{where(fn)}: expected get_sequence_based(max_vehicles=INT, max_sequence_length=INT)")
        V, L = lit_int(a.defaults[0], "max_vehicles"), lit_int(a.defaults[1], "max_sequence_length")
        body = body_of(fn)
        if len(body) != 5:
            raise Rejected(f"{where(fn)}: expected five statements")
        s = self.wraps(body, 0, "SequenceBasedRoutingProblem")
        seen = set()
        for st in body[2:4]:
            mc = method_call(st, s)
            if not mc or len(mc[1]) != 1 or not isinstance(mc[1][0], ast.Name):
                raise Rejected(f"{where(st)}: expected a setter call")
            if (mc[0], mc[1][0].id) not in (("set_max_vehicles", "max_vehicles"), ("set_max_sequence_length", "max_sequence_length")):
                raise Rejected(f"{where(st)}: setter / argument mismatch")
            seen.add(mc[0])
        if len(seen) != 2:
            raise Rejected(f"{where(fn)}: both setters must be called once")
        self.ret(body[4], s)
        return V, L


def translate():
    path = os.path.join(_REPO, REL)
    S = Small(ast.parse(open(path).read()))
    cap, init, names, ops = S.vrptw()
    high = S.high_cost()
    grid = S.arc_based()
    routes = S.path_based(names)
    V, L = S.sequence_based()
    out = ["(* GENERATED by harness/translate_small.py from " + REL + " -- do not edit; rewritten on every run of bin/check C08 *)",
           "From Coq Require Import ZArith List.", "From VQ Require Import Base Vrptw Path.", "Import ListNotations.", "Open Scope Z_scope.", ""]
    out.append("(* node names in the order of their add_node calls: " + ", ".join(f"{nm!r} = {k}" for nm, k in names.items()) + " *)")
    out.append(f"Definition small_cap : Z := {Z(cap)}.")
    out.append(f"Definition small_init : Z := {Z(init)}.")
    out.append(f"Definition small_depot_name : nat := {[o for o in ops if o[0] == 'depot'][0][1]}%nat.")
    lines = []
    for o in ops:
        if o[0] == "node":
            hi = "PInf" if o[4] is None else f"(Fin {Z(o[4])})"
            lines.append(f"PAddNode {o[1]}%nat {Z(o[2])} {Z(o[3])} {hi}")
        elif o[0] == "arc":
            lines.append(f"PAddArc {o[1]}%nat {o[2]}%nat {Z(o[3])} {Z(o[4])}")
    out.append("(* get_vrptw: the add_node / add_arc calls in source order (set_depot names the first node, directly after it was added) *)")
    out.append("Definition small_build : list pop :=\n  [ " + ";\n    ".join(lines) + " ].")
    out.append("(* get_path_based: add_route on every listed route, by names *)")
    rl = ["PAddRoute [" + "; ".join(f"inl {names[s]}%nat" for s in r) + "]" for r in routes]
    out.append("Definition small_route_ops : list pop :=\n  [ " + ";\n    ".join(rl) + " ].")
    out.append("Definition small_time_points : list Z := [" + "; ".join(Z(t) for t in grid) + "].")
    out.append(f"Definition small_high_cost : Z := {Z(high)}.")
    out.append(f"Definition small_max_vehicles : nat := {V}%nat.")
    out.append(f"Definition small_max_sequence_length : nat := {L}%nat.")
    return {"SmallGen.v": "\n".join(out) + "\n"}


if __name__ == "__main__":
    print(translate()["SmallGen.v"])
