"""translate_path.py -- fail-closed translator  path_based_rp.py -> coq/gen/PathGen.v   (property C06).

Reads the source of `PathBasedRoutingProblem` from the tree under test and prints, for each of

    get_num_variables, check_arc, check_route, add_route,
    get_math_program_data, get_objective_data, get_constraint_data

one Gallina definition `gen_<name>` (plus one `gen_<name>_loop<k>` per `for` loop: the loop BODY as a
function of the loop variable and the loop-carried variables).  coq/genprops/C06_gen.v proves the
generated definitions equal to the hand model Path.v for all inputs.

The translator is a typed, syntax-directed printer of a small imperative fragment:

  statements   x = e | x, y, _ = self.m(...) | x op= e | l[i] = e | M[rows, cols] = e
               x = y for a list parameter y (alias: later writes through x are writes to the caller's list)
               if / else | for x in range(e) | for x in <tuple of int constants> | for j, x in enumerate(e)
               try: <assignments> except KeyError: <block ending in return>
               return e | return e1, ..., en | self.<list>.append(e) | pass
               docstrings and logger.<level>(...) calls are ignored
  expressions  int / bool constants, names, self.<field>, + - * (ints), unary -, not, and / or
               (short-circuit), the six comparisons (ints, floats that may be inf, str-or-int == int),
               `x in self.routes`, l[i], t[0] / t[1], self.arcs[key], (a, b), [c] * n, len, max, min,
               isinstance(x, str), list(x), the accessor methods of Arc / Node, self.get_node_index,
               calls of already translated methods, np.flatnonzero / array / asarray / ones / zeros,
               sparse.csr_array, M[mask, :]

What each printed combinator MEANS (Python list indexing with negative wrap and IndexError, dict lookup
with KeyError, list.index with ValueError, early return from a loop, ...) is defined in
coq/theories/PyPath.v -- not here.  Operators and constants are printed from the ast node, never from
the source text.  Anything outside the fragment raises `Rejected` with the line number.

Value semantics and aliasing: Gallina has no heap.  The only aliasing the fragment admits is (a) a
local name bound to a list PARAMETER (`route_indices = candidate_route`): reads and writes through the
alias are reads and writes of the parameter, whose final value is part of the function's result; and
(b) nothing else: storing a parameter (or an alias of one) into self without `list(...)` is rejected,
because the stored object would keep changing with the caller's list, which a value cannot express.
"""
import ast
import os
from collections import OrderedDict

CLASS = "PathBasedRoutingProblem"
REL = "src/vrpqubo/routing_problem/formulations/path_based_rp.py"
VREL = "src/vrpqubo/routing_problem/vrptw.py"


class Rejected(Exception):
    pass


def where(node):
    return f"line {getattr(node, 'lineno', '?')}"


# ---------------------------------------------------------------------------------------------
# types
# ---------------------------------------------------------------------------------------------
COQ_TY = {
    "Z": "Z", "bool": "bool", "ext": "ext", "elem": "elem", "node": "node", "arc": "arc",
    "window": "(Z * ext)", "zlist": "(list Z)", "elems": "(list elem)", "key": "(elem * elem)",
    "natlist": "(list nat)", "natlists": "(list (list nat))", "boollist": "(list bool)", "mat": "mat",
    "ztuple": "(list Z)",
}
LIST_ELEM = {"zlist": "Z", "elems": "elem", "boollist": "bool"}          # subscriptable Python lists
LEN_OK = {"zlist", "elems", "boollist", "natlist", "natlists", "nodelist", "namelist", "routes"}
MUTABLE = {"zlist", "elems", "boollist", "natlist", "natlists", "mat"}


def coq_ty(t):
    if isinstance(t, tuple):
        return "(" + " * ".join(coq_ty(x) for x in t[1]) + ")"
    if t not in COQ_TY:
        raise Rejected(f"internal: no Coq type for {t}")
    return COQ_TY[t]


# self.<field> reads: type and term (st is the current value of self)
SELF_FIELDS = {
    "nodes": ("nodelist", "(nodes (pg st))"),
    "node_names": ("namelist", "(names (pg st))"),
    "arcs": ("arcsdict", None),
    "depot_index": ("Z", "(py_depot_index st)"),
    "vehicle_cap": ("Z", "(pcap st)"),
    "initial_loading": ("Z", "(pinit st)"),
    "routes": ("routes", "(proutes st)"),
    "route_costs": ("zlist", "(pcosts st)"),
    "route_node_visited": ("natlists", "(pvisited st)"),
}
# self.<field>.append(v): required type of v, combinator
SELF_APPEND = {
    "routes": ("elems", "st_append_routes"),
    "route_costs": ("Z", "st_append_route_costs"),
    "route_node_visited": ("natlist", "st_append_route_node_visited"),
}
# accessor methods of Arc / Node (vrptw.py) used by the methods above: class, receiver type, method, result type.
# Their one-line bodies `return <expression over self.<field>>` are translated as well (gen_<Class>_<method>).
ACCESSOR_LIST = [
    ("Arc", "arc", "get_destination", "node"),
    ("Arc", "arc", "get_travel_time", "Z"),
    ("Arc", "arc", "get_cost", "Z"),
    ("Node", "node", "get_window", "window"),
    ("Node", "node", "get_load", "Z"),
]
ACCESSORS = {(rt, m): (ty, (lambda c, m: (lambda r: f"(gen_{c}_{m} st {r})"))(c, m)) for c, rt, m, ty in ACCESSOR_LIST}
# fields of the record that represents a Node / an Arc object (self_ is the object); the Node objects an Arc
# refers to are found by their unique name (Path.node_named)
CLASS_FIELDS = {
    "Node": {"demand": ("Z", "(ndemand self_)"), "time_window": ("window", "(nlo self_, nhi self_)")},
    "Arc": {"origin": ("node", "(node_named (pg st) (aorig self_))"),
            "destination": ("node", "(node_named (pg st) (adest self_))"),
            "travel_time": ("Z", "(att self_)"), "cost": ("Z", "(acost self_)")},
}
# the functions translated, in this order; parameter types by position and the declared result type
FUNCS = OrderedDict([
    ("get_num_variables", ([], "Z")),
    ("check_arc", (["Z", "Z", "key"], ("tuple", ["bool", "Z", "Z"]))),
    ("check_route", (["elems"], ("tuple", ["bool", "Z", "zlist"]))),
    ("add_route", (["elems"], ("tuple", ["bool", "bool"]))),
    ("get_math_program_data", ([], ("tuple", ["zlist", "mat", "zlist"]))),
    ("get_objective_data", ([], ("tuple", ["zlist", "mat"]))),
    ("get_constraint_data", ([], ("tuple", ["mat", "zlist", "mat", "Z"]))),
])
Z_CMP = {ast.Lt: "<?", ast.LtE: "<=?", ast.Gt: ">?", ast.GtE: ">=?", ast.Eq: "=?"}
EXT_CMP = {ast.Lt: "ext_ltb", ast.LtE: "ext_leb", ast.Gt: "ext_gtb", ast.GtE: "ext_geb", ast.Eq: "ext_eqb"}
Z_BIN = {ast.Add: "+", ast.Sub: "-", ast.Mult: "*"}


class Var:
    def __init__(self, ty, canon, is_param=False, const=None):
        self.ty = ty                # type
        self.canon = canon          # Python name of the variable that owns the value (itself unless an alias)
        self.is_param = is_param    # the caller can still reach the object
        self.const = const          # list of ints for a name bound to a tuple of int constants

    @property
    def coq(self):
        return "v_" + self.canon


class Ex:
    """A translated expression: type, term, whether the term has type `result <type>`, whether the value
    is a freshly built object (nobody else holds it)."""
    def __init__(self, ty, term, raising=False, fresh=True, var=None):
        self.ty, self.term, self.raising, self.fresh, self.var = ty, term, raising, fresh, var


def is_docstring(st):
    return isinstance(st, ast.Expr) and isinstance(st.value, ast.Constant) and isinstance(st.value.value, str)


def is_self(node):
    return isinstance(node, ast.Name) and node.id == "self"


def is_logger_call(st):
    if not (isinstance(st, ast.Expr) and isinstance(st.value, ast.Call)):
        return False
    f = st.value.func
    if not (isinstance(f, ast.Attribute) and isinstance(f.value, ast.Name) and f.value.id == "logger"
            and f.attr in ("debug", "info", "warning", "error", "critical")):
        return False
    # the arguments are evaluated by Python: accept only things that cannot raise or have an effect
    for a in list(st.value.args) + [k.value for k in st.value.keywords]:
        for n in ast.walk(a):
            if isinstance(n, (ast.Call, ast.Subscript, ast.NamedExpr, ast.Await, ast.Yield, ast.YieldFrom,
                              ast.BinOp, ast.Lambda, ast.ListComp, ast.GeneratorExp, ast.DictComp, ast.SetComp)):
                raise Rejected(f"{where(st)}: logger call with an argument that is evaluated ({type(n).__name__})")
    return True


def falls_through(stmts):
    """Syntactic: can control reach the end of this block?"""
    for st in stmts:
        if isinstance(st, (ast.Return, ast.Raise)):
            return False
        if isinstance(st, ast.If) and st.orelse and not falls_through(st.body) and not falls_through(st.orelse):
            return False
    return True


# ---------------------------------------------------------------------------------------------
class FnInfo:
    def __init__(self, name, params, ret, mut_params, mut_self):
        self.name, self.params, self.ret, self.mut_params, self.mut_self = name, params, ret, mut_params, mut_self
        # params: [(python name, type)]; mut_params: python names of parameters whose object is modified

    @property
    def gen(self):
        return "gen_" + self.name

    def out_type(self):
        parts = (["pstate"] if self.mut_self else []) + [coq_ty(dict(self.params)[p]) for p in self.mut_params]
        parts.append(f"result {coq_ty(self.ret)}")
        return "(" + " * ".join(parts) + ")"


class Ctx:
    """How `return v` / `raise e` / falling off the end are printed at the current position."""
    def __init__(self, fn, loop=False, handler=None, outer=None):
        self.fn, self.loop, self.handler, self.outer = fn, loop, handler, outer

    def out(self, res):
        parts = (["st"] if self.fn.mut_self else []) + ["v_" + p for p in self.fn.mut_params] + [res]
        t = "(" + ", ".join(parts) + ")" if len(parts) > 1 else res
        return f"Stop {t}" if self.loop else t

    def ret(self, term):
        return self.out(f"(Ok {term})")

    def raise_(self, e):
        if self.handler is not None:
            cls, hterm = self.handler
            return f"if errcls_eqb {e} {cls} then {hterm} else {self.outer.raise_(e)}"
        return self.out(f"(Err {e})")


class Translator:
    def __init__(self, cls):
        self.cls = cls
        self.methods = {}
        for n in cls.body:
            if isinstance(n, ast.FunctionDef):
                if n.name in self.methods:
                    raise Rejected(f"{where(n)}: {n.name} is defined twice")
                self.methods[n.name] = n
        self.done = OrderedDict()       # name -> FnInfo
        self.texts = []
        self.n = 0
        self.fields = SELF_FIELDS

    def accessor(self, cls, recv_ty, mname, ret_ty):
        """def m(self): return <expr over self.<field>>   of class Node / Arc."""
        fns = [n for n in cls.body if isinstance(n, ast.FunctionDef) and n.name == mname]
        if len(fns) != 1:
            raise Rejected(f"{cls.name}.{mname} not found (or defined twice)")
        fn = fns[0]
        a = fn.args
        if [x.arg for x in a.args] != ["self"] or a.vararg or a.kwarg or a.kwonlyargs or a.posonlyargs or a.defaults \
                or fn.decorator_list:
            raise Rejected(f"{where(fn)}: {cls.name}.{mname} is not a plain method of self")
        body = [x for x in fn.body if not is_docstring(x) and not isinstance(x, ast.Pass)]
        if len(body) != 1 or not isinstance(body[0], ast.Return) or body[0].value is None:
            raise Rejected(f"{where(fn)}: {cls.name}.{mname} is not a single `return <expression>`")
        self.fields = CLASS_FIELDS[cls.name]
        try:
            ex = self.expr(body[0].value, {})
        finally:
            self.fields = SELF_FIELDS
        if ex.ty != ret_ty or ex.raising:
            raise Rejected(f"{where(fn)}: {cls.name}.{mname} returns {ex.ty}, expected {ret_ty}")
        self.texts.append(f"(* {cls.name}.{mname}, {where(fn)} *)\n"
                          f"Definition gen_{cls.name}_{mname} (st : pstate) (self_ : {coq_ty(recv_ty)}) : {coq_ty(ret_ty)} :=\n"
                          f"  {ex.term}.\n")

    def fresh(self, p):
        self.n += 1
        return f"{p}{self.n}"

    # ------------------------------------------------------------------ effects (which objects a block modifies)
    def canon(self, env, name):
        return env[name].canon if name in env else name

    def assigned(self, stmts, env):
        """Python names (canonical) bound or modified in the block, `self` for a modification of self."""
        out = []

        def add(x):
            if x not in out:
                out.append(x)

        def target(t):
            if isinstance(t, ast.Name):
                add(self.canon(env, t.id))
            elif isinstance(t, ast.Tuple):
                for e in t.elts:
                    target(e)
            elif isinstance(t, ast.Subscript) and isinstance(t.value, ast.Name):
                add(self.canon(env, t.value.id))
            else:
                raise Rejected(f"{where(t)}: assignment target {type(t).__name__}")

        def call_effects(v):
            for c in ast.walk(v):
                if isinstance(c, ast.Call) and isinstance(c.func, ast.Attribute) and is_self(c.func.value) \
                        and c.func.attr in self.done:
                    info = self.done[c.func.attr]
                    if info.mut_self:
                        add("self")
                    for (p, _), a in zip(info.params, c.args):
                        if p in info.mut_params:
                            if not isinstance(a, ast.Name):
                                raise Rejected(f"{where(c)}: {info.name} modifies its argument, which must be a plain name")
                            add(self.canon(env, a.id))

        def go(block):
            for st in block:
                if isinstance(st, ast.Assign):
                    for t in st.targets:
                        target(t)
                    call_effects(st.value)
                elif isinstance(st, ast.AugAssign):
                    target(st.target)
                    call_effects(st.value)
                elif isinstance(st, ast.For):
                    target(st.target)
                    call_effects(st.iter)
                    go(st.body)
                    go(st.orelse)
                elif isinstance(st, ast.If):
                    call_effects(st.test)
                    go(st.body)
                    go(st.orelse)
                elif isinstance(st, ast.Try):
                    go(st.body)
                    for h in st.handlers:
                        go(h.body)
                    go(st.orelse)
                    go(st.finalbody)
                elif isinstance(st, ast.Expr):
                    v = st.value
                    if isinstance(v, ast.Call) and isinstance(v.func, ast.Attribute) and v.func.attr == "append" \
                            and isinstance(v.func.value, ast.Attribute) and is_self(v.func.value.value):
                        add("self")
                    call_effects(v)
                elif isinstance(st, ast.Return):
                    if st.value is not None:
                        call_effects(st.value)
                elif isinstance(st, (ast.Pass,)):
                    pass
                else:
                    raise Rejected(f"{where(st)}: statement {type(st).__name__} is outside the accepted fragment")
        go(stmts)
        return out

    # ------------------------------------------------------------------ expressions
    def lift(self, ops, build, raising_result=False):
        """Evaluate the operands left to right, then `build(pure terms)`.  Returns (term, raising)."""
        names, binds = [], []
        for o in ops:
            if o.raising:
                x = self.fresh("x")
                binds.append((x, o.term))
                names.append(x)
            else:
                names.append(o.term)
        body = build(names)
        if not binds:
            return body, raising_result
        if not raising_result:
            body = f"Ok {body}"
        for x, t in reversed(binds):
            body = f"rbind {t} (fun {x} => {body})"
        return f"({body})", True

    def expr(self, e, env):
        if isinstance(e, ast.Constant):
            if isinstance(e.value, bool):
                return Ex("bool", "true" if e.value else "false")
            if isinstance(e.value, int):
                return Ex("Z", f"({e.value})" if e.value < 0 else f"{e.value}")
            raise Rejected(f"{where(e)}: constant {e.value!r}")
        if isinstance(e, ast.Name):
            if e.id not in env:
                raise Rejected(f"{where(e)}: unknown name {e.id!r}")
            v = env[e.id]
            return Ex(v.ty, v.coq, fresh=False, var=v)
        if isinstance(e, ast.Attribute):
            if is_self(e.value) and e.attr in self.fields:
                ty, term = self.fields[e.attr]
                return Ex(ty, term, fresh=False)
            raise Rejected(f"{where(e)}: attribute .{e.attr}")
        if isinstance(e, ast.UnaryOp):
            o = self.expr(e.operand, env)
            if isinstance(e.op, ast.USub) and o.ty == "Z":
                t, r = self.lift([o], lambda a: f"(- {a[0]})")
                return Ex("Z", t, r)
            if isinstance(e.op, ast.Not) and o.ty == "bool":
                t, r = self.lift([o], lambda a: f"(negb {a[0]})")
                return Ex("bool", t, r)
            raise Rejected(f"{where(e)}: unary {type(e.op).__name__} on {o.ty}")
        if isinstance(e, ast.BinOp):
            # [c] * n
            if isinstance(e.op, ast.Mult) and isinstance(e.left, ast.List) and len(e.left.elts) == 1:
                c = self.expr(e.left.elts[0], env)
                n = self.expr(e.right, env)
                if c.ty == "Z" and n.ty == "Z":
                    t, r = self.lift([c, n], lambda a: f"(py_list_repeat {a[0]} {a[1]})")
                    return Ex("zlist", t, r)
            a, b = self.expr(e.left, env), self.expr(e.right, env)
            for cls, sym in Z_BIN.items():
                if isinstance(e.op, cls):
                    if a.ty == "Z" and b.ty == "Z":
                        t, r = self.lift([a, b], lambda x: f"({x[0]} {sym} {x[1]})")
                        return Ex("Z", t, r)
                    if cls is ast.Mult and a.ty == "Z" and b.ty == "zlist":
                        t, r = self.lift([a, b], lambda x: f"(np_scale {x[0]} {x[1]})")
                        return Ex("zlist", t, r)
            raise Rejected(f"{where(e)}: {type(e.op).__name__} on {a.ty}, {b.ty}")
        if isinstance(e, ast.BoolOp):
            ops = [self.expr(v, env) for v in e.values]
            if any(o.ty != "bool" for o in ops):
                raise Rejected(f"{where(e)}: and/or on {[o.ty for o in ops]}")
            is_and = isinstance(e.op, ast.And)
            if not any(o.raising for o in ops):
                sym = "&&" if is_and else "||"
                return Ex("bool", "(" + f" {sym} ".join(o.term for o in ops) + ")")
            # short circuit: later operands are evaluated only when needed
            def as_res(o):
                return o.term if o.raising else f"(Ok {o.term})"
            term = as_res(ops[-1])
            for o in reversed(ops[:-1]):
                x = self.fresh("x")
                if is_and:
                    term = f"(rbind {as_res(o)} (fun {x} => if {x} then {term} else Ok false))"
                else:
                    term = f"(rbind {as_res(o)} (fun {x} => if {x} then Ok true else {term}))"
            return Ex("bool", term, True)
        if isinstance(e, ast.Compare):
            if len(e.ops) != 1:
                raise Rejected(f"{where(e)}: chained comparison")
            op = e.ops[0]
            a, b = self.expr(e.left, env), self.expr(e.comparators[0], env)
            neg = isinstance(op, ast.NotEq)
            base = ast.Eq if neg else type(op)
            wrap = (lambda s: f"(negb {s})") if neg else (lambda s: s)
            if isinstance(op, (ast.In, ast.NotIn)):
                if a.ty == "elems" and b.ty == "routes":
                    w = (lambda s: f"(negb {s})") if isinstance(op, ast.NotIn) else (lambda s: s)
                    t, r = self.lift([a, b], lambda x: w(f"(route_mem {x[0]} {x[1]})"))
                    return Ex("bool", t, r)
                raise Rejected(f"{where(e)}: `in` on {a.ty}, {b.ty}")
            if base not in Z_CMP:
                raise Rejected(f"{where(e)}: comparison {type(op).__name__}")
            if a.ty == "Z" and b.ty == "Z":
                t, r = self.lift([a, b], lambda x: wrap(f"({x[0]} {Z_CMP[base]} {x[1]})"))
                return Ex("bool", t, r)
            if {a.ty, b.ty} <= {"Z", "ext"}:
                inj = lambda o, s: s if o.ty == "ext" else f"(Fin {s})"
                t, r = self.lift([a, b], lambda x: wrap(f"({EXT_CMP[base]} {inj(a, x[0])} {inj(b, x[1])})"))
                return Ex("bool", t, r)
            if base is ast.Eq and a.ty == "elem" and b.ty == "Z":
                t, r = self.lift([a, b], lambda x: wrap(f"(elem_eq_int {x[0]} {x[1]})"))
                return Ex("bool", t, r)
            if base is ast.Eq and a.ty == "Z" and b.ty == "elem":
                t, r = self.lift([a, b], lambda x: wrap(f"(elem_eq_int {x[1]} {x[0]})"))
                return Ex("bool", t, r)
            raise Rejected(f"{where(e)}: comparison {type(op).__name__} on {a.ty}, {b.ty}")
        if isinstance(e, ast.Tuple):
            ops = [self.expr(v, env) for v in e.elts]
            if [o.ty for o in ops] == ["elem", "elem"]:
                t, r = self.lift(ops, lambda x: f"({x[0]}, {x[1]})")
                return Ex("key", t, r)
            raise Rejected(f"{where(e)}: tuple of {[o.ty for o in ops]}")
        if isinstance(e, ast.Subscript):
            return self.subscript(e, env)
        if isinstance(e, ast.Call):
            return self.call(e, env)
        raise Rejected(f"{where(e)}: expression {type(e).__name__} is outside the accepted fragment")

    def index_Z(self, ix):
        """An index expression used as a Python int: a str-or-int element raises TypeError when it is a str."""
        if ix.ty == "Z":
            return ix
        if ix.ty == "elem":
            t, r = self.lift([ix], lambda a: f"(py_int_of_elem {a[0]})", True)
            return Ex("Z", t, r)
        return None

    def subscript(self, e, env):
        # M[mask, :]
        if isinstance(e.slice, ast.Tuple) and len(e.slice.elts) == 2 and isinstance(e.slice.elts[1], ast.Slice):
            sl = e.slice.elts[1]
            v = self.expr(e.value, env)
            m = self.expr(e.slice.elts[0], env)
            if sl.lower is None and sl.upper is None and sl.step is None and v.ty == "mat" and m.ty == "boollist":
                t, r = self.lift([v, m], lambda a: f"(mat_mask_rows {a[0]} {a[1]})", True)
                return Ex("mat", t, r)
            raise Rejected(f"{where(e)}: subscript [{m.ty}, slice] on {v.ty}")
        if isinstance(e.slice, (ast.Slice, ast.Tuple)):
            raise Rejected(f"{where(e)}: slice / tuple subscript")
        # self.arcs[key]
        if isinstance(e.value, ast.Attribute) and is_self(e.value.value) and e.value.attr == "arcs":
            k = self.expr(e.slice, env)
            if k.ty != "key":
                raise Rejected(f"{where(e)}: self.arcs[{k.ty}]")
            t, r = self.lift([k], lambda a: f"(py_arcs_getitem st {a[0]})", True)
            return Ex("arc", t, r, fresh=False)
        v = self.expr(e.value, env)
        if v.ty in ("window", "key"):
            c = e.slice
            if isinstance(c, ast.Constant) and type(c.value) is int and c.value in (0, 1):
                proj = "fst" if c.value == 0 else "snd"
                ety = {"window": ("Z", "ext"), "key": ("elem", "elem")}[v.ty][c.value]
                t, r = self.lift([v], lambda a: f"({proj} {a[0]})")
                return Ex(ety, t, r, fresh=False)
            raise Rejected(f"{where(e)}: a pair is subscripted with something that is not the constant 0 or 1")
        if v.ty in LIST_ELEM:
            ix = self.index_Z(self.expr(e.slice, env))
            if ix is None:
                raise Rejected(f"{where(e)}: list index of an unsupported type")
            t, r = self.lift([v, ix], lambda a: f"(py_getitem {a[0]} {a[1]})", True)
            return Ex(LIST_ELEM[v.ty], t, r, fresh=False)
        raise Rejected(f"{where(e)}: subscript on {v.ty}")

    def shape_arg(self, node, env):
        """(a, b) literal of two ints."""
        if isinstance(node, ast.Tuple) and len(node.elts) == 2:
            ops = [self.expr(x, env) for x in node.elts]
            if all(o.ty == "Z" for o in ops):
                return ops
        return None

    def call(self, e, env):
        f = e.func
        kw = {k.arg: k.value for k in e.keywords}
        if None in kw:
            raise Rejected(f"{where(e)}: **kwargs")
        if isinstance(f, ast.Name):
            args = e.args
            if kw:
                raise Rejected(f"{where(e)}: keyword arguments to {f.id}")
            if f.id == "len" and len(args) == 1:
                a = self.expr(args[0], env)
                if a.ty in LEN_OK:
                    t, r = self.lift([a], lambda x: f"(py_len {x[0]})")
                    return Ex("Z", t, r)
                raise Rejected(f"{where(e)}: len of {a.ty}")
            if f.id in ("max", "min") and len(args) == 2:
                ops = [self.expr(a, env) for a in args]
                if all(o.ty == "Z" for o in ops):
                    fn = "Z.max" if f.id == "max" else "Z.min"
                    t, r = self.lift(ops, lambda x: f"({fn} {x[0]} {x[1]})")
                    return Ex("Z", t, r)
                raise Rejected(f"{where(e)}: {f.id} on {[o.ty for o in ops]}")
            if f.id == "isinstance" and len(args) == 2 and isinstance(args[1], ast.Name) and args[1].id in ("str", "int"):
                a = self.expr(args[0], env)
                if a.ty == "elem":
                    pos = args[1].id == "str"
                    t, r = self.lift([a], lambda x: f"(elem_is_str {x[0]})" if pos else f"(negb (elem_is_str {x[0]}))")
                    return Ex("bool", t, r)
                raise Rejected(f"{where(e)}: isinstance on {a.ty}")
            if f.id == "list" and len(args) == 1:
                a = self.expr(args[0], env)
                if a.ty in ("elems", "zlist"):
                    return Ex(a.ty, a.term, a.raising, fresh=True)
                raise Rejected(f"{where(e)}: list() of {a.ty}")
            raise Rejected(f"{where(e)}: call of {f.id}")
        if not isinstance(f, ast.Attribute):
            raise Rejected(f"{where(e)}: call of {type(f).__name__}")
        # np.* / sparse.*
        if isinstance(f.value, ast.Name) and f.value.id in ("np", "sparse") and f.value.id not in env:
            mod, fn = f.value.id, f.attr
            if mod == "np" and fn == "flatnonzero" and len(e.args) == 1 and not kw:
                a = self.expr(e.args[0], env)
                if a.ty == "zlist":
                    t, r = self.lift([a], lambda x: f"(flatnonzero {x[0]})")
                    return Ex("natlist", t, r)
            if mod == "np" and fn in ("array", "asarray") and len(e.args) == 1 and not kw:
                a = self.expr(e.args[0], env)
                if a.ty == "zlist":
                    return Ex("zlist", a.term, a.raising, fresh=True)
            if mod == "np" and fn == "ones" and len(e.args) == 1 and set(kw) <= {"dtype"}:
                a = self.expr(e.args[0], env)
                dt = kw.get("dtype")
                if dt is not None and not (isinstance(dt, ast.Name) and dt.id in ("int", "bool", "float")):
                    raise Rejected(f"{where(e)}: dtype of np.ones")
                if a.ty == "Z":
                    if dt is not None and dt.id == "bool":
                        t, r = self.lift([a], lambda x: f"(np_ones true {x[0]})", True)
                        return Ex("boollist", t, r)
                    t, r = self.lift([a], lambda x: f"(np_ones 1 {x[0]})", True)
                    return Ex("zlist", t, r)
            if ((mod == "np" and fn == "zeros") or (mod == "sparse" and fn == "csr_array")) and len(e.args) == 1 and not kw:
                sh = self.shape_arg(e.args[0], env)
                if sh is not None:
                    t, r = self.lift(sh, lambda x: f"(mat_zeros {x[0]} {x[1]})", True)
                    return Ex("mat", t, r)
                if fn == "csr_array":
                    a = self.expr(e.args[0], env)
                    if a.ty == "mat":
                        return Ex("mat", a.term, a.raising, fresh=True)
            raise Rejected(f"{where(e)}: {mod}.{fn}(...) in this form is outside the accepted fragment")
        # self.method(...)
        if is_self(f.value):
            if kw:
                raise Rejected(f"{where(e)}: keyword arguments to self.{f.attr}")
            if f.attr == "get_node_index" and len(e.args) == 1:
                a = self.expr(e.args[0], env)
                if a.ty == "elem":
                    t, r = self.lift([a], lambda x: f"(py_get_node_index st {x[0]})", True)
                    return Ex("Z", t, r)
                raise Rejected(f"{where(e)}: get_node_index of {a.ty}")
            if f.attr in self.done:
                info = self.done[f.attr]
                if info.mut_self or info.mut_params:
                    raise Rejected(f"{where(e)}: self.{f.attr} modifies its arguments or self; accepted only as `x, y = self.{f.attr}(name)`")
                ops = self.call_args(e, info, env)
                t, r = self.lift(ops, lambda x: f"({info.gen} st" + "".join(" " + y for y in x) + ")", True)
                return Ex(info.ret, t, r)
            raise Rejected(f"{where(e)}: self.{f.attr}(...) is not a translated method")
        # accessor methods of Arc / Node
        recv = self.expr(f.value, env)
        key = (recv.ty, f.attr)
        if key in ACCESSORS and not e.args and not kw:
            ty, build = ACCESSORS[key]
            t, r = self.lift([recv], lambda x: build(x[0]))
            return Ex(ty, t, r, fresh=False)
        raise Rejected(f"{where(e)}: method .{f.attr} on {recv.ty}")

    def call_args(self, e, info, env):
        if len(e.args) != len(info.params):
            raise Rejected(f"{where(e)}: {info.name} takes {len(info.params)} arguments")
        ops = [self.expr(a, env) for a in e.args]
        for o, (p, ty) in zip(ops, info.params):
            if o.ty != ty:
                raise Rejected(f"{where(e)}: argument {p} of {info.name} has type {o.ty}, expected {ty}")
        return ops

    # ------------------------------------------------------------------ statements
    def bind(self, ex, name, ctx, rest):
        """Evaluate ex, bind its value to the Coq name `name`, continue with rest (a term)."""
        if ex.raising:
            err = self.fresh("e")
            handler = ctx.raise_(err)
            rest = rest() if callable(rest) else rest
            return (f"match {ex.term} with\n| Err {err} => {handler}\n| Ok {name} =>\n{rest}\nend")
        rest = rest() if callable(rest) else rest
        return f"let {name} := {ex.term} in\n{rest}"

    def define(self, env, name, ty, node, is_param=False, const=None):
        """env after `name = <value of type ty>`."""
        for other, v in env.items():
            if other != name and v.canon == name:
                raise Rejected(f"{where(node)}: {name} is re-bound while {other} is an alias of it")
        if name in env:
            old = env[name]
            if old.canon != name:
                raise Rejected(f"{where(node)}: {name} is an alias of the list {old.canon} and is re-bound")
            if old.ty != ty:
                raise Rejected(f"{where(node)}: {name} changes its type from {old.ty} to {ty}")
            if old.is_param and old.ty in MUTABLE:
                raise Rejected(f"{where(node)}: list parameter {name} is re-bound")
        env2 = dict(env)
        env2[name] = Var(ty, name, is_param, const)
        return env2

    def tuple_pack(self, vars_):
        if not vars_:
            return "tt"
        if len(vars_) == 1:
            return vars_[0]
        return "(" + ", ".join(vars_) + ")"

    def carried_vars(self, names, env, node):
        out = []
        for n in names:
            if n == "self":
                out.append(("self", "st", "pstate"))
            elif n in env:
                out.append((n, env[n].coq, coq_ty(env[n].ty)))
        return out

    def block(self, stmts, env, ctx, k, top=False):
        """Term for: run stmts in env, then k(env') (the rest of the enclosing block)."""
        if not stmts:
            return k(env)
        st, rest = stmts[0], stmts[1:]
        cont = lambda env2: self.block(rest, env2, ctx, k, top)

        if is_docstring(st) or isinstance(st, ast.Pass) or is_logger_call(st):
            return cont(env)

        if isinstance(st, ast.Return):
            if st.value is None:
                raise Rejected(f"{where(st)}: bare return")
            want = ctx.fn.ret
            if isinstance(want, tuple):
                if not (isinstance(st.value, ast.Tuple) and len(st.value.elts) == len(want[1])):
                    raise Rejected(f"{where(st)}: return value is not a tuple of {len(want[1])} elements")
                ops = [self.expr(v, env) for v in st.value.elts]
                tys = [o.ty for o in ops]
                if tys != want[1]:
                    raise Rejected(f"{where(st)}: returns {tys}, declared {want[1]}")
                for o in ops:
                    if o.var is not None and o.var.is_param and o.ty in MUTABLE and o.var.canon not in ctx.fn.mut_params:
                        raise Rejected(f"{where(st)}: returns a parameter object")
                t, r = self.lift(ops, lambda x: "(" + ", ".join(x) + ")")
            else:
                o = self.expr(st.value, env)
                if o.ty != want:
                    raise Rejected(f"{where(st)}: returns {o.ty}, declared {want}")
                t, r = o.term, o.raising
            if r:
                x, err = self.fresh("x"), self.fresh("e")
                return f"match {t} with\n| Err {err} => {ctx.raise_(err)}\n| Ok {x} => {ctx.ret(x)}\nend"
            return ctx.ret(t)

        if isinstance(st, ast.Assign):
            if len(st.targets) != 1:
                raise Rejected(f"{where(st)}: chained assignment")
            tgt = st.targets[0]
            # x, y, _ = self.m(...)
            if isinstance(tgt, ast.Tuple):
                return self.assign_unpack(st, tgt, env, ctx, cont)
            if isinstance(tgt, ast.Subscript):
                return self.assign_subscript(st, tgt, env, ctx, cont)
            if not isinstance(tgt, ast.Name):
                raise Rejected(f"{where(st)}: assignment target {type(tgt).__name__}")
            name = tgt.id
            if name == "self":
                raise Rejected(f"{where(st)}: assignment to self")
            v = st.value
            # tuple of int constants (iterated over later)
            if isinstance(v, ast.Tuple) and v.elts and all(
                    (isinstance(c, ast.Constant) and type(c.value) is int) or
                    (isinstance(c, ast.UnaryOp) and isinstance(c.op, ast.USub) and isinstance(c.operand, ast.Constant)
                     and type(c.operand.value) is int) for c in v.elts):
                vals = [c.value if isinstance(c, ast.Constant) else -c.operand.value for c in v.elts]
                return cont(self.define(env, name, "ztuple", st, const=vals))
            # alias of a list parameter
            if isinstance(v, ast.Name) and v.id in env and env[v.id].ty in MUTABLE:
                src = env[v.id]
                if not top:
                    raise Rejected(f"{where(st)}: a second name for a list is introduced inside a block")
                if name in env:
                    raise Rejected(f"{where(st)}: {name} is re-bound to another list")
                env2 = dict(env)
                env2[name] = Var(src.ty, src.canon, src.is_param)
                return cont(env2)
            ex = self.expr(v, env)
            if ex.ty in ("arcsdict", "nodelist", "namelist", "routes", "natlists", "ztuple"):
                raise Rejected(f"{where(st)}: a local name for {ex.ty}")
            if ex.ty in MUTABLE and not ex.fresh:
                raise Rejected(f"{where(st)}: a second name for an existing {ex.ty} object")
            env2 = self.define(env, name, ex.ty, st)
            return self.bind(ex, env2[name].coq, ctx, lambda: cont(env2))

        if isinstance(st, ast.AugAssign):
            if not (isinstance(st.target, ast.Name) and st.target.id in env and env[st.target.id].ty == "Z"):
                raise Rejected(f"{where(st)}: augmented assignment to something that is not an int variable")
            sym = {ast.Add: "+", ast.Sub: "-", ast.Mult: "*"}.get(type(st.op))
            if sym is None:
                raise Rejected(f"{where(st)}: augmented operator {type(st.op).__name__}")
            var = env[st.target.id]
            rhs = self.expr(st.value, env)
            if rhs.ty != "Z":
                raise Rejected(f"{where(st)}: {st.target.id} {sym}= {rhs.ty}")
            t, r = self.lift([rhs], lambda x: f"({var.coq} {sym} {x[0]})")
            env2 = self.define(env, st.target.id, "Z", st)
            return self.bind(Ex("Z", t, r), var.coq, ctx, lambda: cont(env2))

        if isinstance(st, ast.Expr):
            return self.expr_stmt(st, env, ctx, cont)

        if isinstance(st, ast.If):
            test = self.expr(st.test, env)
            if test.ty != "bool":
                raise Rejected(f"{where(st)}: if on {test.ty}")
            c = self.fresh("c")
            if falls_through(st.body) and falls_through(st.orelse):
                # join point: the rest of the block as a local function of the variables the branches modify
                assigned = self.assigned(st.body + st.orelse, env)
                names = (["self"] if "self" in assigned else []) + [n for n in env if n in assigned and env[n].canon == n]
                cv = self.carried_vars(names, env, st)
                kn = self.fresh("k")
                pat = self.tuple_pack([x for _, x, _ in cv])
                binder = f"'{pat}" if len(cv) > 1 else (pat if cv else "(_ : unit)")
                after = lambda env2: f"{kn} {pat}"

                def inner():
                    rest_term = cont(env)
                    body = self.block(st.body, env, ctx, lambda e2: after(env), False)
                    orelse = self.block(st.orelse, env, ctx, lambda e2: after(env), False)
                    return f"let {kn} := fun {binder} =>\n{rest_term}\nin\nif {c} then\n{body}\nelse\n{orelse}"
                return self.bind(test, c, ctx, inner)

            def inner2():
                # at most one branch reaches the code after the if, which sees the variables that existed before it
                body = self.block(st.body, env, ctx, lambda e2: cont(env), False)
                orelse = self.block(st.orelse, env, ctx, lambda e2: cont(env), False)
                return f"if {c} then\n{body}\nelse\n{orelse}"
            return self.bind(test, c, ctx, inner2)

        if isinstance(st, ast.For):
            return self.for_loop(st, env, ctx, cont)

        if isinstance(st, ast.Try):
            return self.try_stmt(st, env, ctx, cont)

        raise Rejected(f"{where(st)}: statement {type(st).__name__} is outside the accepted fragment")

    # x, y, _ = self.m(...)
    def assign_unpack(self, st, tgt, env, ctx, cont):
        v = st.value
        if not (isinstance(v, ast.Call) and isinstance(v.func, ast.Attribute) and is_self(v.func.value)
                and v.func.attr in self.done and not v.keywords):
            raise Rejected(f"{where(st)}: tuple assignment from something that is not a call of a translated method")
        info = self.done[v.func.attr]
        if not isinstance(info.ret, tuple) or len(info.ret[1]) != len(tgt.elts):
            raise Rejected(f"{where(st)}: {info.name} returns {info.ret}, unpacked into {len(tgt.elts)} names")
        ops = self.call_args(v, info, env)
        env2 = env
        pats = []
        for t, ty in zip(tgt.elts, info.ret[1]):
            if not isinstance(t, ast.Name):
                raise Rejected(f"{where(st)}: unpacking target {type(t).__name__}")
            if t.id == "_":
                pats.append("_")
                continue
            env2 = self.define(env2, t.id, ty, st)
            pats.append(env2[t.id].coq)
        err = self.fresh("e")
        okpat = "(" + ", ".join(pats) + ")"
        if not info.mut_self and not info.mut_params:
            t, _ = self.lift(ops, lambda x: f"({info.gen} st" + "".join(" " + y for y in x) + ")", True)
            return f"match {t} with\n| Err {err} => {ctx.raise_(err)}\n| Ok {okpat} =>\n{cont(env2)}\nend"
        # the callee modifies objects: its arguments must be plain names, which are re-bound to the new values
        outs = ["st"] if info.mut_self else []
        if info.mut_self and not ctx.fn.mut_self:
            raise Rejected(f"{where(st)}: internal: self is modified in a function not marked so")
        for (p, ty), a, o in zip(info.params, v.args, ops):
            if p in info.mut_params:
                if not isinstance(a, ast.Name) or o.raising:
                    raise Rejected(f"{where(st)}: {info.name} modifies its argument {p}, which must be a plain name")
                outs.append(o.term)
        if any(o.raising for o in ops):
            raise Rejected(f"{where(st)}: arguments of {info.name} may raise")
        r = self.fresh("r")
        call = f"{info.gen} st" + "".join(" " + o.term for o in ops)
        return (f"let '({', '.join(outs + [r])}) := {call} in\n"
                f"match {r} with\n| Err {err} => {ctx.raise_(err)}\n| Ok {okpat} =>\n{cont(env2)}\nend")

    # l[i] = e   |   M[rows, cols] = e
    def assign_subscript(self, st, tgt, env, ctx, cont):
        if not (isinstance(tgt.value, ast.Name) and tgt.value.id in env):
            raise Rejected(f"{where(st)}: subscript assignment to something that is not a local list")
        var = env[tgt.value.id]
        rhs = self.expr(st.value, env)
        if var.ty == "mat" and isinstance(tgt.slice, ast.Tuple) and len(tgt.slice.elts) == 2:
            rows, cols = [self.expr(x, env) for x in tgt.slice.elts]
            if rows.ty == "natlist" and cols.ty == "zlist" and rhs.ty == "Z":
                t, _ = self.lift([rhs, rows, cols], lambda x: f"(mat_set_pairs {var.coq} {x[1]} {x[2]} {x[0]})", True)
                return self.bind(Ex("mat", t, True), var.coq, ctx, lambda: cont(env))
            raise Rejected(f"{where(st)}: M[{rows.ty}, {cols.ty}] = {rhs.ty}")
        if var.ty not in LIST_ELEM or isinstance(tgt.slice, (ast.Slice, ast.Tuple)):
            raise Rejected(f"{where(st)}: subscript assignment on {var.ty}")
        ety = LIST_ELEM[var.ty]
        if rhs.ty == ety:
            inj = lambda s: s
        elif ety == "elem" and rhs.ty == "Z":
            inj = lambda s: f"(inr {s})"          # an int stored in a list of str-or-int
        else:
            raise Rejected(f"{where(st)}: stores {rhs.ty} into {var.ty}")
        ix = self.index_Z(self.expr(tgt.slice, env))
        if ix is None:
            raise Rejected(f"{where(st)}: list index of an unsupported type")
        # Python evaluates the right-hand side first, then the subscript, then stores
        t, _ = self.lift([rhs, ix], lambda x: f"(py_setitem {var.coq} {x[1]} {inj(x[0])})", True)
        return self.bind(Ex(var.ty, t, True), var.coq, ctx, lambda: cont(env))

    def expr_stmt(self, st, env, ctx, cont):
        v = st.value
        if (isinstance(v, ast.Call) and isinstance(v.func, ast.Attribute) and v.func.attr == "append"
                and isinstance(v.func.value, ast.Attribute) and is_self(v.func.value.value)
                and v.func.value.attr in SELF_APPEND and len(v.args) == 1 and not v.keywords):
            want, comb = SELF_APPEND[v.func.value.attr]
            a = self.expr(v.args[0], env)
            if a.ty != want:
                raise Rejected(f"{where(st)}: self.{v.func.value.attr}.append({a.ty})")
            if a.ty in MUTABLE and not a.fresh and (a.var is None or a.var.is_param):
                raise Rejected(f"{where(st)}: self.{v.func.value.attr} would hold the caller's own list object "
                               "(it changes whenever the caller changes its list); only a copy `list(...)` can be expressed")
            if not ctx.fn.mut_self:
                raise Rejected(f"{where(st)}: internal: self is modified in a function not marked so")
            if ctx.loop:
                raise Rejected(f"{where(st)}: self is modified inside a loop")
            conv = (lambda s: f"(to_nats {s})") if want == "elems" else (lambda s: s)
            t, r = self.lift([a], lambda x: f"({comb} st {conv(x[0])})")
            return self.bind(Ex("pstate", t, r), "st", ctx, lambda: cont(env))
        raise Rejected(f"{where(st)}: expression statement outside the accepted fragment")

    def for_loop(self, st, env, ctx, cont):
        if st.orelse:
            raise Rejected(f"{where(st)}: for ... else")
        if ctx.loop:
            raise Rejected(f"{where(st)}: nested for loops")
        if ctx.handler is not None:
            raise Rejected(f"{where(st)}: for loop inside try")
        for n in ast.walk(st):
            if isinstance(n, (ast.Break, ast.Continue)):
                raise Rejected(f"{where(n)}: break / continue")
        it, tgt = st.iter, st.target
        if isinstance(it, ast.Call) and isinstance(it.func, ast.Name) and it.func.id == "range" \
                and len(it.args) == 1 and not it.keywords and isinstance(tgt, ast.Name):
            n = self.expr(it.args[0], env)
            if n.ty != "Z":
                raise Rejected(f"{where(st)}: range({n.ty})")
            t, r = self.lift([n], lambda x: f"(py_range {x[0]})")
            iter_ex = Ex("ztuple", t, r)
            item_ty, targets = "Z", [(tgt.id, "Z")]
        elif isinstance(it, ast.Name) and it.id in env and env[it.id].const is not None and isinstance(tgt, ast.Name):
            t = "[" + "; ".join(f"({c})" if c < 0 else str(c) for c in env[it.id].const) + "]"
            iter_ex = Ex("ztuple", t, False)
            item_ty, targets = "Z", [(tgt.id, "Z")]
        elif isinstance(it, ast.Call) and isinstance(it.func, ast.Name) and it.func.id == "enumerate" \
                and len(it.args) == 1 and not it.keywords and isinstance(tgt, ast.Tuple) and len(tgt.elts) == 2 \
                and all(isinstance(x, ast.Name) for x in tgt.elts):
            l = self.expr(it.args[0], env)
            if l.ty != "natlists":
                raise Rejected(f"{where(st)}: enumerate({l.ty})")
            t, r = self.lift([l], lambda x: f"(py_enumerate {x[0]})")
            iter_ex = Ex("enum", t, r)
            item_ty, targets = "(Z * list nat)", [(tgt.elts[0].id, "Z"), (tgt.elts[1].id, "natlist")]
        else:
            raise Rejected(f"{where(st)}: for loop over something that is not range(e), a name bound to a tuple of int "
                           "constants, or enumerate(self.route_node_visited)")
        env_body = dict(env)
        for name, ty in targets:
            if name in env or name == "self":
                raise Rejected(f"{where(st)}: loop variable {name} re-uses an existing name")
            env_body[name] = Var(ty, name)
        tnames = [x for x, _ in targets]
        if len(set(tnames)) != len(tnames):
            raise Rejected(f"{where(st)}: duplicate loop variable")
        assigned = self.assigned(st.body, env_body)
        if "self" in assigned:
            raise Rejected(f"{where(st)}: self is modified inside a loop")
        for x in tnames:
            if x in assigned:
                raise Rejected(f"{where(st)}: the loop variable {x} is assigned in the loop")
        carried = [n for n in env if n in assigned and env[n].canon == n]
        cv = self.carried_vars(carried, env, st)
        # names read in the body that live outside the loop and are not carried: parameters of the body
        read = []
        for node in ast.walk(ast.Module(body=st.body, type_ignores=[])):
            if isinstance(node, ast.Name) and node.id in env and env[node.id].const is None:
                c = env[node.id].canon
                if c not in carried and c not in read:
                    read.append(c)
        # (a list parameter the function modifies is part of what `return` / an exception hands back)
        free = [n for n in env if env[n].canon == n and n not in carried and (n in read or n in ctx.fn.mut_params)]
        self.loopn += 1
        lname = f"{ctx.fn.gen}_loop{self.loopn}"
        state_ty = "unit" if not cv else ("(" + " * ".join(x for _, _, x in cv) + ")" if len(cv) > 1 else cv[0][2])
        pack = self.tuple_pack([c for _, c, _ in cv])
        body = self.block(st.body, env_body, Ctx(ctx.fn, loop=True), lambda e2: f"Cont {pack}", False)
        params = "".join(f" ({env[n].coq} : {coq_ty(env[n].ty)})" for n in free)
        item = "v_" + tnames[0] if len(targets) == 1 else "it"
        head = (f"Definition {lname} (st : pstate){params} ({item} : {item_ty}) (s : {state_ty})\n"
                f"  : ctl {state_ty} {ctx.fn.out_type()} :=\n")
        pre = ""
        if len(targets) == 2:
            pre += f"let '(v_{tnames[0]}, v_{tnames[1]}) := it in\n"
        if len(cv) > 1:
            pre += f"let '{pack} := s in\n"
        elif len(cv) == 1:
            pre += f"let {pack} := s in\n"
        self.texts.append(f"(* body of the for loop at {where(st)} *)\n" + head + indent(pre + body) + ".\n")
        # after the loop the loop variables are gone (env, not env_body)
        contpat = f"Cont {pack}" if cv else "Cont _"
        fn_term = f"({lname} st" + "".join(" " + env[n].coq for n in free) + ")"
        xs = self.fresh("x") if iter_ex.raising else iter_ex.term
        loop = f"match for_each {xs} {fn_term} {pack} with\n| Stop r => r\n| {contpat} =>\n{cont(env)}\nend"
        if iter_ex.raising:
            return self.bind(iter_ex, xs, ctx, loop)
        return loop

    def try_stmt(self, st, env, ctx, cont):
        if st.orelse or st.finalbody or len(st.handlers) != 1:
            raise Rejected(f"{where(st)}: try with else / finally / several handlers")
        h = st.handlers[0]
        if not (isinstance(h.type, ast.Name) and h.type.id in ("KeyError", "ValueError", "IndexError", "TypeError")) or h.name:
            raise Rejected(f"{where(h)}: except clause is not `except <KeyError|ValueError|IndexError|TypeError>:`")
        if falls_through(h.body):
            raise Rejected(f"{where(h)}: the handler does not end in return")
        if ctx.handler is not None:
            raise Rejected(f"{where(st)}: nested try")
        for s in st.body:
            if not (isinstance(s, ast.Assign) and len(s.targets) == 1 and isinstance(s.targets[0], ast.Name)) \
                    and not is_logger_call(s):
                raise Rejected(f"{where(s)}: the try body may contain only assignments to names")
            if isinstance(s, ast.Assign) and s.targets[0].id in env:
                raise Rejected(f"{where(s)}: the try body re-binds {s.targets[0].id} (its value in the handler would depend on where the exception occurred)")
        # the handler sees the variables as they were before the try (the body only defines new names)
        hterm = "(" + self.block(h.body, env, ctx, lambda e2: "tt", False) + ")"
        tctx = Ctx(ctx.fn, loop=ctx.loop, handler=(h.type.id, hterm), outer=ctx)
        return self.block(st.body, env, tctx, lambda e2: cont(e2), False)

    # ------------------------------------------------------------------ functions
    def function(self, name):
        if name not in self.methods:
            raise Rejected(f"{CLASS}.{name} not found")
        fn = self.methods[name]
        ptys, ret = FUNCS[name]
        a = fn.args
        if a.vararg or a.kwarg or a.kwonlyargs or a.posonlyargs or a.defaults or fn.decorator_list:
            raise Rejected(f"{where(fn)}: {name}: decorators / default values / *args are outside the accepted fragment")
        pnames = [x.arg for x in a.args]
        if not pnames or pnames[0] != "self" or len(pnames) - 1 != len(ptys):
            raise Rejected(f"{where(fn)}: {name} takes parameters {pnames}")
        params = list(zip(pnames[1:], ptys))
        if len(set(pnames)) != len(pnames):
            raise Rejected(f"{where(fn)}: duplicate parameter")
        env = {}
        for p, ty in params:
            env[p] = Var(ty, p, is_param=True)
        for n in ast.walk(fn):
            if isinstance(n, (ast.Global, ast.Nonlocal, ast.FunctionDef, ast.AsyncFunctionDef, ast.Lambda, ast.ClassDef,
                              ast.While, ast.With, ast.Delete, ast.Import, ast.ImportFrom, ast.Yield, ast.YieldFrom,
                              ast.Await, ast.NamedExpr, ast.Starred)) and n is not fn:
                raise Rejected(f"{where(n)}: {type(n).__name__} is outside the accepted fragment")
        # which objects does the function modify?  aliases introduced at top level count for the parameter
        env_alias = dict(env)
        for s in fn.body:
            if isinstance(s, ast.Assign) and len(s.targets) == 1 and isinstance(s.targets[0], ast.Name) \
                    and isinstance(s.value, ast.Name) and s.value.id in env_alias and env_alias[s.value.id].ty in MUTABLE:
                src = env_alias[s.value.id]
                env_alias[s.targets[0].id] = Var(src.ty, src.canon, src.is_param)
        eff = self.assigned(fn.body, env_alias)
        sub_store = set()
        for n in ast.walk(fn):
            if isinstance(n, (ast.Assign, ast.AugAssign)):
                for t in (n.targets if isinstance(n, ast.Assign) else [n.target]):
                    if isinstance(t, ast.Subscript) and isinstance(t.value, ast.Name):
                        sub_store.add(self.canon(env_alias, t.value.id))
            if isinstance(n, ast.Call) and isinstance(n.func, ast.Attribute) and is_self(n.func.value) and n.func.attr in self.done:
                info = self.done[n.func.attr]
                for (p, _), arg in zip(info.params, n.args):
                    if p in info.mut_params and isinstance(arg, ast.Name):
                        sub_store.add(self.canon(env_alias, arg.id))
        mut_params = [p for p, ty in params if ty in MUTABLE and p in sub_store]
        info = FnInfo(name, params, ret, mut_params, "self" in eff)
        ctx = Ctx(info)
        self.loopn = 0
        if falls_through(fn.body):
            raise Rejected(f"{where(fn)}: {name} can reach its end without return")
        body = self.block(list(fn.body), env, ctx, lambda e2: "tt", True)
        sig = "".join(f" (v_{p} : {coq_ty(ty)})" for p, ty in params)
        text = (f"(* {CLASS}.{name}, {where(fn)} *)\n"
                f"Definition {info.gen} (st : pstate){sig} : {info.out_type()} :=\n" + indent(body) + ".\n")
        self.texts.append(text)
        self.done[name] = info


def indent(s, n=2):
    return "\n".join(" " * n + ln for ln in s.split("\n"))


def translate_source(src, vrptw_src, origin=REL):
    try:
        tree = ast.parse(src)
        vtree = ast.parse(vrptw_src)
    except SyntaxError as ex:
        raise Rejected(f"syntax error: {ex}")
    cls = [n for n in tree.body if isinstance(n, ast.ClassDef) and n.name == CLASS]
    if len(cls) != 1:
        raise Rejected(f"class {CLASS} not found")
    # np / sparse / logger must be the modules the file imports at the top
    ok_np = any(isinstance(n, ast.Import) and any(a.name == "numpy" and a.asname == "np" for a in n.names) for n in tree.body)
    ok_sp = any(isinstance(n, ast.ImportFrom) and n.module == "scipy" and any(a.name == "sparse" and a.asname is None for a in n.names)
                for n in tree.body)
    if not (ok_np and ok_sp):
        raise Rejected("`import numpy as np` / `from scipy import sparse` not found")
    builtin_names = ("np", "sparse", "logger", "len", "max", "min", "isinstance", "list", "range", "enumerate",
                     "str", "int", "bool", "float", "KeyError", "ValueError", "IndexError", "TypeError")
    for n in ast.walk(tree):
        tg = []
        if isinstance(n, ast.Assign):
            tg = n.targets
        elif isinstance(n, (ast.AugAssign, ast.AnnAssign, ast.For)):
            tg = [n.target]
        elif isinstance(n, (ast.Import, ast.ImportFrom)):
            for a in n.names:
                bound = (a.asname or a.name).split(".")[0]
                if bound in builtin_names and not (bound == "np" and a.name == "numpy") \
                        and not (bound == "sparse" and isinstance(n, ast.ImportFrom) and n.module == "scipy"):
                    raise Rejected(f"{where(n)}: {bound} is re-bound by an import")
        elif isinstance(n, (ast.FunctionDef, ast.ClassDef)) and n.name in builtin_names:
            raise Rejected(f"{where(n)}: {n.name} is re-defined")
        elif isinstance(n, ast.arg) and n.arg in builtin_names:
            raise Rejected(f"{where(n)}: parameter named {n.arg}")
        for t in tg:
            for m in ast.walk(t):
                if isinstance(m, ast.Name) and m.id in builtin_names and not (
                        m.id == "logger" and n in tree.body):
                    raise Rejected(f"{where(n)}: {m.id} is re-bound")
    tr = Translator(cls[0])
    for cname, recv_ty, mname, ret_ty in ACCESSOR_LIST:
        vc = [n for n in vtree.body if isinstance(n, ast.ClassDef) and n.name == cname]
        if len(vc) != 1:
            raise Rejected(f"class {cname} not found in {VREL}")
        tr.accessor(vc[0], recv_ty, mname, ret_ty)
    for name in FUNCS:
        tr.function(name)
    head = [
        f"(* GENERATED by harness/translate_path.py from {origin} (and the Arc / Node accessors of {VREL}) -- do not edit.",
        "   One definition per translated method of PathBasedRoutingProblem; the combinators are defined in",
        "   theories/PyPath.v; coq/genprops/C06_gen.v proves these definitions equal to the hand model Path.v. *)",
        "From VQ Require Import Base Vrptw Path PyPath.",
        "",
    ]
    return "\n".join(head) + "\n" + "\n".join(tr.texts)


def translate():
    """Entry point for ctx.gen_step: {"PathGen.v": text}.  Reads the tree under test.  Raises Rejected."""
    from vq import core
    with open(os.path.join(core.REPO, REL)) as fh:
        src = fh.read()
    with open(os.path.join(core.REPO, VREL)) as fh:
        vsrc = fh.read()
    return OrderedDict([("PathGen.v", translate_source(src, vsrc, origin=REL))])


if __name__ == "__main__":
    import sys
    root = sys.argv[1]
    print(translate_source(open(os.path.join(root, REL)).read(), open(os.path.join(root, VREL)).read()))
