"""translate_qubotools.py -- fail-closed translator  src/vrpqubo/tools/qubo_tools.py -> coq/gen/QuboGen.v
(properties C01 and C13).

A *matrix-expression* printer.  It walks the Python `ast` of

    x_to_s  s_to_x  evaluate_QUBO  evaluate_Ising  get_Ising_J_h  QUBO_to_Ising  Ising_to_QUBO
    to_upper_triangular  to_symmetric
    QUBOContainer.__init__  QUBOContainer.evaluate_QUBO  QUBOContainer.evaluate_Ising

in the tree under test and prints every statement / expression 1:1 as a combinator of
coq/theories/PyQubo.v (`mscal`, `msum0`, `msum1`, `setdiag`, `diags`, `tril`, `mtranspose`, `mdot`, `vdot`,
`vastype_int`, `as_sparse`, `to_format`, ... -- the MEANING of each numpy/scipy call is defined there, in Coq).
Operators, constants and the order of operands are taken from the ast nodes, so a dropped `setdiag`, a swapped
`sum(0)/sum(1)`, a changed constant or sign changes the generated term; coq/genprops/C01_gen.v and C13_gen.v
prove the generated definitions equal to the hand model coq/theories/Qubo.v.

What the translator itself knows (and is trusted for):
  * the *kind* of every value (number, vector, matrix, shape, string), inferred bottom-up from the kinds of the
    parameters (table FUNCS) and the result kind of each whitelisted call; the kind selects the combinator
    (`c * M` -> mscal, `c * v` -> vscal, `M.sum()` -> msum, `v.sum()` -> vsum);
  * sequencing: `x = e` -> `let`, an in-place statement (`M.setdiag(c)`, `M.eliminate_zeros()`, `x += e`,
    `x *= e`) -> re-binding of the same name, `if/elif/else` -> `if then else` with the rest of the block
    continued in both branches, `raise X(...)` -> `Err X`, `return e` -> `Ok e` (or `e` for functions that
    never raise), a call of a translated function that may raise -> `rbind`;
  * three reject-only filters (they never change the printed term; they only refuse sources whose meaning at
    the level of containers / storage is not the dense, pure meaning the combinators have):
      - ownership: an in-place statement is accepted only on a value the function owns -- a fresh result of
        arithmetic / of a copying call -- never on a parameter or on something that may share storage with one
        (`sp.lil_array(Q)`, `np.asarray(h)`, `.ravel()`, `.tocsr()`, `.transpose()`, `y = x`, a value stored in a
        field).  Re-binding is the right meaning of mutation only then.  (`M += E` on a scipy sparse value is
        accepted even when borrowed: scipy implements it by re-binding the storage.)
      - sparse-only methods (`tocsr`, `setdiag`, `eliminate_zeros`, storing into the container's Q / J) need a
        value that is surely a scipy.sparse container (built by `sp.*` or from such values), since a matrix
        parameter is ArrayLike and may be an ndarray;
      - ndarray-only operations on vectors (methods, arithmetic, `.shape`) need a value that is surely an
        ndarray, since an ArrayLike vector parameter may be a Python list; `np.dot(M, v)` with a matrix is
        refused altogether (numpy does not dispatch to scipy.sparse).
Everything outside the whitelist raises `Rejected` with the line number.

Public entry: translate() -> {"QuboGen.v": text}.
"""
import ast
import os
import re

SRC_REL = "src/vrpqubo/tools/qubo_tools.py"


class Rejected(Exception):
    pass


# name -> (kinds of the positional parameters, "plain" | "result", kinds of the returned value(s),
#          what the documented contract says about a parameter: position -> set of
#            "mutable"  the function may change it in place           (get_Ising_J_h: "Mutates `matrix`")
#            "sparse"   it is a scipy.sparse container                (get_Ising_J_h: "a `scipy.sparse` sparse array")
#            "ndarray"  it is a numpy array (annotation np.ndarray), not merely ArrayLike (which may be a list))
FUNCS = {
    "x_to_s": (["vec"], "plain", ["vec"], {0: {"ndarray"}}),
    "s_to_x": (["vec"], "plain", ["vec"], {0: {"ndarray"}}),
    "evaluate_QUBO": (["mat", "scal", "vec"], "plain", ["scal"], {}),
    "evaluate_Ising": (["mat", "vec", "scal", "vec"], "plain", ["scal"], {}),
    "get_Ising_J_h": (["mat"], "plain", ["mat", "vec"], {0: {"mutable", "sparse"}}),
    "QUBO_to_Ising": (["mat", "scal"], "result", ["mat", "vec", "scal"], {}),
    "Ising_to_QUBO": (["mat", "vec", "scal"], "result", ["mat", "scal"], {}),
    "to_upper_triangular": (["mat"], "result", ["mat"], {}),
    "to_symmetric": (["mat"], "result", ["mat"], {}),
}
CLASS = "QUBOContainer"
INIT_PARAMS = ["mat", "scal", "str"]                 # after self
METHODS = {"evaluate_QUBO": (["vec"], ["scal"]), "evaluate_Ising": (["vec"], ["scal"])}
FIELDS = {"n_vars": "nat", "const_qubo": "scal", "Q": "mat", "J": "mat", "h": "vec", "const_ising": "scal"}
SPARSE_FIELDS = {"Q", "J"}                           # __init__ must store scipy.sparse containers in these
UNTRANSLATED_METHODS = {"get_objective_function_QUBO", "get_objective_function_Ising", "report", "export"}

COQ_TYPE = {"mat": "pmat K", "vec": "pvec K", "scal": "K", "str": "string", "nat": "nat"}
ERRCLS = {"ValueError", "IndexError", "KeyError", "AssertionError", "AttributeError", "TypeError"}
SPARSE_CTORS = {"lil_array", "csr_array", "csc_array", "coo_array"}
FORMAT_METHODS = {"tocsr", "tolil", "tocoo", "tocsc"}
IDENT_RE = re.compile(r"^[A-Za-z_][A-Za-z0-9_]*$")


def where(node):
    return f"line {getattr(node, 'lineno', '?')}"


def is_name(node, name=None):
    return isinstance(node, ast.Name) and (name is None or node.id == name)


def is_docstring(st):
    return isinstance(st, ast.Expr) and isinstance(st.value, ast.Constant) and isinstance(st.value.value, str)


def is_logging(st):
    if not (isinstance(st, ast.Expr) and isinstance(st.value, ast.Call)):
        return False
    f = st.value.func
    return isinstance(f, ast.Attribute) and is_name(f.value) and f.value.id in ("logger", "logging", "log")


def ident(name, node=None):
    if not IDENT_RE.match(name):
        raise Rejected(f"{where(node)}: identifier {name!r} is not plain ASCII")
    return "v_" + name


class V:
    """A translated value: kind, Gallina term, and (for arrays) what the reject-only filters know.
    own    -- the function owns the storage (fresh result); False: may share storage with a parameter / another name
    sparse -- (matrices) surely a scipy sparse container (built by an sp.* constructor or from such values);
              False: may be an ndarray -- the sparse-only methods (tocsr, setdiag, eliminate_zeros) are refused
    src    -- names of local variables whose storage this value may share"""

    def __init__(self, kind, term, own=True, sparse=False, src=(), val=None, kinds=None, result=False, arr=True,
                 flags=None):
        self.kind, self.term, self.own, self.sparse, self.src = kind, term, own, sparse, frozenset(src)
        self.arr = arr            # (vectors) surely a numpy array -- False: ArrayLike, may be a Python list
        self.val = val            # the integer of an "int" literal
        self.kinds = kinds        # component kinds of a "tuple"
        self.flags = flags        # (sparse, arr) of the components of a "tuple"
        self.result = result      # a call of a function that may raise (type: result ...)


def str_lit(s, node):
    if not all(32 <= ord(ch) < 127 for ch in s):
        raise Rejected(f"{where(node)}: string constant with non-printable / non-ASCII characters")
    return '"' + s.replace('"', '""') + '"%string'


def z_lit(k):
    return f"({k})%Z"


class Fn:
    """Translation of one function body."""

    def __init__(self, tr, name, ret, rkinds, is_init=False):
        self.tr, self.name, self.ret, self.rkinds, self.is_init = tr, name, ret, rkinds, is_init
        self.rflags = None

    # ------------------------------------------------------------------ coercions
    def scal(self, v, node):
        if v.kind == "scal":
            return v.term
        if v.kind == "int":
            return f"(knum o {z_lit(v.val)})"
        raise Rejected(f"{where(node)}: a number is expected here, found a {v.kind}")

    def nat(self, v, node):
        if v.kind == "nat":
            return v.term
        if v.kind == "int" and v.val >= 0:
            return f"{v.val}%nat"
        raise Rejected(f"{where(node)}: a shape entry is expected here, found a {v.kind}")

    @staticmethod
    def numeric(v):
        return v.kind in ("scal", "int")

    @staticmethod
    def need_arr(v, node, what):
        if not v.arr:
            raise Rejected(f"{where(node)}: {what} on a vector that is only ArrayLike (it may be a Python list, on which this "
                           "means something else or fails); convert it with np.asarray first")

    @staticmethod
    def need_sparse(v, node, what):
        if not v.sparse:
            raise Rejected(f"{where(node)}: {what} on a matrix that is not known to be a scipy.sparse container (it may be an "
                           "ndarray, which has no such method)")

    # ------------------------------------------------------------------ expressions
    def expr(self, node, env):
        if isinstance(node, ast.Name):
            if node.id in env:
                return env[node.id]
            raise Rejected(f"{where(node)}: unknown name {node.id!r}")
        if isinstance(node, ast.Constant):
            return self.constant(node)
        if isinstance(node, ast.UnaryOp):
            return self.unary(node, env)
        if isinstance(node, ast.BinOp):
            return self.binop(node, env)
        if isinstance(node, ast.Attribute):
            return self.attribute(node, env)
        if isinstance(node, ast.Subscript):
            return self.subscript(node, env)
        if isinstance(node, ast.Call):
            return self.call(node, env)
        raise Rejected(f"{where(node)}: expression {type(node).__name__} is not supported")

    def constant(self, node):
        c = node.value
        if isinstance(c, bool) or c is None:
            raise Rejected(f"{where(node)}: constant {c!r}")
        if isinstance(c, int):
            return V("int", None, val=c)
        if isinstance(c, float):
            if c == 0.5:
                return V("scal", "(ohalf o)")
            if c == 0.25:
                return V("scal", "(oquarter o)")
            if c == int(c) and abs(c) < 2 ** 31:
                return V("scal", f"(knum o {z_lit(int(c))})")
            raise Rejected(f"{where(node)}: float constant {c!r} (only 0.5, 0.25 and integer values have a ring meaning)")
        if isinstance(c, str):
            return V("str", str_lit(c, node))
        raise Rejected(f"{where(node)}: constant {c!r}")

    def unary(self, node, env):
        if isinstance(node.op, ast.USub):
            v = self.expr(node.operand, env)
            if v.kind == "int":
                return V("int", None, val=-v.val)
            if v.kind == "scal":
                return V("scal", f"(oopp o {v.term})")
            if v.kind == "vec":
                self.need_arr(v, node, "unary minus")
                return V("vec", f"(vneg o {v.term})")
            if v.kind == "mat":
                return V("mat", f"(mneg o {v.term})", sparse=v.sparse)
            raise Rejected(f"{where(node)}: unary minus on a {v.kind}")
        raise Rejected(f"{where(node)}: unary operator {type(node.op).__name__}")

    BIN = {
        # (left kind, right kind) -> {op: combinator}
        ("scal", "scal"): {ast.Add: "oadd o", ast.Sub: "osub o", ast.Mult: "omul o"},
        ("scal", "mat"): {ast.Mult: "mscal o"},
        ("mat", "scal"): {ast.Mult: "mscal_r o"},
        ("scal", "vec"): {ast.Mult: "vscal o", ast.Add: "svadd o", ast.Sub: "svsub o"},
        ("vec", "scal"): {ast.Mult: "vscal_r o", ast.Add: "vsadd o", ast.Sub: "vssub o"},
        ("mat", "mat"): {ast.Add: "madd o", ast.Sub: "msub o"},
        ("vec", "vec"): {ast.Add: "vadd o", ast.Sub: "vsub o"},
    }

    def combine(self, opnode, l, r, node):
        """l <op> r for two translated values (used by BinOp and by the augmented assignments)."""
        lk = "scal" if l.kind == "int" else l.kind
        rk = "scal" if r.kind == "int" else r.kind
        table = self.BIN.get((lk, rk))
        comb = None
        if table is not None:
            for cls, c in table.items():
                if isinstance(opnode, cls):
                    comb = c
        if comb is None:
            raise Rejected(f"{where(node)}: operator {type(opnode).__name__} between a {lk} and a {rk} is not supported")
        for x in (l, r):
            if x.kind == "vec":
                self.need_arr(x, node, f"arithmetic `{type(opnode).__name__}`")
        lt = self.scal(l, node) if lk == "scal" else l.term
        rt = self.scal(r, node) if rk == "scal" else r.term
        kind = "mat" if "mat" in (lk, rk) else "vec" if "vec" in (lk, rk) else "scal"
        sparse = all(x.sparse for x in (l, r) if x.kind == "mat") if kind == "mat" else False
        return V(kind, f"({comb} {lt} {rt})", own=True, sparse=sparse)

    def binop(self, node, env):
        l = self.expr(node.left, env)
        r = self.expr(node.right, env)
        return self.combine(node.op, l, r, node)

    def self_field(self, node, env):
        """self.<field> -> the translated value, else None"""
        if isinstance(node, ast.Attribute) and is_name(node.value, "self") and "self" in env:
            key = "self." + node.attr
            if key in env:
                return env[key]
            raise Rejected(f"{where(node)}: self.{node.attr} is read but is not a field the container has at this point")
        return None

    def attribute(self, node, env):
        f = self.self_field(node, env)
        if f is not None:
            return f
        v = self.expr(node.value, env)
        if node.attr == "shape" and v.kind == "mat":
            return V("shape", f"(mshape {v.term})")
        if node.attr == "shape" and v.kind == "vec":
            self.need_arr(v, node, ".shape")
            return V("vshape", v.term)
        if node.attr == "T" and v.kind == "mat":
            return V("mat", f"(mtranspose {v.term})", own=v.own, sparse=v.sparse, src=v.src)
        raise Rejected(f"{where(node)}: attribute .{node.attr} of a {v.kind} is not supported")

    def subscript(self, node, env):
        v = self.expr(node.value, env)
        idx = node.slice
        if not (isinstance(idx, ast.Constant) and type(idx.value) is int):
            raise Rejected(f"{where(node)}: only a constant index into a shape is supported")
        if v.kind == "shape" and idx.value in (0, 1):
            return V("nat", f"({'fst' if idx.value == 0 else 'snd'} {v.term})")
        if v.kind == "vshape" and idx.value == 0:
            return V("nat", f"(vlen {v.term})")
        raise Rejected(f"{where(node)}: subscript [{idx.value}] of a {v.kind} is not supported")

    # ------------------------------------------------------------------ calls
    @staticmethod
    def no_keywords(node, what):
        if node.keywords:
            raise Rejected(f"{where(node)}: keyword arguments in {what}")

    @staticmethod
    def dtype_float_only(node, what):
        """the only keyword accepted in a container conversion: dtype=float (identity at the dense meaning)"""
        for kw in node.keywords:
            if not (kw.arg == "dtype" and is_name(kw.value, "float")):
                raise Rejected(f"{where(node)}: keyword {kw.arg!r} in {what} (only dtype=float is accepted)")

    def axis_of(self, node):
        """M.sum(), M.sum(0), M.sum(1), M.sum(axis=0|1) -> None | 0 | 1"""
        args = list(node.args)
        for kw in node.keywords:
            if kw.arg != "axis" or args:
                raise Rejected(f"{where(node)}: keyword {kw.arg!r} in .sum(...)")
            args.append(kw.value)
        if not args:
            return None
        if len(args) == 1 and isinstance(args[0], ast.Constant) and type(args[0].value) is int and args[0].value in (0, 1):
            return args[0].value
        raise Rejected(f"{where(node)}: .sum(...) with an axis other than 0 / 1")

    def call(self, node, env):
        f = node.func
        if isinstance(f, ast.Name):
            return self.fn_call(node, env)
        if not isinstance(f, ast.Attribute):
            raise Rejected(f"{where(node)}: call of {type(f).__name__}")
        if is_name(f.value, "np") and "np" not in env:
            return self.np_call(node, f.attr, env)
        if is_name(f.value, "sp") and "sp" not in env:
            return self.sp_call(node, f.attr, env)
        v = self.expr(f.value, env)
        m = f.attr
        if v.kind == "mat":
            if m == "sum":
                ax = self.axis_of(node)
                if ax is None:
                    return V("scal", f"(msum o {v.term})")
                return V("vec", f"(msum{ax} o {v.term})")
            if m == "diagonal" and not node.args and not node.keywords:
                return V("vec", f"(diagonal {v.term})")
            if m == "transpose" and not node.args and not node.keywords:
                return V("mat", f"(mtranspose {v.term})", own=v.own, sparse=v.sparse, src=v.src)
            if m in FORMAT_METHODS and not node.args and not node.keywords:
                self.need_sparse(v, node, f".{m}()")
                return V("mat", f"(to_format {v.term})", own=v.own, sparse=True, src=v.src)
            if m == "dot" and len(node.args) == 1 and not node.keywords:
                a = self.expr(node.args[0], env)
                if a.kind == "vec":
                    return V("vec", f"(mdot o {v.term} {a.term})")
        if v.kind == "vec":
            self.need_arr(v, node, f"method .{m}()")
            if m == "sum" and not node.args and not node.keywords:
                return V("scal", f"(vsum o {v.term})")
            if m == "ravel" and not node.args and not node.keywords:
                return V("vec", f"(ravel {v.term})", own=v.own, src=v.src)
            if m == "flatten" and not node.args and not node.keywords:
                return V("vec", f"(flatten {v.term})")
            if m == "astype" and len(node.args) == 1 and not node.keywords and is_name(node.args[0], "int") and "int" not in env:
                return V("vec", f"(vastype_int o {v.term})")
            if m == "dot" and len(node.args) == 1 and not node.keywords:
                a = self.expr(node.args[0], env)
                if a.kind == "vec":
                    return V("scal", f"(vdot o {v.term} {a.term})")
        if v.kind == "str":
            if m == "lower" and not node.args and not node.keywords:
                return V("str", f"(lower {v.term})")
        raise Rejected(f"{where(node)}: method .{m}(...) of a {v.kind} with these arguments is not supported")

    def np_call(self, node, fn, env):
        if fn == "dot" and len(node.args) == 2 and not node.keywords:
            a, b = self.expr(node.args[0], env), self.expr(node.args[1], env)
            if a.kind == "vec" and b.kind == "vec":
                return V("scal", f"(vdot o {a.term} {b.term})")
            # (np.dot does not dispatch to scipy.sparse: np.dot(M, v) is not the matrix-vector product for a sparse M)
            raise Rejected(f"{where(node)}: np.dot of a {a.kind} and a {b.kind} (only vector . vector; use M.dot(v))")
        if fn in ("atleast_1d", "copy", "asarray") and len(node.args) == 1:
            if fn == "asarray":
                self.dtype_float_only(node, "np.asarray")
            else:
                self.no_keywords(node, f"np.{fn}")
            a = self.expr(node.args[0], env)
            if a.kind != "vec":
                raise Rejected(f"{where(node)}: np.{fn} of a {a.kind}")
            if fn == "copy":
                return V("vec", f"(np_copy {a.term})")
            return V("vec", f"({fn} {a.term})", own=a.own, src=a.src)
        raise Rejected(f"{where(node)}: np.{fn}(...) is not supported")

    def sp_call(self, node, fn, env):
        if fn in SPARSE_CTORS and len(node.args) == 1:
            self.dtype_float_only(node, f"sp.{fn}")
            a = self.expr(node.args[0], env)
            if a.kind != "mat":
                raise Rejected(f"{where(node)}: sp.{fn} of a {a.kind}")
            return V("mat", f"(as_sparse {a.term})", own=a.own, sparse=True, src=a.src)
        if fn in ("tril", "triu") and len(node.args) in (1, 2):
            args = list(node.args)
            for kw in node.keywords:
                if kw.arg != "k" or len(args) != 1:
                    raise Rejected(f"{where(node)}: keyword {kw.arg!r} in sp.{fn}")
                args.append(kw.value)
            a = self.expr(args[0], env)
            k = self.expr(args[1], env) if len(args) == 2 else V("int", None, val=0)
            if a.kind != "mat" or k.kind != "int":
                raise Rejected(f"{where(node)}: sp.{fn}(matrix, k=<integer constant>) expected")
            return V("mat", f"({fn} o {z_lit(k.val)} {a.term})", sparse=True)
        if fn == "diags" and len(node.args) == 1 and not node.keywords:
            a = self.expr(node.args[0], env)
            if a.kind != "vec":
                raise Rejected(f"{where(node)}: sp.diags of a {a.kind}")
            return V("mat", f"(diags o {a.term})", sparse=True)
        raise Rejected(f"{where(node)}: sp.{fn}(...) is not supported")

    def fn_call(self, node, env):
        name = node.func.id
        if name in env:
            raise Rejected(f"{where(node)}: call of the local name {name!r}")
        if name not in self.tr.done:
            raise Rejected(f"{where(node)}: call of {name}(...), which is not a function translated before this point")
        pk, ret, rk, defaults, rflags = self.tr.done[name]
        self.no_keywords(node, f"the call of {name}")
        if len(node.args) > len(pk):
            raise Rejected(f"{where(node)}: too many arguments for {name}")
        terms = []
        for i, kind in enumerate(pk):
            if i < len(node.args):
                a = self.expr(node.args[i], env)
                if kind == "scal":
                    terms.append(self.scal(a, node))
                elif a.kind == kind:
                    terms.append(a.term)
                else:
                    raise Rejected(f"{where(node)}: argument {i} of {name} is a {a.kind}, expected a {kind}")
            elif defaults[i] is not None:
                terms.append(f"({defaults[i]} K o)")
            else:
                raise Rejected(f"{where(node)}: argument {i} of {name} is missing and has no default")
        term = f"(gen_{name} K o " + " ".join(terms) + ")"
        if len(rk) == 1:
            return V(rk[0], term, result=(ret == "result"), sparse=rflags[0][0], arr=rflags[0][1])
        return V("tuple", term, kinds=list(rk), flags=list(rflags), result=(ret == "result"))

    # ------------------------------------------------------------------ tests
    CMP_NAT = {ast.Eq: "Nat.eqb {a} {b}", ast.NotEq: "negb (Nat.eqb {a} {b})", ast.Lt: "Nat.ltb {a} {b}",
               ast.LtE: "Nat.leb {a} {b}", ast.Gt: "Nat.ltb {b} {a}", ast.GtE: "Nat.leb {b} {a}"}
    CMP_STR = {ast.Eq: "String.eqb {a} {b}", ast.NotEq: "negb (String.eqb {a} {b})"}

    def test(self, node, env):
        if isinstance(node, ast.BoolOp):
            op = "andb" if isinstance(node.op, ast.And) else "orb"
            ts = [self.test(v, env) for v in node.values]
            out = ts[-1]
            for t in reversed(ts[:-1]):
                out = f"({op} {t} {out})"
            return out
        if isinstance(node, ast.UnaryOp) and isinstance(node.op, ast.Not):
            return f"(negb {self.test(node.operand, env)})"
        if isinstance(node, ast.Compare) and len(node.ops) == 1:
            l = self.expr(node.left, env)
            r = self.expr(node.comparators[0], env)
            if l.result or r.result:
                raise Rejected(f"{where(node)}: a call that may raise inside a test")
            if l.kind == "str" and r.kind == "str":
                table, a, b = self.CMP_STR, l.term, r.term
            elif l.kind in ("nat", "int") and r.kind in ("nat", "int") and "nat" in (l.kind, r.kind):
                table, a, b = self.CMP_NAT, self.nat(l, node), self.nat(r, node)
            else:
                raise Rejected(f"{where(node)}: comparison of a {l.kind} with a {r.kind}")
            for cls, pat in table.items():
                if isinstance(node.ops[0], cls):
                    return "(" + pat.format(a=a, b=b) + ")"
            raise Rejected(f"{where(node)}: comparison operator {type(node.ops[0]).__name__}")
        raise Rejected(f"{where(node)}: test {type(node).__name__} is not supported")

    # ------------------------------------------------------------------ statements
    @staticmethod
    def check_tails(stmts):
        """a return / raise must be the last statement of its own block (no dead code)"""
        for k, st in enumerate(stmts):
            if isinstance(st, (ast.Return, ast.Raise)) and k != len(stmts) - 1:
                raise Rejected(f"{where(st)}: statements after return / raise")
            if isinstance(st, ast.If):
                Fn.check_tails(st.body)
                Fn.check_tails(st.orelse)

    def bind_name(self, env, name, v, node):
        """env after `name = v` (ownership filter: storage shared with other names is nobody's)."""
        if name in ("self", "np", "sp", "int", "float") or name in self.tr.done or name in FUNCS:
            raise Rejected(f"{where(node)}: assignment to the name {name!r}")
        env = dict(env)
        own = v.own
        for s in v.src:
            if s != name and s in env:
                o = env[s]
                env[s] = V(o.kind, o.term, own=False, sparse=o.sparse, src=o.src, arr=o.arr)
                own = False
        src = set(v.src) | {name} if v.kind in ("mat", "vec") else ()
        env[name] = V(v.kind, ident(name, node), own=own, sparse=v.sparse, src=src, arr=v.arr)
        return env

    def must_own(self, x, name, node, what):
        if not x.own:
            raise Rejected(f"{where(node)}: {what} on {name!r}, which may share its storage with a parameter or with another "
                           "name (in-place change of something the function does not own)")

    def check_ret(self, kinds, node):
        if kinds != self.rkinds:
            raise Rejected(f"{where(node)}: {self.name} returns {kinds}, expected {self.rkinds}")

    def block(self, stmts, env):
        if not stmts:
            if self.is_init:
                return self.finish_init(env)
            raise Rejected(f"{self.name}: a path through the function ends without return")
        st, rest = stmts[0], stmts[1:]
        if is_docstring(st) or isinstance(st, ast.Pass) or is_logging(st):
            return self.block(rest, env)
        if isinstance(st, ast.AnnAssign) and st.value is not None and st.simple:
            st = ast.copy_location(ast.Assign(targets=[st.target], value=st.value), st)
        if isinstance(st, ast.Assign) and len(st.targets) == 1:
            return self.assign(st, st.targets[0], rest, env)
        if isinstance(st, ast.AugAssign):
            return self.augassign(st, rest, env)
        if isinstance(st, ast.Expr) and isinstance(st.value, ast.Call):
            return self.inplace_call(st, rest, env)
        if isinstance(st, ast.If):
            t = self.test(st.test, env)
            a = self.block(list(st.body) + rest, env)
            b = self.block(list(st.orelse) + rest, env)
            return f"if {t}\n  then ({a})\n  else ({b})"
        if isinstance(st, ast.Raise):
            if self.ret != "result":
                raise Rejected(f"{where(st)}: raise in {self.name}, which is modelled as a function that never raises")
            e = st.exc
            if isinstance(e, ast.Call) and not e.keywords:
                e = e.func
            if st.cause is None and is_name(e) and e.id in ERRCLS and e.id not in env:
                return f"Err {e.id}"
            raise Rejected(f"{where(st)}: raise of something that is not one of {sorted(ERRCLS)}")
        if isinstance(st, ast.Return):
            return self.ret_stmt(st, env)
        raise Rejected(f"{where(st)}: statement {type(st).__name__} is not supported")

    def ret_stmt(self, st, env):
        if self.is_init or st.value is None:
            raise Rejected(f"{where(st)}: return without a value / inside __init__")
        elts = st.value.elts if isinstance(st.value, ast.Tuple) else [st.value]
        vals = [self.expr(e, env) for e in elts]
        if len(vals) == 1 and vals[0].result:
            # return f(...) where f may raise: the result is passed on as it is
            if self.ret != "result":
                raise Rejected(f"{where(st)}: {self.name} is modelled as never raising but returns a call that may raise")
            self.check_ret(vals[0].kinds if vals[0].kind == "tuple" else [vals[0].kind], st)
            self.note_flags(list(vals[0].flags) if vals[0].kind == "tuple" else [(vals[0].sparse, vals[0].arr)])
            return vals[0].term
        if any(v.result for v in vals):
            raise Rejected(f"{where(st)}: a call that may raise inside a returned tuple")
        kinds, terms = [], []
        for v, want in zip(vals, self.rkinds + [None] * len(vals)):
            if want == "scal" and self.numeric(v):
                kinds.append("scal")
                terms.append(self.scal(v, st))
            elif v.kind == "tuple" and len(vals) == 1:
                kinds = list(v.kinds)
                terms.append(v.term)
            else:
                kinds.append(v.kind)
                terms.append(v.term)
        self.check_ret(kinds, st)
        if len(vals) == len(kinds):
            self.note_flags([(v.sparse, v.arr) for v in vals])
        else:
            self.note_flags(list(vals[0].flags))
        t = terms[0] if len(terms) == 1 else "(" + ", ".join(terms) + ")"
        return f"Ok {t}" if self.ret == "result" else t

    def note_flags(self, flags):
        """what every return site guarantees about the container kinds of the returned values"""
        if self.rflags is None:
            self.rflags = list(flags)
        else:
            self.rflags = [(a and c, b and d) for (a, b), (c, d) in zip(self.rflags, flags)]

    def pattern(self, names):
        return "'(" + ", ".join(names) + ")"

    def assign(self, st, tgt, rest, env):
        # ---- x = e
        if isinstance(tgt, ast.Name):
            v = self.expr(st.value, env)
            if v.kind == "tuple":
                raise Rejected(f"{where(st)}: a tuple result assigned to one name")
            if v.kind == "int":
                v = V("scal", self.scal(v, st))
            if v.kind == "vshape":
                raise Rejected(f"{where(st)}: the shape of a vector assigned to a name")
            env2 = self.bind_name(env, tgt.id, v, st)
            body = self.block(rest, env2)
            x = env2[tgt.id].term
            if v.result:
                return f"rbind {v.term} (fun {x} =>\n  {body})"
            return f"let {x} := {v.term} in\n  {body}"
        # ---- self.f = e   (in __init__)
        if isinstance(tgt, ast.Attribute) and is_name(tgt.value, "self") and self.is_init:
            v = self.expr(st.value, env)
            env2, x = self.bind_field(env, tgt.attr, v, st)
            body = self.block(rest, env2)
            t = self.scal(v, st) if FIELDS[tgt.attr] == "scal" else v.term
            if v.result:
                return f"rbind {t} (fun {x} =>\n  {body})"
            return f"let {x} := {t} in\n  {body}"
        # ---- (a, b) = e   and   self.a, self.b, self.c = f(...)
        if isinstance(tgt, ast.Tuple):
            v = self.expr(st.value, env)
            if v.kind == "shape" and len(tgt.elts) == 2 and all(is_name(e) for e in tgt.elts):
                env2 = env
                for e in tgt.elts:
                    env2 = self.bind_name(env2, e.id, V("nat", None), st)
                if tgt.elts[0].id == tgt.elts[1].id:
                    raise Rejected(f"{where(st)}: the same name twice in a tuple target")
                names = [env2[e.id].term for e in tgt.elts]
                return f"let {self.pattern(names)} := {v.term} in\n  {self.block(rest, env2)}"
            if v.kind == "tuple" and len(tgt.elts) == len(v.kinds):
                env2 = env
                names = []
                seen = set()
                for e, kind, (fs, fa) in zip(tgt.elts, v.kinds, v.flags):
                    comp = V(kind, None, sparse=fs, arr=fa)
                    if isinstance(e, ast.Name):
                        key = e.id
                        env2 = self.bind_name(env2, e.id, comp, st)
                        names.append(env2[e.id].term)
                    elif isinstance(e, ast.Attribute) and is_name(e.value, "self") and self.is_init:
                        key = "self." + e.attr
                        env2, x = self.bind_field(env2, e.attr, comp, st)
                        names.append(x)
                    else:
                        raise Rejected(f"{where(st)}: tuple target element {type(e).__name__}")
                    if key in seen:
                        raise Rejected(f"{where(st)}: the same target twice in a tuple assignment")
                    seen.add(key)
                body = self.block(rest, env2)
                if v.result:
                    return f"rbind {v.term} (fun {self.pattern(names)} =>\n  {body})"
                return f"let {self.pattern(names)} := {v.term} in\n  {body}"
            raise Rejected(f"{where(st)}: tuple assignment of a {v.kind} to {len(tgt.elts)} targets")
        raise Rejected(f"{where(st)}: assignment target {type(tgt).__name__}")

    def bind_field(self, env, field, v, node):
        if field not in FIELDS:
            raise Rejected(f"{where(node)}: self.{field} is not a field of the container model {sorted(FIELDS)}")
        want = FIELDS[field]
        if not (v.kind == want or (want == "scal" and v.kind == "int")):
            raise Rejected(f"{where(node)}: self.{field} is assigned a {v.kind}, expected a {want}")
        env = dict(env)
        # a container field holds on to the value: it is no longer the function's to change in place
        for s in v.src:
            if s in env:
                o = env[s]
                env[s] = V(o.kind, o.term, own=False, sparse=o.sparse, src=o.src, arr=o.arr)
        if field in SPARSE_FIELDS:
            self.need_sparse(v, node, f"storing into self.{field}")
        if want == "vec":
            self.need_arr(v, node, f"storing into self.{field}")
        x = "self_" + field
        env["self." + field] = V(want, x, own=False, sparse=v.sparse, src=v.src, arr=v.arr)
        return env, x

    def augassign(self, st, rest, env):
        if not is_name(st.target):
            raise Rejected(f"{where(st)}: augmented assignment to {type(st.target).__name__}")
        name = st.target.id
        if name not in env:
            raise Rejected(f"{where(st)}: unknown name {name!r}")
        x = env[name]
        e = self.expr(st.value, env)
        if e.result:
            raise Rejected(f"{where(st)}: a call that may raise inside an augmented assignment")
        if x.kind in ("mat", "vec"):
            rebinding = (x.kind == "mat" and x.sparse and isinstance(st.op, (ast.Add, ast.Sub)))
            if not rebinding:
                self.must_own(x, name, st, f"in-place `{type(st.op).__name__}`")
        v = self.combine(st.op, x, e, st)
        if v.kind != ("scal" if x.kind == "int" else x.kind):
            raise Rejected(f"{where(st)}: augmented assignment changes {name!r} from a {x.kind} into a {v.kind}")
        v.sparse = x.sparse and v.sparse if x.kind == "mat" else False
        env2 = self.bind_name(env, name, v, st)
        return f"let {env2[name].term} := {v.term} in\n  {self.block(rest, env2)}"

    def inplace_call(self, st, rest, env):
        c = st.value
        f = c.func
        if isinstance(f, ast.Attribute) and is_name(f.value) and f.value.id in env and not c.keywords:
            name = f.value.id
            x = env[name]
            if x.kind == "mat" and f.attr == "setdiag" and len(c.args) == 1:
                d = self.expr(c.args[0], env)
                if not self.numeric(d):
                    raise Rejected(f"{where(st)}: setdiag with a {d.kind} (only a number is supported)")
                self.must_own(x, name, st, "setdiag")
                self.need_sparse(x, st, ".setdiag()")
                v = V("mat", f"(setdiag {self.scal(d, st)} {x.term})", own=True, sparse=x.sparse)
                env2 = self.bind_name(env, name, v, st)
                return f"let {env2[name].term} := {v.term} in\n  {self.block(rest, env2)}"
            if x.kind == "mat" and f.attr == "eliminate_zeros" and not c.args:
                self.must_own(x, name, st, "eliminate_zeros")
                self.need_sparse(x, st, ".eliminate_zeros()")
                v = V("mat", f"(eliminate_zeros {x.term})", own=True, sparse=x.sparse)
                env2 = self.bind_name(env, name, v, st)
                return f"let {env2[name].term} := {v.term} in\n  {self.block(rest, env2)}"
        raise Rejected(f"{where(st)}: expression statement {ast.unparse(st)[:80]!r} is not supported")

    def finish_init(self, env):
        missing = [f for f in FIELDS if "self." + f not in env]
        if missing:
            raise Rejected(f"{CLASS}.__init__ does not set the field(s) {missing}")
        rec = "; ".join(f"f_{f} := {env['self.' + f].term}" for f in FIELDS)
        return "Ok {| " + rec + " |}"


class Translator:
    def __init__(self):
        self.done = {}       # name -> (param kinds, ret, result kinds, [default term name or None])
        self.out = []

    # -------- parameters
    def params(self, fn, kinds, skip_self=False):
        a = fn.args
        if a.vararg or a.kwarg or a.kwonlyargs or a.posonlyargs or fn.decorator_list:
            raise Rejected(f"{fn.name} {where(fn)}: unsupported parameter list / decorator")
        args = list(a.args)
        if skip_self:
            if not args or args[0].arg != "self":
                raise Rejected(f"{fn.name} {where(fn)}: first parameter is not self")
            args = args[1:]
        if len(args) != len(kinds):
            raise Rejected(f"{fn.name} {where(fn)}: {len(args)} parameters, expected {len(kinds)} ({kinds})")
        names = [x.arg for x in args]
        if len(set(names)) != len(names):
            raise Rejected(f"{fn.name}: repeated parameter name")
        defaults = [None] * (len(args) - len(a.defaults)) + list(a.defaults)
        return names, defaults

    def default_defs(self, gname, names, kinds, defaults, helper):
        """one Definition per default value; returns the list of their names (None where there is no default)"""
        out = []
        for nm, kind, d in zip(names, kinds, defaults):
            if d is None:
                out.append(None)
                continue
            v = helper.expr(d, {})
            dn = f"{gname}_default_{nm}"
            if kind == "scal" and helper.numeric(v):
                self.out.append(f"Definition {dn} (K : Type) (o : ops K) : K := {helper.scal(v, d)}.\n")
            elif kind == "str" and v.kind == "str":
                self.out.append(f"Definition {dn} (K : Type) (o : ops K) : string := {v.term}.\n")
            else:
                raise Rejected(f"{where(d)}: default value of {nm} is a {v.kind}, expected a constant {kind}")
            out.append(dn)
        return out

    @staticmethod
    def body_of(fn):
        body = list(fn.body)
        Fn.check_tails(body)
        return body

    def function(self, fn):
        kinds, ret, rkinds, contract = FUNCS[fn.name]
        names, defaults = self.params(fn, kinds)
        h = Fn(self, fn.name, ret, rkinds)
        gname = "gen_" + fn.name
        dnames = self.default_defs(gname, names, kinds, defaults, h)
        env = {}
        for i, (nm, kind) in enumerate(zip(names, kinds)):
            c = contract.get(i, set())
            env = h.bind_name(env, nm, V(kind, None, own=("mutable" in c), sparse=("sparse" in c), arr=("ndarray" in c)), fn)
        term = h.block(self.body_of(fn), env)
        binders = " ".join(f"({env[nm].term} : {COQ_TYPE[k]})" for nm, k in zip(names, kinds))
        rty = " * ".join(COQ_TYPE[k] for k in rkinds)
        rty = f"result ({rty})" if ret == "result" else rty
        self.out.append(f"(* {fn.name}, line {fn.lineno} *)\n"
                        f"Definition {gname} (K : Type) (o : ops K) {binders} : {rty} :=\n  {term}.\n")
        self.done[fn.name] = (kinds, ret, rkinds, dnames, h.rflags or [(False, False)] * len(rkinds))

    def init(self, fn):
        names, defaults = self.params(fn, INIT_PARAMS, skip_self=True)
        h = Fn(self, f"{CLASS}.__init__", "result", ["container"], is_init=True)
        gname = f"gen_{CLASS}_init"
        self.default_defs(gname, names, INIT_PARAMS, defaults, h)
        env = {"self": V("self", None)}
        for nm, kind in zip(names, INIT_PARAMS):
            env = h.bind_name(env, nm, V(kind, None, own=False, arr=False), fn)
        term = h.block(self.body_of(fn), env)
        binders = " ".join(f"({env[nm].term} : {COQ_TYPE[k]})" for nm, k in zip(names, INIT_PARAMS))
        self.out.append(f"(* {CLASS}.__init__, line {fn.lineno} *)\n"
                        f"Definition {gname} (K : Type) (o : ops K) {binders} : result (container K) :=\n  {term}.\n")

    def method(self, fn):
        kinds, rkinds = METHODS[fn.name]
        names, defaults = self.params(fn, kinds, skip_self=True)
        if any(d is not None for d in defaults):
            raise Rejected(f"{CLASS}.{fn.name}: default values")
        h = Fn(self, f"{CLASS}.{fn.name}", "plain", rkinds)
        env = {"self": V("self", None)}
        for f, kind in FIELDS.items():
            env["self." + f] = V(kind, f"(f_{f} v_self)", own=False, sparse=(f in SPARSE_FIELDS))
        for nm, kind in zip(names, kinds):
            env = h.bind_name(env, nm, V(kind, None, own=False, arr=False), fn)
        term = h.block(self.body_of(fn), env)
        binders = " ".join(f"({env[nm].term} : {COQ_TYPE[k]})" for nm, k in zip(names, kinds))
        rty = " * ".join(COQ_TYPE[k] for k in rkinds)
        self.out.append(f"(* {CLASS}.{fn.name}, line {fn.lineno} *)\n"
                        f"Definition gen_{CLASS}_{fn.name} (K : Type) (o : ops K) (v_self : container K) {binders} : {rty} :=\n"
                        f"  {term}.\n")

    # -------- module
    def module(self, src):
        try:
            tree = ast.parse(src)
        except SyntaxError as e:
            raise Rejected(f"syntax error: {e}")
        imports = {"np": False, "sp": False}
        funcs, classes = {}, {}
        for n in tree.body:
            if isinstance(n, ast.Import):
                for a in n.names:
                    if a.asname in imports or (a.asname is None and a.name in imports):
                        ok = (a.name, a.asname) in (("numpy", "np"), ("scipy.sparse", "sp"))
                        if not ok:
                            raise Rejected(f"{where(n)}: np / sp bound to {a.name}")
                        imports[a.asname] = True
            elif isinstance(n, ast.ImportFrom):
                for a in n.names:
                    if (a.asname or a.name) in ("np", "sp", "int", "float") or (a.asname or a.name) in FUNCS:
                        raise Rejected(f"{where(n)}: `from ... import` rebinds {(a.asname or a.name)!r}")
            elif isinstance(n, ast.FunctionDef):
                if n.name in funcs:
                    raise Rejected(f"{where(n)}: {n.name} defined twice")
                funcs[n.name] = n
            elif isinstance(n, ast.ClassDef):
                if n.name in classes:
                    raise Rejected(f"{where(n)}: class {n.name} defined twice")
                classes[n.name] = n
            elif is_docstring(n):
                continue
            else:
                # module-level assignments etc. could rebind a translated name
                protected = set(FUNCS) | {"np", "sp", "int", "float", CLASS}
                for t in ast.walk(n):
                    if isinstance(t, ast.Name) and isinstance(t.ctx, (ast.Store, ast.Del)) and t.id in protected:
                        raise Rejected(f"{where(n)}: module-level statement rebinds {t.id!r}")
                    if isinstance(t, (ast.FunctionDef, ast.AsyncFunctionDef, ast.ClassDef)) and t.name in protected:
                        raise Rejected(f"{where(n)}: nested definition of {t.name!r} at module level")
                    if isinstance(t, ast.Attribute) and isinstance(t.ctx, (ast.Store, ast.Del)) and is_name(t.value) \
                            and t.value.id in protected:
                        raise Rejected(f"{where(n)}: module-level statement assigns to {t.value.id}.{t.attr}")
                    if isinstance(t, (ast.Import, ast.ImportFrom)):
                        raise Rejected(f"{where(n)}: import inside a module-level statement")
        if not all(imports.values()):
            raise Rejected("`import numpy as np` / `import scipy.sparse as sp` not found")
        for name in FUNCS:
            if name not in funcs:
                raise Rejected(f"function {name} not found")
        if CLASS not in classes:
            raise Rejected(f"class {CLASS} not found")
        # source order (a function must be translated before it is called)
        for n in tree.body:
            if isinstance(n, ast.FunctionDef) and n.name in FUNCS:
                self.function(n)
        cls = classes[CLASS]
        if cls.bases or cls.keywords or cls.decorator_list:
            raise Rejected(f"{CLASS} has base classes / decorators")
        meths = {}
        for n in cls.body:
            if is_docstring(n):
                continue
            if isinstance(n, ast.FunctionDef):
                if n.name in meths:
                    raise Rejected(f"{CLASS}.{n.name} defined twice")
                meths[n.name] = n
            else:
                raise Rejected(f"{CLASS} {where(n)}: class member {type(n).__name__}")
        for need in ["__init__"] + list(METHODS):
            if need not in meths:
                raise Rejected(f"{CLASS}.{need} not found")
        extra = set(meths) - set(METHODS) - {"__init__"} - UNTRANSLATED_METHODS
        if extra:
            raise Rejected(f"{CLASS} has unexpected methods {sorted(extra)} (they could re-assign the fields)")
        self.init(meths["__init__"])
        for name in METHODS:
            self.method(meths[name])
        head = ["(* GENERATED by harness/translate_qubotools.py from " + SRC_REL + ".  Do not edit. *)",
                "From Coq Require Import Arith ZArith List Bool String.",
                "From VQ Require Import Base LinAlg Qubo PyQubo.",
                ""]
        return "\n".join(head + self.out)


def translate_source(src):
    return Translator().module(src)


def source_path():
    from vq import core
    return os.path.join(core.REPO, SRC_REL)


def translate():
    with open(source_path()) as fh:
        src = fh.read()
    return {"QuboGen.v": translate_source(src)}


if __name__ == "__main__":
    import sys
    print(translate_source(open(sys.argv[1]).read()))
