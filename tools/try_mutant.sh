#!/bin/bash
# tools/try_mutant.sh <patch.diff> <ID> [tier]  -- run a check against a scratch worktree with the patch applied
set -u
PATCH="$1"; ID="$2"; TIER="${3:-quick}"
WT=$(mktemp -d /tmp/vqmut_XXXXXX)
git -C /repo worktree add -q --detach "$WT" HEAD >/dev/null 2>&1 || { echo "worktree failed"; exit 2; }
git -C "$WT" apply "$PATCH" || { echo "patch does not apply"; git -C /repo worktree remove --force "$WT"; exit 2; }
OUT=$(mktemp -d /tmp/vqmutout_XXXXXX)
VQ_OUT="$OUT" VQ_REPO="$WT" /verif/bin/check "$ID" --tier "$TIER" 2>&1 | grep -E "VIOLATION|KNOWN|OK tier|violation:" | head -8
rc=${PIPESTATUS[0]}
rm -rf "$OUT"
git -C /repo worktree remove --force "$WT"
rm -rf "$WT"
exit $rc
