#!/usr/bin/env python3
"""tools/seeded_matrix.py [ids...]: run, for every seeded change, the check of its own property
(plus any extra checks listed in EXTRA) against a scratch worktree with the patch applied, and
record which checks report it (with or without a concrete failing input) in seeded/<id>/meta.json
and in seeded/MATRIX.md."""
import json, os, subprocess, sys, tempfile, re
HERE = os.path.dirname(os.path.dirname(os.path.abspath(__file__)))
EXTRA = {"C03_a": ["C07"], "C03_b": ["C05"], "C08_a": ["C04"], "C08_b": ["C07"], "C02_b": ["C14"], "C18_a": ["C14"],
         "C05_a": ["C03"], "C07_a": ["C03"], "C04_a": ["C08"], "C08_c": ["C04", "C14"], "C08_d": ["C04"], "C04_c": ["C14"], "C03_d": ["C06"], "C06_c": ["C03"], "C07_d": ["C03"], "C03_c": ["C07"], "C16_c": ["C17"]}
ids = sys.argv[1:] or sorted(d for d in os.listdir(os.path.join(HERE, "seeded")) if os.path.isdir(os.path.join(HERE, "seeded", d)))
claimed = {c["property_id"] for c in json.load(open(os.path.join(HERE, "MANIFEST.json")))["checks"]}
rows = []
import threading
from concurrent.futures import ThreadPoolExecutor
locks = {c: threading.Lock() for c in claimed}
JOBS = int(os.environ.get("MATRIX_JOBS", "6"))


def run_one(sid, chk):
    """One check against one seeded change, in its own worktree and output directory.  The same check never
    runs twice at once (C11/C19 write generated files with fixed names)."""
    d = os.path.join(HERE, "seeded", sid)
    if chk not in claimed:
        return "check-not-built"
    with locks[chk]:
        wt = tempfile.mkdtemp(prefix="vqmat_")
        out = tempfile.mkdtemp(prefix="vqmatout_")
        try:
            subprocess.run(["git", "-C", "/repo", "worktree", "add", "-q", "--detach", wt, "HEAD"], check=True)
            ap = subprocess.run(["git", "-C", wt, "apply", os.path.join(d, "patch.diff")])
            if ap.returncode != 0:
                return "patch-does-not-apply"
            env = dict(os.environ, VQ_REPO=wt, VQ_OUT=out)
            p = subprocess.run([os.path.join(HERE, "bin", "check"), chk, "--tier", "quick"], env=env, stdout=subprocess.PIPE, stderr=subprocess.STDOUT, text=True)
            lines = [l for l in p.stdout.split("\n") if l.startswith("VIOLATION")]
            concrete = [l for l in lines if not l.rstrip().endswith("no-failing-input-found")]
            if p.returncode == 0 and not lines:
                return "MISSED"
            if p.returncode != 0 and not lines:
                return "exit %d without a VIOLATION line: %s" % (p.returncode, p.stdout[-200:].replace("\n", " "))
            if concrete:
                msg = [l for l in p.stdout.split("\n") if "violation:" in l]
                return "detected with concrete input: " + (msg[0].split("violation:", 1)[1].strip()[:160] if msg else "")
            return "detected (no-failing-input-found)"
        finally:
            subprocess.run(["git", "-C", "/repo", "worktree", "remove", "--force", wt])
            subprocess.run(["rm", "-rf", wt, out])


jobs = []
metas = {}
for sid in ids:
    metas[sid] = json.load(open(os.path.join(HERE, "seeded", sid, "meta.json")))
    for chk in [metas[sid]["property"]] + EXTRA.get(sid, []):
        jobs.append((sid, chk))
with ThreadPoolExecutor(max_workers=JOBS) as ex:
    results = list(ex.map(lambda j: (j, run_one(*j)), jobs))
for sid in ids:
    meta = metas[sid]
    res = {chk: r for (s2, chk), r in results if s2 == sid}
    print(sid, res, flush=True)
    if os.environ.get("MATRIX_DRY"):
        continue          # e.g. a run under another VERIF_SEED: print only
    meta["detected_by"] = res
    json.dump(meta, open(os.path.join(HERE, "seeded", sid, "meta.json"), "w"), indent=1)
if os.environ.get("MATRIX_DRY"):
    sys.exit(0)
with open(os.path.join(HERE, "seeded", "MATRIX.md"), "w") as fh:
    fh.write("# Seeded changes vs checks (quick tier)\n\n| id | property | change | result |\n|---|---|---|---|\n")
    allmeta = sorted(d for d in os.listdir(os.path.join(HERE, "seeded")) if os.path.isdir(os.path.join(HERE, "seeded", d)))
    for sid in allmeta:
        m = json.load(open(os.path.join(HERE, "seeded", sid, "meta.json")))
        res = m.get("detected_by")
        if isinstance(res, dict):
            r = "; ".join(f"{k}: {v}" for k, v in res.items())
        else:
            r = str(res)
        fh.write(f"| {sid} | {m['property']} | {str(m.get('summary',''))[:140].replace('|','/')} | {r.replace('|','/')} |\n")
