#!/usr/bin/env python3
"""Regenerate /verif/MANIFEST.json from tools/manifest_src.json (per-property texts)."""
import json, os
HERE = os.path.dirname(os.path.dirname(os.path.abspath(__file__)))
src = json.load(open(os.path.join(HERE, "tools", "manifest_src.json")))
props = [json.loads(l)["id"] for l in open(os.path.join(HERE, "properties.jsonl"))]
checks = []
na = []
for pid in props:
    e = src["properties"].get(pid)
    if e is None or e.get("not_applicable"):
        na.append({"property_id": pid, "reason": (e or {}).get("not_applicable", "check not built yet (work in progress; see DESIGN.md)")})
        continue
    checks.append({
        "property_id": pid,
        "quick_cmd": f"bin/check {pid} --tier quick",
        "thorough_cmd": f"bin/check {pid} --tier thorough",
        "evidence_file": f"/verif/evidence/{pid}.json",
        "replay_cmd_template": f"bin/check {pid} --replay {{path}}",
        "engine": "coq-proof+correspondence",
        "level_claimed": {"category": e.get("category", "proof"), "text": e["text"], "design_ref": e.get("design_ref", f"DESIGN.md section 6 ({pid})")},
        "level_note": e["note"],
        "technique": e.get("technique", "machine-checked proof in Coq 8.16 about a hand-written executable Gallina model, tied to the code by an in-Coq correspondence check"),
    })
m = {
    "version": 1,
    "setup_cmd": "bin/setup",
    "hooks": src["hooks"],
    "engines": [{"name": "coq-proof+correspondence", "path": "bin/check", "serves_properties": [c["property_id"] for c in checks],
                 "kind_free_text": "Coq 8.16 development under coq/ (theories = models + lemmas, props = property theorems with Print Assumptions); harness/ runs /repo's current code and the model's vm_compute evaluation on the same inputs and lets Coq compare them; Python oracles search the implementation for concrete failing inputs"}],
    "checks": checks,
    "notes": src.get("notes", ""),
    "not_applicable": na,
}
json.dump(m, open(os.path.join(HERE, "MANIFEST.json"), "w"), indent=1)
print("checks:", [c["property_id"] for c in checks], "not_applicable:", [n["property_id"] for n in na])
