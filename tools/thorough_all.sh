#!/bin/bash
# tools/thorough_all.sh [lanes]: every thorough command once, in parallel lanes; prints one summary line per check.
cd "$(dirname "$0")/.." || exit 2
LANES="${1:-3}"
bin/setup >/dev/null 2>&1
ids=$(python3 -c "import json;print(' '.join(c['property_id'] for c in json.load(open('MANIFEST.json'))['checks']))")
mkdir -p scratch/thorough
printf "%s\n" $ids | xargs -P "$LANES" -I{} bash -c 's=$(date +%s); bin/check {} --tier thorough > scratch/thorough/{}.log 2>&1; rc=$?; e=$(date +%s); echo "{} rc=$rc wall=$((e-s))s $(grep -c ^VIOLATION scratch/thorough/{}.log) violation-lines"'
