#!/usr/bin/env python3
"""tools/add_manifest_from_notes.py C19 [C20 ...]: take the JSON snippet of notes/<ID>.md into tools/manifest_src.json."""
import json, re, sys, os
HERE = os.path.dirname(os.path.dirname(os.path.abspath(__file__)))
src_p = os.path.join(HERE, "tools", "manifest_src.json")
src = json.load(open(src_p))
for pid in sys.argv[1:]:
    txt = open(os.path.join(HERE, "notes", pid + ".md")).read()
    found = None
    for m in re.finditer(r"```(?:json)?\s*(\{.*?\})\s*```", txt, re.S):
        try:
            d = json.loads(m.group(1))
        except Exception:
            continue
        if "text" in d and "note" in d:
            found = d
    if not found:
        print("no snippet for", pid); continue
    cat = found.get("category", "proof")
    e = {"text": found["text"], "note": found["note"], "category": "proof" if "proof" in cat else cat}
    if "technique" in found:
        e["technique"] = found["technique"]
    src["properties"][pid] = e
    print("added", pid)
json.dump(src, open(src_p, "w"), indent=1)
