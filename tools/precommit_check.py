#!/usr/bin/env python3
"""tools/precommit_check.py: every evidence file validates, is tier quick/thorough of a clean run
(violations == 0, discharged == obligations), and MANIFEST.json validates.  Run before committing."""
import json, glob, sys, subprocess
bad = []
try:
    import jsonschema
except ImportError:
    sys.exit(subprocess.call(["python3-vt", __file__]))
sch = json.load(open('/root/.vp/EVIDENCE.schema.json'))
man = json.load(open('/verif/MANIFEST.json'))
jsonschema.validate(man, json.load(open('/root/.vp/MANIFEST.schema.json')))
for c in man["checks"]:
    f = c["evidence_file"]
    try:
        d = json.load(open(f)); jsonschema.validate(d, sch)
        cov = d["coverage"]
        if d.get("violations", 0) != 0: bad.append(f"{f}: violations={d['violations']}")
        if cov.get("obligations") != cov.get("discharged"): bad.append(f"{f}: discharged {cov.get('discharged')} != obligations {cov.get('obligations')}")
        if d["property_id"] != c["property_id"]: bad.append(f"{f}: wrong id")
    except Exception as e:
        bad.append(f"{f}: {str(e)[:120]}")
print("\n".join(bad) if bad else f"ok: {len(man['checks'])} checks, evidence valid and clean")
sys.exit(1 if bad else 0)
