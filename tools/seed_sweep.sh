#!/bin/bash
# tools/seed_sweep.sh "<seeds>" [lanes]: every quick check under several VERIF_SEED values (flakiness / false alarms)
cd "$(dirname "$0")/.." || exit 2
SEEDS="${1:-2 3 4}"; LANES="${2:-3}"
bin/setup >/dev/null 2>&1
ids=$(python3 -c "import json;print(' '.join(c['property_id'] for c in json.load(open('MANIFEST.json'))['checks']))")
mkdir -p scratch/sweep
for s in $SEEDS; do for i in $ids; do echo "$s $i"; done; done | xargs -P "$LANES" -L1 bash -c 'VERIF_SEED=$0 VQ_OUT=scratch/sweep/out_$0 bin/check $1 --tier quick > scratch/sweep/$1_$0.log 2>&1; echo "seed=$0 $1 rc=$? $(grep -c ^VIOLATION scratch/sweep/$1_$0.log) violation-lines"'
