#!/bin/bash
# tools/ingest_seed3.sh <PID> : copy the two changes of round 3 from /tmp/seed${R:-3}_<PID>/out/{A,B} to seeded/<PID>_{e,f},
# confirm each in a scratch worktree (suite passes, demo fails with / passes without), then remove the seeder's worktree.
P="$1"; cd "$(dirname "$0")/.." || exit 2
PAIRS="A:e B:f"; [ "${R:-3}" = "4" ] && PAIRS="A:g B:h"; [ "${R:-3}" = "5" ] && PAIRS="A:i B:j"; [ "${R:-3}" = "6" ] && PAIRS="A:k B:l"; [ "${R:-3}" = "7" ] && PAIRS="A:m B:n"
for pair in $PAIRS; do
  X=${pair%%:*}; s=${pair##*:}
  src=/tmp/seed${R:-3}_$P/out/$X
  [ -f "$src/patch.diff" ] || { echo "$P $X: no patch"; continue; }
  dst=seeded/${P}_$s
  mkdir -p "$dst"; cp "$src/patch.diff" "$src/demo.py" "$src/meta.json" "$dst/" 2>/dev/null
  python3 - "$dst" "$P" <<'PY'
import json,sys
d,p=sys.argv[1:3]
try: m=json.load(open(d+"/meta.json"))
except Exception as e: m={"summary":"(meta.json unreadable: %s)"%e}
import os
m["property"]=p; m["round"]=int(os.environ.get("R","3"))
json.dump(m,open(d+"/meta.json","w"),indent=1)
PY
  r=$(tools/verify_seeded.sh "$PWD/$dst")
  echo "$r"
  python3 - "$dst" "$r" <<'PY'
import json,sys
d,r=sys.argv[1:3]
m=json.load(open(d+"/meta.json")); m["confirmed"]=r; json.dump(m,open(d+"/meta.json","w"),indent=1)
PY
done
git -C /repo worktree remove --force /tmp/seed${R:-3}_$P 2>/dev/null; rm -rf /tmp/seed${R:-3}_$P
