#!/bin/bash
# tools/verify_seeded.sh <dir with patch.diff demo.py meta.json> : confirm the seeded change in a scratch worktree
D="$1"
WT=$(mktemp -d /tmp/vqseed_XXXXXX)
git -C /repo worktree add -q --detach "$WT" HEAD >/dev/null 2>&1 || { echo "$D worktree-failed"; exit 2; }
res=""
PYTHONPATH="$WT/src" /venv/bin/python -W ignore "$D/demo.py" >/dev/null 2>&1; clean=$?
if git -C "$WT" apply "$D/patch.diff" 2>/dev/null; then
  (cd "$WT" && PYTHONPATH="$WT/src" /venv/bin/python -m pytest -q -p no:cacheprovider --timeout=900 src/vrpqubo/tests 2>&1 | tail -1) > "$WT/.pytest_out"
  tests=$(cat "$WT/.pytest_out")
  PYTHONPATH="$WT/src" /venv/bin/python -W ignore "$D/demo.py" >/dev/null 2>&1; mut=$?
  res="clean_demo_rc=$clean mutated_demo_rc=$mut tests='$tests'"
else
  res="patch-does-not-apply"
fi
git -C /repo worktree remove --force "$WT"; rm -rf "$WT"
echo "$(basename $D) $res"
